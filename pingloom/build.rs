//! Copies hyperium/h2's real `src/proto/ping_pong.rs` from /repo's working tree into OUT_DIR with its synchronisation
//! primitives redirected to loom (std::sync::atomic::AtomicUsize -> a thin wrapper over loom's in src/main.rs,
//! std::sync::Arc -> loom::sync::Arc). Everything
//! else the file refers to (codec, frame, proto::Error, tracing, atomic_waker, bytes, tokio) is provided by small stand-ins
//! in src/main.rs; the logic under test is the unmodified text of the file.
use std::{env, fs, path::PathBuf};

fn main() {
    let repo = env::var("H2_REPO").unwrap_or_else(|_| "/repo".to_string());
    let src = PathBuf::from(&repo).join("src/proto/ping_pong.rs");
    println!("cargo:rerun-if-changed={}", src.display());
    println!("cargo:rerun-if-env-changed=H2_REPO");
    let text = fs::read_to_string(&src).expect("cannot read ping_pong.rs");
    let mut out = String::new();
    let mut replaced = 0;
    for line in text.lines() {
        let l = match line.trim() {
            "use std::sync::atomic::{AtomicUsize, Ordering};" => {
                replaced += 1;
                "use crate::sync::{AtomicUsize, Ordering};".to_string()
            }
            "use std::sync::Arc;" => {
                replaced += 1;
                "use loom::sync::Arc;".to_string()
            }
            "use atomic_waker::AtomicWaker;" => {
                replaced += 1;
                "use crate::atomic_waker::AtomicWaker;".to_string()
            }
            "use bytes::Buf;" => {
                replaced += 1;
                "use crate::bytes::Buf;".to_string()
            }
            "use tokio::io::AsyncWrite;" => {
                replaced += 1;
                "use crate::tokio::io::AsyncWrite;".to_string()
            }
            _ => line.to_string(),
        };
        out.push_str(&l);
        out.push('\n');
    }
    if replaced != 5 {
        panic!("ping_pong.rs no longer has the expected imports ({} of 5 found): adapt pingloom/build.rs", replaced);
    }
    // tracing macros are invoked by path (tracing::trace!): route them to the crate's no-op macros
    let out = out.replace("tracing::trace!", "crate::noop!").replace("tracing::warn!", "crate::noop!");
    let dst = PathBuf::from(env::var("OUT_DIR").unwrap()).join("ping_pong.rs");
    fs::write(&dst, out).unwrap();
}
