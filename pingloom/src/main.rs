//! loom models over hyperium/h2's real `src/proto/ping_pong.rs` (see build.rs): the lock-free user-ping state machine
//! shared between the connection task and a `PingPong` handle on another thread.
//!
//! usage: pingloom list | pingloom run <model> | pingloom all
//! `run` explores every interleaving of one model (loom, unbounded preemptions) and prints
//! "MODEL <name> iterations=<n> ok" or panics with the failing schedule's assertion message.

#![allow(dead_code)]

use std::sync::atomic::{AtomicU64, Ordering as StdOrdering};
use std::task::{Context, Poll, Wake, Waker};

#[macro_export]
macro_rules! noop {
    ($($t:tt)*) => {};
}

/// Stand-in for the `atomic-waker` crate on loom primitives: `register` and `wake` are atomic with respect to each other
/// (a `wake` concurrent with a `register` wakes the old or the new waker) - the guarantee the crate documents.
pub mod atomic_waker {
    use loom::sync::Mutex;
    use std::task::Waker;
    #[derive(Debug)]
    pub struct AtomicWaker(Mutex<Option<Waker>>);
    impl AtomicWaker {
        pub fn new() -> Self {
            AtomicWaker(Mutex::new(None))
        }
        pub fn register(&self, w: &Waker) {
            *self.0.lock().unwrap() = Some(w.clone());
        }
        pub fn wake(&self) {
            let w = self.0.lock().unwrap().take();
            if let Some(w) = w {
                w.wake();
            }
        }
    }
}

/// `AtomicUsize` on loom. Every operation is loom's own, except that a plain `store` is performed as a `swap`: loom 0.7
/// keeps modification order as a partial order and leaves a plain store that races with a read-modify-write unordered
/// against it, so that a later RMW may read the value the store overwrote - impossible in C11, where an RMW reads the
/// value immediately preceding it in the (total) modification order. As an RMW the store is ordered correctly. This makes
/// the model slightly stronger than Release (documented in DESIGN.md): interleavings are explored exhaustively, weak-memory
/// reorderings of these two stores are not.
pub mod sync {
    pub use loom::sync::atomic::Ordering;
    #[derive(Debug)]
    pub struct AtomicUsize(loom::sync::atomic::AtomicUsize);
    impl AtomicUsize {
        pub fn new(v: usize) -> Self {
            AtomicUsize(loom::sync::atomic::AtomicUsize::new(v))
        }
        pub fn load(&self, o: Ordering) -> usize {
            self.0.load(o)
        }
        pub fn store(&self, v: usize, _o: Ordering) {
            self.0.swap(v, Ordering::AcqRel);
        }
        pub fn compare_exchange(&self, cur: usize, new: usize, s: Ordering, f: Ordering) -> Result<usize, usize> {
            self.0.compare_exchange(cur, new, s, f)
        }
        pub fn compare_exchange_weak(&self, cur: usize, new: usize, s: Ordering, f: Ordering) -> Result<usize, usize> {
            // no spurious failures: a retry loop around them adds nothing to the interleavings
            self.0.compare_exchange(cur, new, s, f)
        }
        pub fn swap(&self, v: usize, o: Ordering) -> usize {
            self.0.swap(v, o)
        }
        pub fn fetch_update<F: FnMut(usize) -> Option<usize>>(&self, s: Ordering, f: Ordering, g: F) -> Result<usize, usize> {
            self.0.fetch_update(s, f, g)
        }
        pub fn fetch_add(&self, v: usize, o: Ordering) -> usize {
            self.0.fetch_add(v, o)
        }
        pub fn fetch_sub(&self, v: usize, o: Ordering) -> usize {
            self.0.fetch_sub(v, o)
        }
        pub fn fetch_or(&self, v: usize, o: Ordering) -> usize {
            self.0.fetch_or(v, o)
        }
        pub fn fetch_and(&self, v: usize, o: Ordering) -> usize {
            self.0.fetch_and(v, o)
        }
    }
}

pub mod bytes {
    pub trait Buf {}
    impl Buf for () {}
}

pub mod tokio {
    pub mod io {
        pub trait AsyncWrite {}
        impl AsyncWrite for () {}
    }
}

pub mod frame {
    pub type Payload = [u8; 8];
    #[derive(Debug, PartialEq, Eq)]
    pub struct Ping {
        ack: bool,
        payload: Payload,
    }
    impl Ping {
        pub const SHUTDOWN: Payload = [0x0b, 0x7b, 0xa2, 0xf0, 0x8b, 0x9b, 0xfe, 0x54];
        pub const USER: Payload = [0x3b, 0x7c, 0xdb, 0x7a, 0x0b, 0x87, 0x16, 0xb4];
        pub fn new(payload: Payload) -> Ping {
            Ping { ack: false, payload }
        }
        pub fn pong(payload: Payload) -> Ping {
            Ping { ack: true, payload }
        }
        pub fn is_ack(&self) -> bool {
            self.ack
        }
        pub fn payload(&self) -> &Payload {
            &self.payload
        }
        pub fn into_payload(self) -> Payload {
            self.payload
        }
    }
    #[derive(Debug, PartialEq, Eq)]
    pub enum Frame {
        Ping(Ping),
    }
    impl From<Ping> for Frame {
        fn from(p: Ping) -> Frame {
            Frame::Ping(p)
        }
    }
}

pub mod codec {
    use std::io;
    use std::marker::PhantomData;
    use std::task::{Context, Poll};
    /// the codec as the ping code sees it: ready or not, and a buffer of frames
    pub struct Codec<T, B> {
        pub ready: bool,
        pub frames: Vec<crate::frame::Frame>,
        _p: PhantomData<(T, B)>,
    }
    impl<T, B> Codec<T, B> {
        pub fn new(ready: bool) -> Self {
            Codec { ready, frames: vec![], _p: PhantomData }
        }
        pub fn poll_ready(&mut self, _cx: &mut Context) -> Poll<io::Result<()>> {
            if self.ready {
                Poll::Ready(Ok(()))
            } else {
                Poll::Pending
            }
        }
        pub fn buffer(&mut self, f: crate::frame::Frame) -> Result<(), ()> {
            self.frames.push(f);
            Ok(())
        }
    }
}

pub mod proto {
    use std::io;
    pub type PingPayload = [u8; 8];
    #[derive(Debug)]
    pub struct Error(pub io::ErrorKind);
    impl From<io::Error> for Error {
        fn from(e: io::Error) -> Error {
            Error(e.kind())
        }
    }
    pub mod ping_pong {
        include!(concat!(env!("OUT_DIR"), "/ping_pong.rs"));
    }
}

use codec::Codec;
use frame::{Frame, Ping};
use proto::ping_pong::PingPong;

/// a waker that raises a flag visible to loom
struct FlagWake(loom::sync::atomic::AtomicBool);
impl Wake for FlagWake {
    fn wake(self: std::sync::Arc<Self>) {
        self.0.store(true, loom::sync::atomic::Ordering::SeqCst);
    }
    fn wake_by_ref(self: &std::sync::Arc<Self>) {
        self.0.store(true, loom::sync::atomic::Ordering::SeqCst);
    }
}
fn flag() -> (std::sync::Arc<FlagWake>, Waker) {
    let f = std::sync::Arc::new(FlagWake(loom::sync::atomic::AtomicBool::new(false)));
    (f.clone(), Waker::from(f))
}
fn is_set(f: &FlagWake) -> bool {
    f.0.load(loom::sync::atomic::Ordering::SeqCst)
}

static ITER: AtomicU64 = AtomicU64::new(0);

type C = Codec<(), ()>;

fn user_ping_frames(c: &C) -> usize {
    c.frames.iter().filter(|f| matches!(f, Frame::Ping(p) if !p.is_ack() && p.payload() == &Ping::USER)).count()
}

/// the connection task polls `send_pending_ping` once while another thread calls `send_ping`: afterwards the PING has been
/// buffered, or the connection task has been woken (and its next poll buffers it). Anything else is a lost wakeup: the
/// ping would sit there until something unrelated wakes the connection.
fn m_send_ping_vs_connection_poll() {
    ITER.fetch_add(1, StdOrdering::Relaxed);
    let mut pp = PingPong::new();
    let users = pp.take_user_pings().unwrap();
    let (cf, cw) = flag();
    let conn = loom::thread::spawn(move || {
        let mut cx = Context::from_waker(&cw);
        let mut codec: C = Codec::new(true);
        let r = pp.send_pending_ping(&mut cx, &mut codec);
        assert!(matches!(r, Poll::Ready(Ok(()))));
        (pp, codec, cw)
    });
    assert!(users.send_ping().is_ok(), "send_ping on an idle handle failed");
    let (mut pp, mut codec, cw) = conn.join().unwrap();
    let sent = user_ping_frames(&codec) == 1;
    let woken = is_set(&cf);
    assert!(sent || woken, "LOST WAKEUP: send_ping returned Ok, the connection task polled send_pending_ping and parked, no PING was buffered and its waker was never called");
    if !sent {
        let mut cx = Context::from_waker(&cw);
        let _ = pp.send_pending_ping(&mut cx, &mut codec);
        assert_eq!(user_ping_frames(&codec), 1, "woken connection task did not send the user PING");
    }
    // never twice
    let mut cx = Context::from_waker(&cw);
    let _ = pp.send_pending_ping(&mut cx, &mut codec);
    assert_eq!(user_ping_frames(&codec), 1, "user PING sent twice");
}

/// same with a codec that is not ready at first: the ping stays pending, the connection is polled again by the codec
fn m_send_ping_vs_connection_poll_codec_full() {
    ITER.fetch_add(1, StdOrdering::Relaxed);
    let mut pp = PingPong::new();
    let users = pp.take_user_pings().unwrap();
    let (cf, cw) = flag();
    let conn = loom::thread::spawn(move || {
        let mut cx = Context::from_waker(&cw);
        let mut codec: C = Codec::new(false);
        let r = pp.send_pending_ping(&mut cx, &mut codec);
        (pp, codec, cw, r.is_pending())
    });
    assert!(users.send_ping().is_ok());
    let (mut pp, mut codec, cw, was_pending) = conn.join().unwrap();
    // Pending means the codec will wake the task (the stand-in does not); Ready means the task parked on the ping waker
    assert!(was_pending || is_set(&cf), "LOST WAKEUP (codec full variant)");
    codec.ready = true;
    let mut cx = Context::from_waker(&cw);
    let _ = pp.send_pending_ping(&mut cx, &mut codec);
    assert_eq!(user_ping_frames(&codec), 1);
}

fn setup_pending_pong() -> (PingPong, proto::ping_pong::UserPings, C) {
    let mut pp = PingPong::new();
    let users = pp.take_user_pings().unwrap();
    assert!(users.send_ping().is_ok());
    let (_f, w) = flag();
    let mut cx = Context::from_waker(&w);
    let mut codec: C = Codec::new(true);
    let _ = pp.send_pending_ping(&mut cx, &mut codec);
    assert_eq!(user_ping_frames(&codec), 1);
    (pp, users, codec)
}

/// the pong arrives on the connection task while the user polls `poll_pong` on another thread: the user sees Ready(Ok), or
/// is woken and sees it on the next poll; a second ping is possible afterwards
fn m_pong_vs_poll_pong() {
    ITER.fetch_add(1, StdOrdering::Relaxed);
    let (mut pp, users, _codec) = setup_pending_pong();
    let (uf, uw) = flag();
    let conn = loom::thread::spawn(move || {
        let r = pp.recv_ping(Ping::pong(Ping::USER));
        assert!(!r.is_shutdown());
        pp
    });
    let mut cx = Context::from_waker(&uw);
    let first = users.poll_pong(&mut cx);
    let _pp = conn.join().unwrap();
    match first {
        Poll::Ready(Ok(())) => {}
        Poll::Ready(Err(e)) => panic!("poll_pong failed on a live connection: {:?}", e),
        Poll::Pending => {
            assert!(is_set(&uf), "LOST WAKEUP: the pong was received, poll_pong had returned Pending and its waker was never called");
            assert!(matches!(users.poll_pong(&mut cx), Poll::Ready(Ok(()))), "woken poll_pong did not return the pong");
        }
    }
    assert!(users.send_ping().is_ok(), "a second send_ping after a completed round trip failed");
}

/// the connection goes away (PingPong dropped) while the user waits for a pong
fn m_drop_vs_poll_pong() {
    ITER.fetch_add(1, StdOrdering::Relaxed);
    let (pp, users, _codec) = setup_pending_pong();
    let (uf, uw) = flag();
    let conn = loom::thread::spawn(move || drop(pp));
    let mut cx = Context::from_waker(&uw);
    let first = users.poll_pong(&mut cx);
    conn.join().unwrap();
    match first {
        Poll::Ready(Ok(())) => panic!("poll_pong returned a pong that never arrived"),
        Poll::Ready(Err(_)) => {}
        Poll::Pending => {
            assert!(is_set(&uf), "HANG: the connection is gone, poll_pong had returned Pending and its waker was never called");
            assert!(matches!(users.poll_pong(&mut cx), Poll::Ready(Err(_))), "poll_pong after the connection ended did not fail");
        }
    }
    assert!(users.send_ping().is_err(), "send_ping on a closed connection succeeded");
}

/// the connection goes away while the user calls send_ping: the ping is refused, or accepted and then reported lost
fn m_drop_vs_send_ping() {
    ITER.fetch_add(1, StdOrdering::Relaxed);
    let mut pp = PingPong::new();
    let users = pp.take_user_pings().unwrap();
    let conn = loom::thread::spawn(move || drop(pp));
    let r = users.send_ping();
    conn.join().unwrap();
    let (_uf, uw) = flag();
    let mut cx = Context::from_waker(&uw);
    match r {
        Ok(()) | Err(Some(_)) => {
            let p = users.poll_pong(&mut cx);
            assert!(matches!(p, Poll::Ready(Err(_))), "poll_pong after the connection ended did not fail: send_ping returned {:?}, poll_pong {:?}", r, p)
        }
        Err(None) => panic!("send_ping reported a user error (already pending) on an idle handle"),
    }
}

/// a pong and a new connection poll race with the user's poll_pong + send_ping sequence (three threads)
fn m_round_trip_then_second_ping() {
    ITER.fetch_add(1, StdOrdering::Relaxed);
    let (mut pp, users, mut codec) = setup_pending_pong();
    let (cf, cw) = flag();
    let conn = loom::thread::spawn(move || {
        let _ = pp.recv_ping(Ping::pong(Ping::USER));
        let mut cx = Context::from_waker(&cw);
        let _ = pp.send_pending_ping(&mut cx, &mut codec);
        (pp, codec, cw)
    });
    let (uf, uw) = flag();
    let mut cx = Context::from_waker(&uw);
    let first = users.poll_pong(&mut cx);
    let second = if matches!(first, Poll::Ready(Ok(()))) { Some(users.send_ping()) } else { None };
    let (mut pp, mut codec, cw) = conn.join().unwrap();
    match (first, second) {
        (Poll::Ready(Ok(())), Some(r)) => {
            assert!(r.is_ok(), "send_ping right after a completed round trip failed: {:?}", r);
            // the second ping is sent now or after the wake
            let sent = user_ping_frames(&codec) == 2;
            assert!(sent || is_set(&cf), "LOST WAKEUP: second user ping neither sent nor connection woken");
            if !sent {
                let mut ccx = Context::from_waker(&cw);
                let _ = pp.send_pending_ping(&mut ccx, &mut codec);
                assert_eq!(user_ping_frames(&codec), 2);
            }
        }
        (Poll::Pending, _) => {
            assert!(is_set(&uf), "LOST WAKEUP: pong received, user not woken");
            assert!(matches!(users.poll_pong(&mut cx), Poll::Ready(Ok(()))));
        }
        (Poll::Ready(Err(e)), _) => panic!("poll_pong failed: {:?}", e),
        _ => unreachable!(),
    }
}

/// The connection is gone for good (its PingPong was dropped and the dropping thread joined): whatever the user handle does
/// from now on must end in an error within a few steps - a pong that had already arrived may still be handed over, but a
/// Pending now is a hang (nobody is left to wake it) and a further ping must not be accepted and then wait for ever.
fn user_finishes_after_end(users: &proto::ping_pong::UserPings, cx: &mut Context, what: &str) {
    for _round in 0..3 {
        match users.poll_pong(cx) {
            Poll::Ready(Err(_)) => return,
            Poll::Pending => panic!("HANG ({}): the connection is gone and poll_pong returned Pending; nobody is left to wake it", what),
            Poll::Ready(Ok(())) => match users.send_ping() {
                Err(Some(_)) => return,
                Err(None) => panic!("send_ping reported a user error (ping already pending) right after a pong was handed over ({})", what),
                Ok(()) => {}
            },
        }
    }
    panic!("the user handle of an ended connection keeps handing out pongs ({})", what);
}

/// The pong arrives and the connection goes away (both on the connection thread) while the user polls for the pong and,
/// if it got it, sends the next ping. Afterwards the handle must report the end (C07: pending and subsequent operations).
fn m_end_after_pong() {
    ITER.fetch_add(1, StdOrdering::Relaxed);
    let (mut pp, users, _codec) = setup_pending_pong();
    let conn = loom::thread::spawn(move || {
        let _ = pp.recv_ping(Ping::pong(Ping::USER));
        drop(pp);
    });
    let (uf, uw) = flag();
    let mut cx = Context::from_waker(&uw);
    let first = users.poll_pong(&mut cx);
    let second = if matches!(first, Poll::Ready(Ok(()))) { Some(users.send_ping()) } else { None };
    conn.join().unwrap();
    if first.is_pending() {
        assert!(is_set(&uf), "HANG: pong received and connection gone, poll_pong had returned Pending and its waker was never called");
    }
    if let Some(Err(None)) = second {
        panic!("send_ping reported a user error right after a pong was handed over");
    }
    user_finishes_after_end(&users, &mut cx, "pong received, then connection dropped");
}

/// as above, the user does nothing until the connection is gone: one model per state the handle can be in at that moment
fn m_end_in_every_state() {
    ITER.fetch_add(1, StdOrdering::Relaxed);
    for state in 0..4 {
        let mut pp = PingPong::new();
        let users = pp.take_user_pings().unwrap();
        let (_f, w) = flag();
        let mut cx = Context::from_waker(&w);
        let mut codec: C = Codec::new(true);
        if state >= 1 {
            assert!(users.send_ping().is_ok());
        }
        if state >= 2 {
            let _ = pp.send_pending_ping(&mut cx, &mut codec);
        }
        if state >= 3 {
            let _ = pp.recv_ping(Ping::pong(Ping::USER));
        }
        // the drop happens on another thread (as when the connection task is on another worker)
        let conn = loom::thread::spawn(move || drop(pp));
        conn.join().unwrap();
        let (_uf, uw) = flag();
        let mut ucx = Context::from_waker(&uw);
        user_finishes_after_end(&users, &mut ucx, ["idle", "ping not yet written", "waiting for the pong", "pong received, not yet polled"][state]);
    }
}

const MODELS: &[(&str, fn())] = &[
    ("end-after-pong", m_end_after_pong),
    ("end-in-every-state", m_end_in_every_state),
    ("send_ping-vs-connection-poll", m_send_ping_vs_connection_poll),
    ("send_ping-vs-connection-poll-codec-full", m_send_ping_vs_connection_poll_codec_full),
    ("pong-vs-poll_pong", m_pong_vs_poll_pong),
    ("drop-vs-poll_pong", m_drop_vs_poll_pong),
    ("drop-vs-send_ping", m_drop_vs_send_ping),
    ("round-trip-then-second-ping", m_round_trip_then_second_ping),
];

fn main() {
    let args: Vec<String> = std::env::args().collect();
    match args.get(1).map(|s| s.as_str()) {
        Some("list") => {
            for (n, _) in MODELS {
                println!("{}", n);
            }
        }
        Some("run") => {
            let name = args.get(2).expect("model name");
            let (_, f) = MODELS.iter().find(|(n, _)| n == name).expect("unknown model");
            let f = *f;
            let mut b = loom::model::Builder::new();
            // exhaustive: no preemption bound
            b.preemption_bound = None;
            b.check(move || f());
            println!("MODEL {} iterations={} ok", name, ITER.load(StdOrdering::Relaxed));
        }
        _ => {
            eprintln!("usage: pingloom list | run <model>");
            std::process::exit(2);
        }
    }
}
