//! C05 — concurrent-stream limits are honoured in both directions and slots are recycled (X2 on T2, both roles).

use crate::common::*;
use crate::sim::*;
use crate::t2::*;
use crate::x2::*;
use bytes::Bytes;
use h2::{client, server};
use h2wire::frame::{self as wf, Parsed};
use serde_json::json;
use std::sync::Arc;
use std::task::{Context, Poll};

// ---------------------------------------------------------------------------------------------
// (a) the subject initiates streams (real client), the peer's limit changes

#[derive(Clone, Debug)]
pub enum CEv {
    Request(usize),
    PollReady(usize),
    PeerRespondEos(usize),
    PeerRst(usize),
    ClientReset(usize),
    ClientDrop(usize),
    PeerLimit(Option<u32>),
    PeerGoAway,
    Drive,
}

pub struct Req {
    pub clone_idx: usize,
    pub sid: u32,
    pub rf: Option<client::ResponseFuture>,
    pub ss: Option<h2::SendStream<Bytes>>,
}

pub struct CWorld {
    pub clones: Vec<(client::SendRequest<Bytes>, Arc<Flag>, bool)>, // (handle, waker flag, waiting in poll_ready)
    pub reqs: Vec<Req>,
    pub ready_after_park: u64,
    pub parked_seen: u64,
}

pub struct ClientConc {
    pub events: Vec<CEv>,
    pub name: &'static str,
    pub initial_limit: u32,
}

impl ClientConc {
    pub fn new(name: &'static str, quick: bool, initial_limit: u32) -> ClientConc {
        let clones = if quick { 2 } else { 3 };
        let slots = if quick { 3 } else { 4 };
        let mut ev = vec![];
        for c in 0..clones {
            ev.push(CEv::Request(c));
            ev.push(CEv::PollReady(c));
        }
        for k in 0..slots {
            ev.push(CEv::PeerRespondEos(k));
            ev.push(CEv::PeerRst(k));
            ev.push(CEv::ClientReset(k));
            ev.push(CEv::ClientDrop(k));
        }
        for l in [Some(0), Some(1), Some(2), None] {
            ev.push(CEv::PeerLimit(l));
        }
        if !quick {
            ev.push(CEv::PeerGoAway);
        }
        ev.push(CEv::Drive);
        ClientConc { events: ev, name, initial_limit }
    }
}

/// Streams of the subject that are open on the wire according to what the subject itself has sent and consumed, checked
/// against the limit in force at each point of its output. Returns (violations, currently open, current limit).
pub fn wire_concurrency(t: &T2) -> (Vec<String>, usize, Option<u32>) {
    let role = t.role;
    let mut vios = vec![];
    let mut open: std::collections::BTreeSet<u32> = Default::default();
    // streams the peer has reset before the subject's opening HEADERS left the codec (e.g. a pushed stream refused right
    // after its PUSH_PROMISE while the response head sat in a blocked write buffer): they never count as open
    let mut dead: std::collections::BTreeSet<u32> = Default::default();
    let mut limit: Option<u32> = None; // until the peer's first SETTINGS is acknowledged there is no limit
    let mut pending: std::collections::VecDeque<Vec<(u16, u32)>> = Default::default();
    // order: subject's frames in send order, peer frames at the time the subject's transport has read them
    for ev in &t.mon.events {
        match ev {
            crate::monitor::WireEv::Sent(i) => {
                let f = &t.mon.frames[*i];
                if f.sender == role {
                    match &f.parsed {
                        Ok(Parsed::Headers { sid, eos, .. }) => {
                            let own = if role == Side::Client { sid % 2 == 1 } else { sid % 2 == 0 };
                            if own && !open.contains(sid) && !dead.contains(sid) {
                                // a new stream: counts against the limit acknowledged so far
                                if let Some(l) = limit {
                                    if open.len() as u32 >= l {
                                        vios.push(format!("{} opened stream {} while {} of its streams were open and the acknowledged limit was {}", role.name(), sid, open.len(), l));
                                    }
                                }
                                open.insert(*sid);
                            }
                            // a pushed stream is half-closed (remote) from the start: the server's own END_STREAM closes it
                            if own && role == Side::Server && *eos {
                                open.remove(sid);
                            }
                        }
                        Ok(Parsed::Data { sid, eos: true, .. }) if role == Side::Server && sid % 2 == 0 => {
                            open.remove(sid);
                        }
                        Ok(Parsed::RstStream { sid, .. }) => {
                            open.remove(sid);
                        }
                        Ok(Parsed::Settings { ack: true, .. }) => {
                            if let Some(p) = pending.pop_front() {
                                for (k, v) in p {
                                    if k == wf::setting::MAX_CONCURRENT_STREAMS {
                                        limit = Some(v);
                                    }
                                }
                            }
                        }
                        _ => {}
                    }
                } else if let Ok(Parsed::Settings { ack: false, params }) = &f.parsed {
                    pending.push_back(params.clone());
                }
            }
            crate::monitor::WireEv::Delivered(i) => {
                let f = &t.mon.frames[*i];
                if f.sender != role {
                    match &f.parsed {
                        // a stream is closed at the earliest moment the subject can know: the peer's END_STREAM (the requests
                        // in this model carry END_STREAM themselves) or RST_STREAM has reached its transport
                        Ok(Parsed::RstStream { sid, .. }) => {
                            open.remove(sid);
                            dead.insert(*sid);
                        }
                        Ok(Parsed::Headers { sid, eos: true, .. }) | Ok(Parsed::Data { sid, eos: true, .. }) => {
                            open.remove(sid);
                        }
                        _ => {}
                    }
                }
            }
            _ => {}
        }
    }
    (vios, open.len(), limit)
}

impl Model for ClientConc {
    type World = CWorld;
    fn name(&self) -> &'static str {
        self.name
    }
    fn cfg(&self) -> T2Cfg {
        let mut cb = client::Builder::new();
        cb.initial_max_send_streams(self.initial_limit as usize);
        T2Cfg { role: Side::Client, peer_settings: vec![(wf::setting::MAX_CONCURRENT_STREAMS, self.initial_limit)], client: Some(cb), server: None, policy: IoPolicy::default() }
    }
    fn init(&self, t: &mut T2) -> CWorld {
        let sr = t.send_request.clone().unwrap();
        let n = self.events.iter().filter(|e| matches!(e, CEv::Request(_))).count();
        CWorld { clones: (0..n).map(|_| (sr.clone(), Flag::new(false), false)).collect(), reqs: vec![], ready_after_park: 0, parked_seen: 0 }
    }
    fn n_events(&self) -> usize {
        self.events.len()
    }
    fn event_name(&self, e: usize) -> String {
        format!("{:?}", self.events[e])
    }
    fn enabled(&self, t: &T2, w: &CWorld, e: usize) -> bool {
        if !t.conn_alive() {
            return false;
        }
        let on_wire = |k: usize| w.reqs.get(k).map(|r| t.subject_frames().iter().any(|f| matches!(&f.parsed, Ok(Parsed::Headers { sid, .. }) if *sid == r.sid))).unwrap_or(false);
        let peer_done = |k: usize| {
            w.reqs.get(k).map(|r| t.mon.frames.iter().any(|f| f.sender != t.role && f.raw.stream() == r.sid && matches!(&f.parsed, Ok(Parsed::Headers { eos: true, .. }) | Ok(Parsed::RstStream { .. })))).unwrap_or(true)
        };
        let max_reqs = self.events.iter().filter(|e| matches!(e, CEv::PeerRst(_))).count();
        match &self.events[e] {
            CEv::Request(_) => w.reqs.len() < max_reqs,
            CEv::PollReady(_) => true,
            CEv::PeerRespondEos(k) | CEv::PeerRst(k) => on_wire(*k) && !peer_done(*k) && t.rst_sent(w.reqs[*k].sid).is_empty(),
            CEv::ClientReset(k) => w.reqs.get(*k).map(|r| r.ss.is_some()).unwrap_or(false),
            CEv::ClientDrop(k) => w.reqs.get(*k).map(|r| r.rf.is_some() || r.ss.is_some()).unwrap_or(false),
            CEv::PeerLimit(_) => t.mon.unacked_settings[t.role.other().idx()].len() < 2,
            CEv::PeerGoAway => !t.mon.frames.iter().any(|f| f.sender != t.role && f.raw.ty == wf::ty::GOAWAY),
            CEv::Drive => true,
        }
    }
    fn apply(&self, t: &mut T2, w: &mut CWorld, e: usize) {
        let mut panics = vec![];
        match self.events[e].clone() {
            CEv::Request(c) => {
                let (sr, flag, waiting) = &mut w.clones[c];
                flag.clear();
                let wk = waker_of(flag);
                let mut cx = Context::from_waker(&wk);
                match guarded(&mut panics, "poll_ready", || sr.poll_ready(&mut cx)) {
                    Some(Poll::Ready(Ok(()))) => {
                        *waiting = false;
                        if let Some(Ok((rf, ss))) = guarded(&mut panics, "send_request", || sr.send_request(simple_request("/c", false), true)) {
                            w.reqs.push(Req { clone_idx: c, sid: rf.stream_id().as_u32(), rf: Some(rf), ss: Some(ss) });
                        }
                    }
                    Some(Poll::Pending) => {
                        *waiting = true;
                        w.parked_seen += 1;
                    }
                    _ => *waiting = false,
                }
            }
            CEv::PollReady(c) => {
                let (sr, flag, waiting) = &mut w.clones[c];
                let was_waiting = *waiting;
                flag.clear();
                let wk = waker_of(flag);
                let mut cx = Context::from_waker(&wk);
                match guarded(&mut panics, "poll_ready", || sr.poll_ready(&mut cx)) {
                    Some(Poll::Pending) => {
                        *waiting = true;
                        w.parked_seen += 1;
                    }
                    _ => {
                        *waiting = false;
                        if was_waiting {
                            w.ready_after_park += 1;
                        }
                    }
                }
            }
            CEv::PeerRespondEos(k) => {
                let sid = w.reqs[k].sid;
                t.peer_response(sid, "200", true);
            }
            CEv::PeerRst(k) => {
                let sid = w.reqs[k].sid;
                t.peer_send(&wf::rst_stream(sid, 2));
            }
            CEv::ClientReset(k) => {
                if let Some(mut ss) = w.reqs[k].ss.take() {
                    guarded(&mut panics, "send_reset", || ss.send_reset(h2::Reason::CANCEL));
                }
            }
            CEv::ClientDrop(k) => {
                let (a, b) = (w.reqs[k].rf.take(), w.reqs[k].ss.take());
                safe_drop(&mut panics, "ResponseFuture", a);
                safe_drop(&mut panics, "SendStream", b);
            }
            CEv::PeerLimit(l) => match l {
                Some(v) => t.peer_send(&wf::settings(&[(wf::setting::MAX_CONCURRENT_STREAMS, v)])),
                None => t.peer_send(&wf::settings(&[(wf::setting::MAX_CONCURRENT_STREAMS, 0x7fff_ffff)])),
            },
            CEv::PeerGoAway => {
                let last = w.reqs.iter().map(|r| r.sid).max().unwrap_or(0);
                t.peer_send(&wf::goaway(last, 0, b""));
            }
            CEv::Drive => {
                t.drive(200);
            }
        }
        t.panics.extend(panics);
        t.catch_up();
    }
    fn invariant(&self, t: &mut T2, _w: &mut CWorld) -> V3 {
        t.catch_up();
        let (vs, _, _) = wire_concurrency(t);
        vs.into_iter().map(|s| ("C05.limit-exceeded".to_string(), "send".to_string(), s)).collect()
    }
    fn epilogue(&self, t: &mut T2, w: &mut CWorld) -> V3 {
        let mut v = vec![];
        if !t.conn_alive() {
            return v;
        }
        // quiescence: the peer has read everything, all acknowledged
        t.drive(300);
        t.catch_up();
        let goaway = t.mon.frames.iter().any(|f| f.raw.ty == wf::ty::GOAWAY);
        if goaway || !t.conn_alive() {
            return v;
        }
        let (_, open, limit) = wire_concurrency(t);
        let limit = limit.unwrap_or(u32::MAX);
        // no request is parked while a slot is free
        let on_wire = |sid: u32| t.subject_frames().iter().any(|f| matches!(&f.parsed, Ok(Parsed::Headers { sid: s, .. }) if *s == sid));
        for r in &w.reqs {
            if (r.rf.is_some() || r.ss.is_some()) && !on_wire(r.sid) && (open as u32) < limit && t.rst_sent(r.sid).is_empty() {
                v.push(("C05.request-parked-with-free-slot".into(), "parked".into(), format!("at quiescence the request with stream id {} is still parked although only {} of {} allowed streams are open", r.sid, open, limit)));
            }
        }
        // a handle whose parked request was admitted (or that simply waited for a slot) has been woken
        let any_parked = w.reqs.iter().any(|r| (r.rf.is_some() || r.ss.is_some()) && !on_wire(r.sid));
        for (c, (sr, flag, waiting)) in w.clones.iter_mut().enumerate() {
            if !*waiting {
                continue;
            }
            let woken = flag.is_set();
            flag.clear();
            let wk = waker_of(flag);
            let mut cx = Context::from_waker(&wk);
            let r = sr.poll_ready(&mut cx);
            if let Poll::Ready(x) = r {
                if !woken {
                    v.push(("C05.ready-waiter-not-woken".into(), format!("{}", x.is_ok()), format!("SendRequest clone {} was waiting in poll_ready and was not woken, yet a forced poll returns Ready({:?}) ({} open, limit {}, parked requests: {})", c, x.map_err(|e| crate::scen::err_text(&e)), open, limit, any_parked)));
                }
            }
        }
        v
    }
    fn digest_extra(&self, t: &T2, w: &CWorld) -> String {
        let (_, open, limit) = wire_concurrency(t);
        let mut s = format!("open={} limit={:?} unacked={:?}", open, limit, t.mon.unacked_settings);
        for r in &w.reqs {
            let peer: Vec<u8> = t.mon.frames.iter().filter(|f| f.sender != t.role && f.raw.stream() == r.sid).map(|f| f.raw.ty).collect();
            s.push_str(&format!("|{}:c{} rf={} ss={} peer={:?} rst={}", r.sid, r.clone_idx, r.rf.is_some(), r.ss.is_some(), peer, !t.rst_sent(r.sid).is_empty()));
        }
        for (_, f, waiting) in &w.clones {
            s.push_str(&format!("|w={} f={}", waiting, f.is_set()));
        }
        s
    }
    fn teardown(&self, mut t: T2, w: CWorld) -> Vec<String> {
        let mut panics = std::mem::take(&mut t.panics);
        for r in w.reqs {
            safe_drop(&mut panics, "ResponseFuture", r.rf);
            safe_drop(&mut panics, "SendStream", r.ss);
        }
        for (sr, _, _) in w.clones {
            safe_drop(&mut panics, "SendRequest", sr);
        }
        t.panics = panics;
        t.finish()
    }
    fn counters(&self, _t: &T2, w: &CWorld) -> Vec<(&'static str, u64)> {
        vec![("requests_parked", w.parked_seen), ("ready_after_park", w.ready_after_park)]
    }
}

// ---------------------------------------------------------------------------------------------
// (b) the peer initiates streams (real server advertising a limit)

#[derive(Clone, Debug)]
pub enum SEv {
    PeerOpen,
    PeerOpenEos,
    PeerRst(usize),
    PeerEndData(usize),
    RespondEos(usize),
    /// response head + one 2 KiB DATA frame with END_STREAM (large enough to be chained in the codec, not copied)
    RespondBody(usize),
    ServerReset(usize),
    ServerDropAll(usize),
    ReadToEnd(usize),
    Drive,
    /// the connection is polled while the transport accepts no octets (it still reads)
    DriveBlocked,
}

pub struct SWorld {
    pub opened: Vec<u32>,
    pub peer_done: Vec<bool>,
    /// streams the application has reset itself (send_reset): no longer active for it, whether or not the RST_STREAM has
    /// reached the wire yet
    pub app_reset: Vec<u32>,
    /// streams whose response the application has completed (END_STREAM queued)
    pub app_ended: Vec<u32>,
}

pub struct ServerConc {
    pub events: Vec<SEv>,
    pub name: &'static str,
    pub limit: u32,
    /// the peer advertises a stream window of 1000: half of a 2 KiB response body is held back by flow control, so that a
    /// response can be finished by the application (END_STREAM queued) while its stream is in no send queue
    pub blocked: bool,
}

impl ServerConc {
    pub fn new(name: &'static str, quick: bool, limit: u32) -> ServerConc {
        Self::new_variant(name, quick, limit, false)
    }
    pub fn new_variant(name: &'static str, quick: bool, limit: u32, blocked: bool) -> ServerConc {
        let slots = if quick { 3 } else { 4 };
        let mut ev = vec![SEv::PeerOpen, SEv::PeerOpenEos];
        for k in 0..slots {
            ev.push(SEv::PeerRst(k));
            ev.push(SEv::PeerEndData(k));
            ev.push(SEv::RespondEos(k));
            ev.push(SEv::RespondBody(k));
            ev.push(SEv::ServerReset(k));
            ev.push(SEv::ServerDropAll(k));
            if !quick {
                ev.push(SEv::ReadToEnd(k));
            }
        }
        ev.push(SEv::Drive);
        ev.push(SEv::DriveBlocked);
        ServerConc { events: ev, name, limit, blocked }
    }
}

/// peer-initiated streams the application has been handed, still holds handles of, and that are not closed on the wire
/// (a stream the peer has reset, or that has ended both ways, is no longer active even if handles linger)
fn app_active(t: &T2, w: &SWorld) -> usize {
    t.accepted
        .iter()
        .filter(|a| a.body.is_some() || a.respond.is_some() || a.send.is_some())
        .filter(|a| {
            let sid = a.sid;
            let peer_rst = t.mon.frames.iter().any(|f| f.sender != t.role && matches!(&f.parsed, Ok(Parsed::RstStream { sid: s, .. }) if *s == sid));
            let subj_rst = !t.rst_sent(sid).is_empty();
            let peer_end = t.mon.frames.iter().any(|f| f.sender != t.role && f.raw.stream() == sid && matches!(&f.parsed, Ok(Parsed::Headers { eos: true, .. }) | Ok(Parsed::Data { eos: true, .. })));
            let subj_end = w.app_ended.contains(&sid) || t.subject_frames().iter().any(|f| f.raw.stream() == sid && matches!(&f.parsed, Ok(Parsed::Headers { eos: true, .. }) | Ok(Parsed::Data { eos: true, .. })));
            !(peer_rst || subj_rst || w.app_reset.contains(&sid) || (peer_end && subj_end))
        })
        .count()
}

/// peer-initiated streams open on the wire in a quiescent state: opened by the peer, not refused, not reset by either side,
/// and not ended in both directions
fn wire_open(t: &T2, w: &SWorld) -> usize {
    w.opened
        .iter()
        .filter(|&&sid| {
            let peer_rst = t.mon.frames.iter().any(|f| f.sender != t.role && matches!(&f.parsed, Ok(Parsed::RstStream { sid: s, .. }) if *s == sid));
            let subj_rst = !t.rst_sent(sid).is_empty();
            let peer_end = t.mon.frames.iter().any(|f| f.sender != t.role && f.raw.stream() == sid && matches!(&f.parsed, Ok(Parsed::Headers { eos: true, .. }) | Ok(Parsed::Data { eos: true, .. })));
            let subj_end = t.subject_frames().iter().any(|f| f.raw.stream() == sid && matches!(&f.parsed, Ok(Parsed::Headers { eos: true, .. }) | Ok(Parsed::Data { eos: true, .. })));
            !(peer_rst || subj_rst || (peer_end && subj_end))
        })
        .count()
}

impl Model for ServerConc {
    type World = SWorld;
    fn name(&self) -> &'static str {
        self.name
    }
    fn cfg(&self) -> T2Cfg {
        let mut sb = server::Builder::new();
        sb.max_concurrent_streams(self.limit);
        let peer_settings = if self.blocked { vec![(wf::setting::INITIAL_WINDOW_SIZE, 1000)] } else { vec![] };
        T2Cfg { role: Side::Server, peer_settings, client: None, server: Some(sb), policy: IoPolicy::default() }
    }
    fn init(&self, _t: &mut T2) -> SWorld {
        SWorld { opened: vec![], peer_done: vec![], app_reset: vec![], app_ended: vec![] }
    }
    fn n_events(&self) -> usize {
        self.events.len()
    }
    fn event_name(&self, e: usize) -> String {
        format!("{:?}", self.events[e])
    }
    fn enabled(&self, t: &T2, w: &SWorld, e: usize) -> bool {
        if !t.conn_alive() {
            return false;
        }
        let max_open = self.events.iter().filter(|e| matches!(e, SEv::PeerRst(_))).count() + 1;
        let acc = |k: usize| w.opened.get(k).and_then(|sid| t.accepted.iter().find(|a| a.sid == *sid));
        match &self.events[e] {
            SEv::PeerOpen | SEv::PeerOpenEos => w.opened.len() < max_open,
            SEv::PeerRst(k) => *k < w.opened.len() && !w.peer_done[*k],
            SEv::PeerEndData(k) => *k < w.opened.len() && !w.peer_done[*k] && t.rst_sent(w.opened[*k]).is_empty(),
            SEv::RespondEos(k) | SEv::RespondBody(k) | SEv::ServerReset(k) => acc(*k).map(|a| a.respond.is_some()).unwrap_or(false),
            SEv::ServerDropAll(k) => acc(*k).map(|a| a.respond.is_some() || a.body.is_some() || a.send.is_some()).unwrap_or(false),
            SEv::ReadToEnd(k) => acc(*k).map(|a| a.body.is_some()).unwrap_or(false),
            SEv::Drive | SEv::DriveBlocked => true,
        }
    }
    fn apply(&self, t: &mut T2, w: &mut SWorld, e: usize) {
        let mut panics = vec![];
        match self.events[e].clone() {
            SEv::PeerOpen | SEv::PeerOpenEos => {
                let sid = 1 + 2 * w.opened.len() as u32;
                let eos = matches!(self.events[e], SEv::PeerOpenEos);
                t.peer_request(sid, "/s", eos);
                w.opened.push(sid);
                w.peer_done.push(eos);
            }
            SEv::PeerRst(k) => {
                t.peer_send(&wf::rst_stream(w.opened[k], 8));
                w.peer_done[k] = true;
            }
            SEv::PeerEndData(k) => {
                t.peer_send(&wf::data(w.opened[k], b"x", true));
                w.peer_done[k] = true;
            }
            SEv::RespondEos(k) => {
                let sid = w.opened[k];
                if let Some(a) = t.accepted.iter_mut().find(|a| a.sid == sid) {
                    if let Some(mut r) = a.respond.take() {
                        let _ = guarded(&mut panics, "send_response", || r.send_response(simple_response(200), true).map(|s| drop(s)));
                        w.app_ended.push(sid);
                    }
                }
            }
            SEv::RespondBody(k) => {
                let sid = w.opened[k];
                if let Some(a) = t.accepted.iter_mut().find(|a| a.sid == sid) {
                    if let Some(mut r) = a.respond.take() {
                        if let Some(Ok(mut ss)) = guarded(&mut panics, "send_response", || r.send_response(simple_response(200), false)) {
                            let _ = guarded(&mut panics, "send_data", || ss.send_data(bytes::Bytes::from(vec![0x42u8; 2048]), true));
                            safe_drop(&mut panics, "SendStream", Some(ss));
                            w.app_ended.push(sid);
                        }
                    }
                }
            }
            SEv::ServerReset(k) => {
                let sid = w.opened[k];
                if let Some(a) = t.accepted.iter_mut().find(|a| a.sid == sid) {
                    if let Some(mut r) = a.respond.take() {
                        guarded(&mut panics, "send_reset", || r.send_reset(h2::Reason::INTERNAL_ERROR));
                        w.app_reset.push(sid);
                    }
                }
            }
            SEv::ServerDropAll(k) => {
                let sid = w.opened[k];
                if let Some(a) = t.accepted.iter_mut().find(|a| a.sid == sid) {
                    let (b, r, s) = (a.body.take(), a.respond.take(), a.send.take());
                    safe_drop(&mut panics, "RecvStream", b);
                    safe_drop(&mut panics, "SendResponse", r);
                    safe_drop(&mut panics, "SendStream", s);
                }
            }
            SEv::ReadToEnd(k) => {
                let sid = w.opened[k];
                if let Some(a) = t.accepted.iter_mut().find(|a| a.sid == sid) {
                    let wk = waker_of(&a.flag);
                    let mut cx = Context::from_waker(&wk);
                    if let Some(b) = a.body.as_mut() {
                        let mut ended = false;
                        for _ in 0..8 {
                            match guarded(&mut panics, "poll_data", || b.poll_data(&mut cx)) {
                                Some(Poll::Ready(Some(Ok(d)))) => {
                                    let _ = b.flow_control().release_capacity(d.len());
                                }
                                Some(Poll::Ready(_)) => {
                                    ended = true;
                                    break;
                                }
                                _ => break,
                            }
                        }
                        if ended {
                            a.body = None;
                        }
                    }
                }
            }
            SEv::Drive => {
                t.drive(200);
            }
            SEv::DriveBlocked => {
                t.sh.lock().unwrap().set_write_blocked(t.role, true);
                t.drive(200);
                t.sh.lock().unwrap().set_write_blocked(t.role, false);
            }
        }
        t.panics.extend(panics);
        t.catch_up();
    }
    fn invariant(&self, t: &mut T2, w: &mut SWorld) -> V3 {
        let mut v = vec![];
        t.catch_up();
        let active = app_active(t, w);
        if active > self.limit as usize {
            v.push(("C05.too-many-streams-surfaced".to_string(), "recv".into(), format!("the application holds {} unfinished peer-initiated streams, the advertised limit is {}", active, self.limit)));
        }
        // a refused stream gets exactly one RST_STREAM(REFUSED_STREAM) and never reaches accept()
        for &sid in &w.opened {
            let refusals = t.rst_sent(sid).iter().filter(|&&c| c == 7).count();
            let accepted = t.accepted.iter().any(|a| a.sid == sid);
            if refusals > 1 {
                v.push(("C05.refused-twice".into(), "rst".into(), format!("stream {} was refused {} times", sid, refusals)));
            }
            if refusals > 0 && accepted {
                v.push(("C05.refused-stream-surfaced".into(), "accept".into(), format!("stream {} was refused with REFUSED_STREAM and also handed to the application", sid)));
            }
        }
        v
    }
    fn epilogue(&self, t: &mut T2, w: &mut SWorld) -> V3 {
        let mut v = vec![];
        if !t.conn_alive() {
            return v;
        }
        t.drive(300);
        t.catch_up();
        if !t.conn_alive() || t.goaway_sent().is_some() {
            return v;
        }
        // quiescent: every stream not handed over and not refused is a bug; and a new stream is accepted iff a slot is free
        for &sid in &w.opened {
            let refused = t.rst_sent(sid).contains(&7);
            let accepted = t.accepted.iter().any(|a| a.sid == sid);
            let peer_rst_early = t.mon.frames.iter().any(|f| f.sender != t.role && matches!(&f.parsed, Ok(Parsed::RstStream { sid: s, .. }) if *s == sid));
            if !refused && !accepted && !peer_rst_early && t.rst_sent(sid).is_empty() {
                v.push(("C05.stream-neither-accepted-nor-refused".into(), "limbo".into(), format!("stream {} was opened by the peer; at quiescence it has neither reached accept() nor been refused", sid)));
            }
        }
        let open = wire_open(t, w);
        let sid = 1 + 2 * w.opened.len() as u32;
        let before = t.accepted.len();
        t.peer_request(sid, "/probe", true);
        t.drive(200);
        t.catch_up();
        let accepted = t.accepted.len() > before;
        let refused = t.rst_sent(sid).contains(&7);
        if open < self.limit as usize && !accepted {
            v.push(("C05.slot-not-recycled".into(), if refused { "refused".into() } else { "limbo".into() }, format!("only {} of {} allowed peer-initiated streams are open on the wire, yet a new stream {} was {}", open, self.limit, sid, if refused { "refused" } else { "not handed to the application" })));
        }
        v
    }
    fn digest_extra(&self, t: &T2, w: &SWorld) -> String {
        let mut s = String::new();
        for (k, &sid) in w.opened.iter().enumerate() {
            let a = t.accepted.iter().find(|a| a.sid == sid);
            s.push_str(&format!("|{}:done={} acc={} body={} resp={} rst={:?}", sid, w.peer_done[k], a.is_some(), a.map(|a| a.body.is_some()).unwrap_or(false), a.map(|a| a.respond.is_some()).unwrap_or(false), t.rst_sent(sid)));
        }
        s.push_str(&format!("|app_reset={:?} app_ended={:?}", w.app_reset, w.app_ended));
        s
    }
    fn teardown(&self, t: T2, _w: SWorld) -> Vec<String> {
        t.finish()
    }
    fn counters(&self, t: &T2, w: &SWorld) -> Vec<(&'static str, u64)> {
        vec![("streams_refused", w.opened.iter().filter(|&&s| t.rst_sent(s).contains(&7)).count() as u64), ("streams_accepted", t.accepted.len() as u64)]
    }
}

// ---------------------------------------------------------------------------------------------
// (c) the subject initiates streams as a SERVER: pushed streams count against the client's limit

#[derive(Clone, Debug)]
pub enum PEv {
    /// push_request + response head without END_STREAM (the pushed stream opens when that head is written)
    AppPush,
    AppEnd(usize),
    AppReset(usize),
    AppDrop(usize),
    PeerRst(usize),
    PeerLimit(Option<u32>),
    Drive,
    DriveBlocked,
}

pub struct PWorld {
    /// (promised id, handle)
    pub pushed: Vec<(u32, Option<h2::SendStream<Bytes>>)>,
    pub ended: Vec<u32>,
    pub app_reset: Vec<u32>,
    pub peer_rst: Vec<u32>,
}

pub struct ServerPushConc {
    pub events: Vec<PEv>,
    pub name: &'static str,
    pub initial_limit: u32,
}

impl ServerPushConc {
    pub fn new(name: &'static str, quick: bool, initial_limit: u32) -> ServerPushConc {
        let slots = if quick { 3 } else { 4 };
        let mut ev = vec![PEv::AppPush];
        for j in 0..slots {
            ev.push(PEv::AppEnd(j));
            ev.push(PEv::AppReset(j));
            ev.push(PEv::AppDrop(j));
            ev.push(PEv::PeerRst(j));
        }
        for l in [Some(0), Some(1), Some(2), None] {
            ev.push(PEv::PeerLimit(l));
        }
        ev.push(PEv::Drive);
        ev.push(PEv::DriveBlocked);
        ServerPushConc { events: ev, name, initial_limit }
    }
    fn slots(&self) -> usize {
        self.events.iter().filter(|e| matches!(e, PEv::PeerRst(_))).count()
    }
}

impl Model for ServerPushConc {
    type World = PWorld;
    fn name(&self) -> &'static str {
        self.name
    }
    fn cfg(&self) -> T2Cfg {
        T2Cfg { role: Side::Server, peer_settings: vec![(wf::setting::MAX_CONCURRENT_STREAMS, self.initial_limit)], client: None, server: Some(server::Builder::new()), policy: IoPolicy::default() }
    }
    fn init(&self, t: &mut T2) -> PWorld {
        t.peer_request(1, "/parent", true);
        t.drive(50);
        PWorld { pushed: vec![], ended: vec![], app_reset: vec![], peer_rst: vec![] }
    }
    fn n_events(&self) -> usize {
        self.events.len()
    }
    fn event_name(&self, e: usize) -> String {
        format!("{:?}", self.events[e])
    }
    fn enabled(&self, t: &T2, w: &PWorld, e: usize) -> bool {
        if !t.conn_alive() {
            return false;
        }
        let promised_on_wire = |sid: u32| t.subject_frames().iter().any(|f| matches!(&f.parsed, Ok(Parsed::PushPromise { promised, .. }) if *promised == sid));
        match &self.events[e] {
            PEv::AppPush => w.pushed.len() < self.slots() && t.accepted.first().map(|a| a.respond.is_some()).unwrap_or(false),
            PEv::AppEnd(j) | PEv::AppReset(j) | PEv::AppDrop(j) => w.pushed.get(*j).map(|p| p.1.is_some()).unwrap_or(false),
            PEv::PeerRst(j) => w.pushed.get(*j).map(|p| promised_on_wire(p.0) && !w.peer_rst.contains(&p.0)).unwrap_or(false),
            PEv::PeerLimit(_) | PEv::Drive | PEv::DriveBlocked => true,
        }
    }
    fn apply(&self, t: &mut T2, w: &mut PWorld, e: usize) {
        let mut panics = vec![];
        match self.events[e].clone() {
            PEv::AppPush => {
                if let Some(a) = t.accepted.first_mut() {
                    if let Some(r) = a.respond.as_mut() {
                        if let Some(Ok(mut p)) = guarded(&mut panics, "push_request", || r.push_request(simple_request("/pushed", false))) {
                            let sid = p.stream_id().as_u32();
                            match guarded(&mut panics, "pushed send_response", || p.send_response(simple_response(200), false)) {
                                Some(Ok(ss)) => w.pushed.push((sid, Some(ss))),
                                _ => w.pushed.push((sid, None)),
                            }
                        }
                    }
                }
            }
            PEv::AppEnd(j) => {
                if let Some(mut ss) = w.pushed[j].1.take() {
                    let _ = guarded(&mut panics, "send_data", || ss.send_data(Bytes::from_static(b"x"), true));
                    safe_drop(&mut panics, "SendStream", Some(ss));
                    w.ended.push(w.pushed[j].0);
                }
            }
            PEv::AppReset(j) => {
                if let Some(mut ss) = w.pushed[j].1.take() {
                    guarded(&mut panics, "send_reset", || ss.send_reset(h2::Reason::CANCEL));
                    safe_drop(&mut panics, "SendStream", Some(ss));
                    w.app_reset.push(w.pushed[j].0);
                }
            }
            PEv::AppDrop(j) => {
                let h = w.pushed[j].1.take();
                safe_drop(&mut panics, "SendStream", h);
                w.app_reset.push(w.pushed[j].0);
            }
            PEv::PeerRst(j) => {
                let sid = w.pushed[j].0;
                t.peer_send(&wf::rst_stream(sid, 8));
                w.peer_rst.push(sid);
            }
            PEv::PeerLimit(l) => t.peer_send(&wf::settings(&[(wf::setting::MAX_CONCURRENT_STREAMS, l.unwrap_or(1000))])),
            PEv::Drive => {
                t.drive(200);
            }
            PEv::DriveBlocked => {
                t.sh.lock().unwrap().set_write_blocked(t.role, true);
                t.drive(200);
                t.sh.lock().unwrap().set_write_blocked(t.role, false);
            }
        }
        t.panics.extend(panics);
        t.catch_up();
    }
    fn invariant(&self, t: &mut T2, _w: &mut PWorld) -> V3 {
        t.catch_up();
        let (vs, _, _) = wire_concurrency(t);
        vs.into_iter().map(|s| ("C05.limit-exceeded".to_string(), "push".to_string(), s)).collect()
    }
    fn epilogue(&self, t: &mut T2, w: &mut PWorld) -> V3 {
        let mut v = vec![];
        let mut panics = vec![];
        if !t.conn_alive() {
            return v;
        }
        // the client lifts its limit; the application ends every pushed response it still holds; then every promise that
        // nobody cancelled has been announced, answered and ended on the wire (a pushed stream parked behind the limit is sent
        // as soon as a slot is free)
        t.drive(300);
        t.peer_send(&wf::settings(&[(wf::setting::MAX_CONCURRENT_STREAMS, 1000)]));
        t.drive(300);
        for j in 0..w.pushed.len() {
            if let Some(mut ss) = w.pushed[j].1.take() {
                let _ = guarded(&mut panics, "send_data", || ss.send_data(Bytes::from_static(b"x"), true));
                safe_drop(&mut panics, "SendStream", Some(ss));
                w.ended.push(w.pushed[j].0);
            }
        }
        t.drive(300);
        t.catch_up();
        t.panics.extend(panics);
        if !t.panics.is_empty() || !t.conn_alive() || t.goaway_sent().is_some() {
            return v;
        }
        for (sid, _) in &w.pushed {
            if w.app_reset.contains(sid) || w.peer_rst.contains(sid) || !t.rst_sent(*sid).is_empty() {
                continue;
            }
            let fr = t.subject_frames();
            let promised = fr.iter().any(|f| matches!(&f.parsed, Ok(Parsed::PushPromise { promised, .. }) if promised == sid));
            let head = fr.iter().any(|f| matches!(&f.parsed, Ok(Parsed::Headers { sid: s, .. }) if s == sid));
            let end = fr.iter().any(|f| f.raw.stream() == *sid && matches!(&f.parsed, Ok(Parsed::Data { eos: true, .. }) | Ok(Parsed::Headers { eos: true, .. })));
            if !(promised && head && end) {
                v.push(("C05.request-parked-with-free-slot".into(), format!("push:{}{}{}", promised as u8, head as u8, end as u8), format!("pushed stream {}: the limit is lifted, its response was completed by the application and everything is quiescent, yet on the wire: PUSH_PROMISE {}, response head {}, END_STREAM {}", sid, promised, head, end)));
            }
        }
        let (vs, _, _) = wire_concurrency(t);
        v.extend(vs.into_iter().map(|s| ("C05.limit-exceeded".to_string(), "push".to_string(), s)));
        v
    }
    fn digest_extra(&self, t: &T2, w: &PWorld) -> String {
        let (_, open, limit) = wire_concurrency(t);
        format!("pushed={:?} ended={:?} app_reset={:?} peer_rst={:?} open={} limit={:?}", w.pushed.iter().map(|p| (p.0, p.1.is_some())).collect::<Vec<_>>(), w.ended, w.app_reset, w.peer_rst, open, limit)
    }
    fn teardown(&self, mut t: T2, w: PWorld) -> Vec<String> {
        let mut panics = std::mem::take(&mut t.panics);
        for (_, h) in w.pushed {
            safe_drop(&mut panics, "SendStream", h);
        }
        t.panics = panics;
        t.finish()
    }
    fn counters(&self, t: &T2, w: &PWorld) -> Vec<(&'static str, u64)> {
        let parked = w.pushed.iter().filter(|p| !t.subject_frames().iter().any(|f| matches!(&f.parsed, Ok(Parsed::Headers { sid, .. }) if *sid == p.0))).count() as u64;
        vec![("streams_pushed", w.pushed.len() as u64), ("pushed_streams_not_yet_opened", parked)]
    }
}

/// X3: with the write buffer filled to every level around "full", the peer opens two streams beyond the limit of 1: after the
/// transport opens, each has been refused exactly once and neither reached the application.
pub fn fill_sweep_one(vectored: bool, fill: usize, verbose: bool) -> Vec<(String, String, String)> {
    let mut v = vec![];
    let mut sb = server::Builder::new();
    sb.max_concurrent_streams(1);
    let cfg = T2Cfg { role: Side::Server, peer_settings: vec![], client: None, server: Some(sb), policy: IoPolicy { vectored, ..IoPolicy::default() } };
    let mut t = T2::new(&cfg, vec![]);
    let mut panics = vec![];
    t.peer_request(1, "/f", false);
    t.drive(100);
    t.peer_ack_settings();
    t.drive(100);
    fill_write_buffer(&mut t, 1, fill, vectored, &mut panics);
    t.peer_request(3, "/x", true);
    t.peer_request(5, "/y", true);
    t.drive(100);
    unblock_and_quiesce(&mut t);
    if t.conn_alive() && t.goaway_sent().is_none() {
        for sid in [3u32, 5] {
            let refusals = t.rst_sent(sid).iter().filter(|&&c| c == 7).count();
            let accepted = t.accepted.iter().any(|a| a.sid == sid);
            if accepted {
                v.push(("C05.too-many-streams-surfaced".to_string(), "fill-sweep".into(), format!("write buffer filled with {} octets (vectored {}): stream {} beyond the limit of 1 reached the application", fill, vectored, sid)));
            } else if refusals != 1 {
                v.push(("C05.stream-neither-accepted-nor-refused".into(), "fill-sweep".into(), format!("write buffer filled with {} octets (vectored {}): excess stream {} was refused {} times", fill, vectored, sid, refusals)));
            }
        }
    }
    if verbose {
        println!("fill {} vectored {}: RST(3) {:?} RST(5) {:?} accepted {:?}", fill, vectored, t.rst_sent(3), t.rst_sent(5), t.accepted.iter().map(|a| a.sid).collect::<Vec<_>>());
    }
    t.panics.extend(panics);
    for p in t.finish() {
        v.push(("C05.panic".into(), "fill-sweep".into(), format!("fill {} vectored {}: panic {}", fill, vectored, p.lines().next().unwrap_or(""))));
    }
    v
}

pub fn fill_sweep(out: &mut Outcome, vios: &mut VioSet, quick: bool) {
    let jobs = fill_levels(quick);
    let found = std::sync::Mutex::new(vec![]);
    par_for(jobs.len(), |i| {
        let vs = fill_sweep_one(jobs[i].0, jobs[i].1, false);
        if !vs.is_empty() {
            found.lock().unwrap().push((jobs[i], vs));
        }
    });
    for ((vectored, fill), vs) in found.into_inner().unwrap() {
        for (rule, sig, what) in vs {
            vios.add(Violation { rule, signature: sig, what, replay: json!({"harness": "c05.fill", "vectored": vectored, "fill": fill}) });
        }
    }
    out.harness("write-buffer-fill-sweep", json!({"cases": jobs.len()}));
    out.add_count("evaluations", jobs.len() as u64);
    out.add_count("traces_validated_against_impl", jobs.len() as u64);
}

pub fn run(ctx: &Ctx) -> Outcome {
    let mut out = Outcome::default();
    let quick = ctx.tier.is_quick();
    let budget = ctx.tier.budget_s() * 0.58; // the fractions below add up to 1.6
    let sfx = if quick { "q" } else { "t" };
    let c1 = ClientConc::new(if quick { "client-limit1-q" } else { "client-limit1-t" }, quick, 1);
    let c2 = ClientConc::new(if quick { "client-limit2-q" } else { "client-limit2-t" }, quick, 2);
    let s1 = ServerConc::new(if quick { "server-limit1-q" } else { "server-limit1-t" }, quick, 1);
    let s2 = ServerConc::new(if quick { "server-limit2-q" } else { "server-limit2-t" }, quick, 2);
    let _ = sfx;
    let maxd = if quick { 8 } else { 12 };
    // quick: explicit, machine-independent depths (clients 6, servers 7)
    let (cd, sd) = if quick { (6, 7) } else { (maxd, maxd) };
    let r1 = search(ctx, &c1, "C05", cd, budget * 0.3, true);
    let r2 = search(ctx, &c2, "C05", cd, budget * 0.55, true);
    let r3 = search(ctx, &s1, "C05", sd, budget * 0.75, true);
    let r4 = search(ctx, &s2, "C05", sd, budget * 0.97, true);
    let s3 = ServerConc::new_variant(if quick { "server-limit1-blocked-q" } else { "server-limit1-blocked-t" }, quick, 1, true);
    let r5 = search(ctx, &s3, "C05", sd, budget * 1.2, true);
    // the limit the CLIENT advertises applies to the streams the server pushes: two promises, limit 1
    let p1 = crate::c19::PushLife::new_variant("push-life-limit1", 2, Some(1));
    let r6 = search(ctx, &p1, "C05", if quick { 8 } else { 13 }, budget * 1.4, true);
    // the SERVER's own streams are the ones it pushes: they count against the client's limit
    let sp = ServerPushConc::new(if quick { "server-push-limit1-q" } else { "server-push-limit1-t" }, quick, 1);
    let r7 = search(ctx, &sp, "C05", if quick { 7 } else { 12 }, budget * 1.6, true);
    fill_outcome(&mut out, &[(c1.name, &r1), (c2.name, &r2), (s1.name, &r3), (s2.name, &r4), (s3.name, &r5), (p1.name, &r6), (sp.name, &r7)]);
    out.set("exhaustive", json!(false));
    out.set("alphabet", json!({"client": c1.events.iter().map(|e| format!("{:?}", e)).collect::<Vec<_>>(), "server": s1.events.iter().map(|e| format!("{:?}", e)).collect::<Vec<_>>()}));
    out.set("rule", json!("X2 on T2, both directions. Client subject: 2-3 SendRequest clones, requests (parked when over the limit), poll_ready, peer responses / RST_STREAM, client reset / drop, peer SETTINGS MAX_CONCURRENT_STREAMS {0,1,2,unlimited} at any time, GOAWAY; invariant: the subject never opens a stream while as many as the acknowledged limit are open on the wire according to what it has itself sent and consumed; epilogue: no request parked while a slot is free, no poll_ready waiter left unwoken. Server subject advertising 1 / 2: peer opens up to limit+2 streams and closes them by every path, application responds / resets / drops / reads; invariant: unfinished streams surfaced <= limit, a refused stream gets exactly one REFUSED_STREAM and never reaches accept(); epilogue: nothing in limbo, and a new stream is accepted whenever fewer than the limit are open on the wire (every close path frees its slot)"));
    out.add_sample(json!({"harness": format!("x2.{}", c1.name), "depth": 3, "choices": [1, 1, 14]}));
    let mut vs = VioSet::default();
    for r in [r1, r2, r3, r4, r5, r6, r7] {
        vs.merge(r.agg.vios);
    }
    fill_sweep(&mut out, &mut vs, ctx.tier.is_quick());
    out.violations = vs.into_vec();
    out.guard_nonzero("requests parked", out.coverage.get("mechanism_counters").and_then(|m| m.get("requests_parked")).and_then(|v| v.as_u64()).unwrap_or(0));
    out.guard_nonzero("streams refused", out.coverage.get("mechanism_counters").and_then(|m| m.get("streams_refused")).and_then(|v| v.as_u64()).unwrap_or(0));
    out
}

pub fn replay(v: &serde_json::Value) -> Option<bool> {
    let h = v["harness"].as_str().unwrap_or("");
    if h == "c05.fill" {
        let vs = fill_sweep_one(v["vectored"].as_bool().unwrap_or(false), v["fill"].as_u64().unwrap_or(0) as usize, true);
        for (r, _, w) in &vs {
            println!("RULE VIOLATED: {} {}", r, w);
        }
        return Some(!vs.is_empty());
    }
    for quick in [true, false] {
        for (n, l) in [("client-limit1", 1u32), ("client-limit2", 2)] {
            let name: &'static str = Box::leak(format!("{}-{}", n, if quick { "q" } else { "t" }).into_boxed_str());
            if h == format!("x2.{}", name) {
                return Some(replay_model(&ClientConc::new(name, quick, l), "C05", v));
            }
        }
        {
            let name: &'static str = if quick { "server-push-limit1-q" } else { "server-push-limit1-t" };
            if h == format!("x2.{}", name) {
                return Some(replay_model(&ServerPushConc::new(name, quick, 1), "C05", v));
            }
        }
        for (n, l, b) in [("server-limit1", 1u32, false), ("server-limit2", 2, false), ("server-limit1-blocked", 1, true)] {
            let name: &'static str = Box::leak(format!("{}-{}", n, if quick { "q" } else { "t" }).into_boxed_str());
            if h == format!("x2.{}", name) {
                return Some(replay_model(&ServerConc::new_variant(name, quick, l, b), "C05", v));
            }
        }
    }
    None
}
