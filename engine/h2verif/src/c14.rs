//! C14 — SETTINGS and PING acknowledged exactly once, in order; settings apply at the ACK (X2 on T2, subject = real server).

use crate::common::*;
use crate::monitor::*;
use crate::sim::*;
use crate::t2::*;
use crate::x2::*;
use bytes::Bytes;
use h2::server;
use h2wire::frame::{self as wf, Parsed};
use serde_json::json;
use std::task::{Context, Poll};

#[derive(Clone, Debug)]
pub enum Ev {
    PeerSettings(usize),
    PeerPing(usize),
    PeerStraySettingsAck,
    PeerStrayPingAck,
    PeerAckSettings,
    PeerData(usize),
    PeerWu(u32),
    AppPing,
    AppSetWindow(u32),
    AppRespondBody(usize),
    /// push_request on the open stream (at most twice), response head without END_STREAM
    AppPush,
    /// the body of the oldest pushed response still open: one octet + END_STREAM
    AppPushedEnd,
    Drive,
    DriveBudget(usize),
    DriveBlocked,
}

pub fn settings_menu() -> Vec<Vec<(u16, u32)>> {
    vec![
        vec![],
        vec![(wf::setting::HEADER_TABLE_SIZE, 0)],
        vec![(wf::setting::HEADER_TABLE_SIZE, 8192)],
        vec![(wf::setting::INITIAL_WINDOW_SIZE, 7)],
        vec![(wf::setting::INITIAL_WINDOW_SIZE, 70_000)],
        vec![(wf::setting::MAX_FRAME_SIZE, 16_385)],
        vec![(wf::setting::MAX_FRAME_SIZE, 20_000), (wf::setting::INITIAL_WINDOW_SIZE, 30_000)],
        vec![(wf::setting::ENABLE_PUSH, 0)],
        vec![(wf::setting::MAX_HEADER_LIST_SIZE, 100), (0x99, 5)],
        // a parameter that changes something next to one that changes nothing (the window as it is), in both orders
        vec![(wf::setting::ENABLE_PUSH, 0), (wf::setting::INITIAL_WINDOW_SIZE, 65_535)],
        vec![(wf::setting::INITIAL_WINDOW_SIZE, 65_535), (wf::setting::MAX_FRAME_SIZE, 16_385)],
    ]
}

pub fn ping_menu() -> Vec<[u8; 8]> {
    vec![
        [1, 2, 3, 4, 5, 6, 7, 8],
        [0; 8],
        // the payloads h2 itself uses for graceful shutdown and for user pings
        [0x0b, 0x7b, 0xa2, 0xf0, 0x8b, 0x9b, 0xfe, 0x54],
        [0x3b, 0x7c, 0xdb, 0x7a, 0x0b, 0x87, 0x16, 0xb4],
    ]
}

pub struct World {
    pub pp: Option<h2::PingPong>,
    pub user_ping_outstanding: bool,
    pub stray_settings_ack_sent: bool,
    pub local_windows: Vec<u32>,
    pub responded: bool,
    pub pushes: usize,
    pub pushed: Vec<h2::SendStream<Bytes>>,
    pub life: Lifecycle,
    pub stream_open: bool,
    pub acct: FlowAcct,
}

pub struct AckModel {
    pub events: Vec<Ev>,
    pub name: &'static str,
}

impl AckModel {
    pub fn new(name: &'static str, quick: bool) -> AckModel {
        let mut ev = vec![];
        let sm = settings_menu();
        for i in 0..sm.len() {
            if quick && [2usize, 8, 10].contains(&i) {
                continue;
            }
            ev.push(Ev::PeerSettings(i));
        }
        for i in 0..ping_menu().len() {
            if quick && i == 1 {
                continue;
            }
            ev.push(Ev::PeerPing(i));
        }
        ev.push(Ev::PeerStraySettingsAck);
        ev.push(Ev::PeerStrayPingAck);
        ev.push(Ev::PeerAckSettings);
        ev.push(Ev::PeerData(50));
        ev.push(Ev::PeerData(0));
        ev.push(Ev::PeerWu(40_000));
        ev.push(Ev::AppPing);
        ev.push(Ev::AppSetWindow(10));
        if !quick {
            ev.push(Ev::AppSetWindow(100_000));
        }
        ev.push(Ev::AppRespondBody(40_000));
        ev.push(Ev::AppPush);
        ev.push(Ev::AppPushedEnd);
        ev.push(Ev::Drive);
        ev.push(Ev::DriveBudget(9));
        if !quick {
            ev.push(Ev::DriveBudget(1));
            ev.push(Ev::DriveBudget(17));
        }
        ev.push(Ev::DriveBlocked);
        AckModel { events: ev, name }
    }
}

/// (settings delivered to the subject, settings acks written by it, ping payloads delivered (non-ack), pong payloads written)
pub fn ack_counts(t: &T2) -> (usize, usize, Vec<[u8; 8]>, Vec<[u8; 8]>) {
    let mut s_in = 0;
    let mut s_ack = 0;
    let mut pings = vec![];
    let mut pongs = vec![];
    for ev in &t.mon.events {
        match ev {
            WireEv::Delivered(i) if t.mon.frames[*i].sender != t.role => match &t.mon.frames[*i].parsed {
                Ok(Parsed::Settings { ack: false, .. }) => s_in += 1,
                Ok(Parsed::Ping { ack: false, payload }) => pings.push(*payload),
                _ => {}
            },
            WireEv::Sent(i) if t.mon.frames[*i].sender == t.role => match &t.mon.frames[*i].parsed {
                Ok(Parsed::Settings { ack: true, .. }) => s_ack += 1,
                Ok(Parsed::Ping { ack: true, payload }) => pongs.push(*payload),
                _ => {}
            },
            _ => {}
        }
    }
    (s_in, s_ack, pings, pongs)
}

/// everything the subject wrote obeys the values it had acknowledged at that point of its own output
pub fn post_ack_obedience(t: &T2) -> Vec<(String, String)> {
    let mut v = vec![];
    let role = t.role;
    let mut pending: std::collections::VecDeque<Vec<(u16, u32)>> = Default::default();
    let mut max_frame = 16384usize;
    let mut push_enabled = true;
    let mut table_limit: Option<usize> = None; // a reduction that still has to be signalled
    let mut table_max = 4096usize;
    for f in &t.mon.frames {
        if f.sender != role {
            if let Ok(Parsed::Settings { ack: false, params }) = &f.parsed {
                pending.push_back(params.clone());
            }
            continue;
        }
        if f.raw.payload.len() > max_frame {
            v.push(("frame-size".to_string(), format!("{} of {} octets after acknowledging MAX_FRAME_SIZE {}", wf::type_name(f.raw.ty), f.raw.payload.len(), max_frame)));
        }
        match &f.parsed {
            Ok(Parsed::Settings { ack: true, .. }) => {
                if let Some(p) = pending.pop_front() {
                    for (k, val) in p {
                        match k {
                            wf::setting::MAX_FRAME_SIZE => max_frame = val as usize,
                            wf::setting::ENABLE_PUSH => push_enabled = val != 0,
                            wf::setting::HEADER_TABLE_SIZE => {
                                let eff = (val as usize).min(4096);
                                if eff < table_max {
                                    table_limit = Some(table_limit.map(|x| x.min(eff)).unwrap_or(eff));
                                }
                                table_max = eff.max(table_limit.unwrap_or(0)).min(eff);
                                table_max = eff;
                            }
                            _ => {}
                        }
                    }
                }
            }
            Ok(Parsed::PushPromise { .. }) if !push_enabled => v.push(("push-after-disable".into(), "PUSH_PROMISE after acknowledging ENABLE_PUSH = 0".into())),
            _ => {}
        }
        if let Some(b) = &f.block {
            if let Some(lim) = table_limit.take() {
                if !b.size_updates.iter().any(|&u| (u as usize) <= lim) {
                    v.push(("table-size-not-signalled".into(), format!("first header block after acknowledging HEADER_TABLE_SIZE {} starts with size updates {:?}", lim, b.size_updates)));
                }
            }
        }
    }
    for (side, d) in &t.mon.wire_defects {
        if *side == role {
            v.push(("hpack".into(), d.clone()));
        }
    }
    v
}

impl Model for AckModel {
    type World = World;
    fn name(&self) -> &'static str {
        self.name
    }
    fn cfg(&self) -> T2Cfg {
        T2Cfg { role: Side::Server, peer_settings: vec![], client: None, server: Some(server::Builder::new()), policy: IoPolicy::default() }
    }
    fn init(&self, t: &mut T2) -> World {
        // one stream, request fully received, so that the application can respond with a body later
        t.peer_request(1, "/a", false);
        t.drive(50);
        let pp = if let Conn::Server(c) = &mut t.conn { c.ping_pong() } else { None };
        // whoever takes the PingPong handle holds the connection (`&mut`) and goes on polling it: only then does the
        // connection know where to be woken for user pings (the handle is normally taken before the first poll)
        t.conn_flag.wake_by_ref_pub();
        t.drive(50);
        let mut acct = FlowAcct::new(Side::Server);
        acct.update(&t.mon);
        World { pp, user_ping_outstanding: false, stray_settings_ack_sent: false, local_windows: vec![65535], responded: false, pushes: 0, pushed: vec![], life: Lifecycle::new(Side::Server), stream_open: true, acct }
    }
    fn n_events(&self) -> usize {
        self.events.len()
    }
    fn event_name(&self, e: usize) -> String {
        match &self.events[e] {
            Ev::PeerSettings(i) => format!("PeerSettings({:?})", settings_menu()[*i]),
            x => format!("{:?}", x),
        }
    }
    fn enabled(&self, t: &T2, w: &World, e: usize) -> bool {
        if !t.conn_alive() {
            return false;
        }
        let (s_in_sent, pings_sent) = (t.mon.frames.iter().filter(|f| f.sender != t.role && matches!(&f.parsed, Ok(Parsed::Settings { ack: false, .. }))).count(), t.mon.frames.iter().filter(|f| f.sender != t.role && matches!(&f.parsed, Ok(Parsed::Ping { ack: false, .. }))).count());
        match &self.events[e] {
            Ev::PeerSettings(_) => s_in_sent < 4,
            Ev::PeerPing(_) => pings_sent < 3,
            // "answers nothing": every SETTINGS of the subject is acknowledged, and no local change is waiting to be written
            // (the subject cannot tell an ACK that overtook its own SETTINGS from a genuine one)
            Ev::PeerStraySettingsAck => {
                let written = t.subject_frames().iter().filter(|f| matches!(&f.parsed, Ok(Parsed::Settings { ack: false, .. }))).count();
                t.mon.unacked_settings[t.role.idx()].is_empty() && !w.stray_settings_ack_sent && written == w.local_windows.len()
            }
            Ev::PeerAckSettings => !t.mon.unacked_settings[t.role.idx()].is_empty(),
            Ev::PeerStrayPingAck => true,
            Ev::PeerData(n) => {
                // a legal peer stays inside the windows it has been granted (as it sees them: values it has acknowledged)
                let pv = crate::c03::peer_view(t);
                w.stream_open && (*n == 0 || ((*n as i64) <= pv.vs(1) && (*n as i64) <= pv.v0()))
            }
            Ev::PeerWu(_) => true,
            Ev::AppPing => w.pp.is_some() && !w.user_ping_outstanding,
            Ev::AppSetWindow(x) => w.local_windows.last() != Some(x) && t.mon.unacked_settings[t.role.idx()].is_empty(),
            Ev::AppRespondBody(_) => !w.responded,
            Ev::AppPush => !w.responded && w.pushes < 2,
            Ev::AppPushedEnd => !w.pushed.is_empty(),
            _ => true,
        }
    }
    fn apply(&self, t: &mut T2, w: &mut World, e: usize) {
        let mut panics = vec![];
        match self.events[e].clone() {
            Ev::PeerSettings(i) => t.peer_send(&wf::settings(&settings_menu()[i])),
            Ev::PeerPing(i) => t.peer_send(&wf::ping(ping_menu()[i], false)),
            Ev::PeerStraySettingsAck => {
                // delivered and processed at once: whether an ACK "answers nothing" can only be judged against what the
                // subject has sent when it reads the ACK (an ACK still in flight is matched with a SETTINGS written later)
                t.peer_send(&wf::settings_ack());
                w.stray_settings_ack_sent = true;
                t.drive(200);
            }
            Ev::PeerStrayPingAck => t.peer_send(&wf::ping([0xaa; 8], true)),
            Ev::PeerAckSettings => t.peer_send(&wf::settings_ack()),
            Ev::PeerData(n) => t.peer_send(&wf::data(1, &vec![b'p'; n], false)),
            Ev::PeerWu(n) => {
                t.peer_send(&wf::window_update(0, n));
                t.peer_send(&wf::window_update(1, n));
            }
            Ev::AppPing => {
                if let Some(pp) = w.pp.as_mut() {
                    if let Some(Ok(())) = guarded(&mut panics, "send_ping", || pp.send_ping(h2::Ping::opaque())) {
                        w.user_ping_outstanding = true;
                    }
                }
            }
            Ev::AppSetWindow(x) => {
                if let Conn::Server(c) = &mut t.conn {
                    if let Some(Ok(())) = guarded(&mut panics, "set_initial_window_size", || c.set_initial_window_size(x)) {
                        w.local_windows.push(x);
                    }
                }
                t.conn_flag.wake_by_ref_pub();
            }
            Ev::AppRespondBody(n) => {
                if let Some(a) = t.accepted.iter_mut().find(|a| a.sid == 1) {
                    if let Some(mut r) = a.respond.take() {
                        if let Some(Ok(mut ss)) = guarded(&mut panics, "send_response", || r.send_response(simple_response(200), false)) {
                            let _ = guarded(&mut panics, "send_data", || ss.send_data(Bytes::from(vec![b'r'; n]), true));
                            a.send = Some(ss);
                        }
                    }
                }
                w.responded = true;
            }
            Ev::AppPush => {
                if let Some(a) = t.accepted.iter_mut().find(|a| a.sid == 1) {
                    if let Some(r) = a.respond.as_mut() {
                        // (refused by h2 once the peer's ENABLE_PUSH = 0 is in force: that is the obedient outcome)
                        if let Some(Ok(mut p)) = guarded(&mut panics, "push_request", || r.push_request(simple_request("/pushed", false))) {
                            if let Some(Ok(ss)) = guarded(&mut panics, "pushed send_response", || p.send_response(simple_response(200), false)) {
                                w.pushed.push(ss);
                            }
                        }
                    }
                }
                w.pushes += 1;
            }
            Ev::AppPushedEnd => {
                let mut ss = w.pushed.remove(0);
                // (an error here is the obedient outcome once the promise was cancelled)
                let _ = guarded(&mut panics, "pushed send_data", || ss.send_data(Bytes::from_static(b"x"), true));
                safe_drop(&mut panics, "SendStream", Some(ss));
            }
            Ev::Drive => {
                t.drive(200);
            }
            Ev::DriveBudget(b) => {
                t.sh.lock().unwrap().set_write_budget(t.role, Some(b));
                t.drive(200);
                t.sh.lock().unwrap().set_write_budget(t.role, None);
            }
            Ev::DriveBlocked => {
                t.sh.lock().unwrap().set_write_blocked(t.role, true);
                t.drive(200);
                t.sh.lock().unwrap().set_write_blocked(t.role, false);
            }
        }
        t.panics.extend(panics);
        t.catch_up();
        if let Some(pp) = w.pp.as_mut() {
            if w.user_ping_outstanding {
                let f = Flag::new(false);
                let wk = waker_of(&f);
                let mut cx = Context::from_waker(&wk);
                if let Poll::Ready(_) = pp.poll_pong(&mut cx) {
                    w.user_ping_outstanding = false;
                }
            }
        }
    }
    fn invariant(&self, t: &mut T2, w: &mut World) -> V3 {
        let mut v = vec![];
        t.catch_up();
        let (s_in, s_ack, pings, pongs) = ack_counts(t);
        if s_ack > s_in {
            v.push(("C14.settings-ack-without-settings".to_string(), "more-acks".into(), format!("{} SETTINGS acknowledgements written for {} SETTINGS frames received", s_ack, s_in)));
        }
        if pongs.len() > pings.len() || pongs[..] != pings[..pongs.len().min(pings.len())] {
            v.push(("C14.pong-sequence".into(), if pongs.len() > pings.len() { "more-pongs".into() } else { "order-or-payload".into() }, format!("PONG payloads written {:?} are not a prefix of the PING payloads received {:?}", pongs.iter().map(|p| hex(p)).collect::<Vec<_>>(), pings.iter().map(|p| hex(p)).collect::<Vec<_>>())));
        }
        w.acct.update(&t.mon);
        for s in w.acct.violations.drain(..) {
            v.push(("C14.window-after-ack".into(), "flow".into(), s));
        }
        for (k, what) in post_ack_obedience(t) {
            v.push((format!("C14.{}", k), "post-ack".into(), what));
        }
        // a promise cancelled because the peer disabled push must not leave traces on the wire either: nothing is ever sent on
        // a stream that was never announced (sender automaton of C04)
        w.life.update(&t.mon);
        for x in w.life.violations.drain(..) {
            v.push(("C14.stream-lifecycle".into(), x.chars().filter(|c| !c.is_ascii_digit()).take(60).collect(), x));
        }
        // an acknowledgement that answers nothing is a connection error
        v
    }
    fn epilogue(&self, t: &mut T2, w: &mut World) -> V3 {
        let mut v = vec![];
        t.drive(300);
        t.catch_up();
        v.extend(self.invariant(t, w));
        let (s_in, s_ack, pings, pongs) = ack_counts(t);
        if t.conn_alive() {
            if s_ack != s_in {
                v.push(("C14.settings-not-acknowledged".into(), "missing".into(), format!("at quiescence {} SETTINGS frames were received but {} acknowledgements written", s_in, s_ack)));
            }
            if pongs != pings {
                v.push(("C14.ping-not-acknowledged".into(), "missing".into(), format!("at quiescence PINGs {:?} were received but PONGs {:?} written", pings.iter().map(|p| hex(p)).collect::<Vec<_>>(), pongs.iter().map(|p| hex(p)).collect::<Vec<_>>())));
            }
            if w.stray_settings_ack_sent {
                v.push(("C14.stray-settings-ack-tolerated".into(), "alive".into(), "a SETTINGS acknowledgement that answered nothing did not end the connection".into()));
            }
        } else if w.stray_settings_ack_sent {
            if !matches!(t.goaway_sent(), Some((_, c)) if c != 0) {
                v.push(("C14.stray-settings-ack-tolerated".into(), "no-goaway".into(), format!("after a SETTINGS acknowledgement that answered nothing the connection ended with {:?} but no GOAWAY with an error code", t.conn_result)));
            }
        }
        // a local change is enforced only after the peer's ACK: DATA within the window the peer is still entitled to is
        // accepted (judged through the C03 peer view: the model's peer never exceeds it, so any flow-control error is wrong)
        let flow_err = t.subject_frames().iter().any(|f| matches!(&f.parsed, Ok(Parsed::RstStream { code: 3, .. }) | Ok(Parsed::GoAway { code: 3, .. })));
        let pv = crate::c03::peer_view(t);
        if flow_err && pv.vs(1) >= 0 && pv.v0() >= 0 {
            v.push(("C14.local-setting-enforced-early".into(), "flow-control-error".into(), format!("FLOW_CONTROL_ERROR although the peer stayed inside the windows it was entitled to (stream window as seen by the peer {}, acknowledged initial window {})", pv.vs(1), pv.acked_initial)));
        }
        v
    }
    fn digest_extra(&self, t: &T2, w: &World) -> String {
        let (s_in, s_ack, pings, pongs) = ack_counts(t);
        let pv = crate::c03::peer_view(t);
        format!(
            "owed_acks={} owed_pongs={:?} unacked={:?} user_ping={} stray={} windows={:?} responded={} pushes={} credit={}/{} pv={}/{} acked={:?}",
            s_in - s_ack.min(s_in),
            &pings[pongs.len().min(pings.len())..],
            t.mon.unacked_settings,
            w.user_ping_outstanding,
            w.stray_settings_ack_sent,
            w.local_windows.last(),
            w.responded,
            w.pushes * 10 + w.pushed.len(),
            w.acct.conn_credit,
            w.acct.stream_credit(1),
            pv.v0(),
            pv.vs(1),
            t.mon.acked
        )
    }
    fn teardown(&self, mut t: T2, w: World) -> Vec<String> {
        let mut panics = std::mem::take(&mut t.panics);
        safe_drop(&mut panics, "PingPong", w.pp);
        for ss in w.pushed {
            safe_drop(&mut panics, "SendStream", Some(ss));
        }
        t.panics = panics;
        t.finish()
    }
    fn counters(&self, t: &T2, _w: &World) -> Vec<(&'static str, u64)> {
        let (s_in, s_ack, pings, pongs) = ack_counts(t);
        vec![("settings_received", s_in as u64), ("settings_acks", s_ack as u64), ("pings", pings.len() as u64), ("pongs", pongs.len() as u64)]
    }
}

impl Ev {
    fn _n(&self) {}
}

/// X3: with the write buffer filled to every level around "full", two PINGs and a SETTINGS arrive: after the transport opens,
/// both PONGs (in order, right payloads) and the SETTINGS ACK are on the wire, each exactly once.
pub fn fill_sweep_one(vectored: bool, fill: usize, verbose: bool) -> Vec<(String, String, String)> {
    let mut v = vec![];
    let cfg = T2Cfg { role: Side::Server, peer_settings: vec![], client: None, server: Some(h2::server::Builder::new()), policy: IoPolicy { vectored, ..IoPolicy::default() } };
    let mut t = T2::new(&cfg, vec![]);
    let mut panics = vec![];
    t.peer_request(1, "/f", false);
    t.drive(100);
    t.peer_ack_settings();
    t.drive(100);
    t.catch_up();
    let acks_before = t.subject_frames().iter().filter(|f| matches!(&f.parsed, Ok(Parsed::Settings { ack: true, .. }))).count();
    fill_write_buffer(&mut t, 1, fill, vectored, &mut panics);
    t.peer_send(&wf::ping([0xa1; 8], false));
    t.peer_send(&wf::settings(&[(wf::setting::MAX_CONCURRENT_STREAMS, 9)]));
    t.peer_send(&wf::ping([0xb2; 8], false));
    t.drive(100);
    unblock_and_quiesce(&mut t);
    let pongs: Vec<[u8; 8]> = t.subject_frames().iter().filter_map(|f| if let Ok(Parsed::Ping { ack: true, payload }) = &f.parsed { Some(*payload) } else { None }).collect();
    let acks = t.subject_frames().iter().filter(|f| matches!(&f.parsed, Ok(Parsed::Settings { ack: true, .. }))).count() - acks_before;
    if t.conn_alive() {
        if pongs != vec![[0xa1; 8], [0xb2; 8]] {
            v.push(("C14.pong-sequence".to_string(), "fill-sweep".into(), format!("write buffer filled with {} octets (vectored {}): PINGs a1.. and b2.. were received, the PONGs written are {:?}", fill, vectored, pongs.iter().map(|p| format!("{:02x}", p[0])).collect::<Vec<_>>())));
        }
        if acks != 1 {
            v.push(("C14.settings-ack-count".into(), "fill-sweep".into(), format!("write buffer filled with {} octets (vectored {}): one SETTINGS frame was received, {} acknowledgements were written", fill, vectored, acks)));
        }
    }
    if verbose {
        println!("fill {} vectored {}: pongs {:?} settings acks {}", fill, vectored, pongs, acks);
    }
    t.panics.extend(panics);
    for p in t.finish() {
        v.push(("C14.panic".into(), "fill-sweep".into(), format!("fill {} vectored {}: panic {}", fill, vectored, p.lines().next().unwrap_or(""))));
    }
    v
}

/// HPACK dynamic table size update (RFC 7541 6.3): pattern 001, 5-bit prefix integer
fn size_update(n: usize) -> Vec<u8> {
    if n < 31 {
        return vec![0x20 | n as u8];
    }
    let mut v = vec![0x3f];
    let mut rest = n - 31;
    while rest >= 128 {
        v.push((rest % 128) as u8 | 0x80);
        rest /= 128;
    }
    v.push(rest as u8);
    v
}

/// X3: "locally changed settings are enforced against the peer only once the peer's acknowledgement has arrived", for the
/// one local setting that reaches the HPACK decoder: a server that advertises SETTINGS_HEADER_TABLE_SIZE = size receives a
/// request whose header block starts with a table size update u - before the peer has acknowledged the server's SETTINGS
/// (the default 4096 is still the bound) and after (size is the bound).
pub fn local_table_size_one(size: u32, u: usize, u2: Option<usize>, acked: bool, verbose: bool) -> Vec<(String, String, String)> {
    let mut v = vec![];
    let mut sb = h2::server::Builder::new();
    sb.header_table_size(size);
    let cfg = T2Cfg { role: Side::Server, peer_settings: vec![], client: None, server: Some(sb), policy: IoPolicy::default() };
    NO_HANDSHAKE_ACK.with(|c| c.set(!acked));
    let mut t = T2::new(&cfg, vec![]);
    NO_HANDSHAKE_ACK.with(|c| c.set(false));
    t.drive(100);
    if acked {
        t.peer_ack_settings();
        t.drive(100);
    }
    let mut block = size_update(u);
    if let Some(u2) = u2 {
        block.extend(size_update(u2));
    }
    block.extend(T2::block(&[(":method", "GET"), (":scheme", "http"), (":authority", "h.example"), (":path", "/t")]));
    t.peer_send(&wf::headers(1, &block, true, true));
    t.drive(100);
    t.catch_up();
    let bound = if acked { size as usize } else { 4096 };
    let accepted = t.accepted.iter().any(|a| a.sid == 1);
    let goaway = t.goaway_sent();
    let label = format!("advertised {} ({}), size update {}{}", size, if acked { "acknowledged by the peer" } else { "not yet acknowledged" }, u, u2.map(|x| format!(" then {}", x)).unwrap_or_default());
    if u.max(u2.unwrap_or(0)) <= bound {
        if !accepted || goaway.is_some() {
            v.push(("C14.local-table-size".to_string(), format!("legal-update-rejected:{}", if acked { "acked" } else { "unacked" }), format!("{}: the update is within the bound in force ({}), yet the request was not delivered (GOAWAY {:?}, connection {:?})", label, bound, goaway, t.conn_result)));
        }
    } else if acked && accepted && goaway.is_none() {
        v.push(("C14.local-table-size".into(), "oversized-update-accepted".into(), format!("{}: the update exceeds the acknowledged bound {} and was accepted", label, bound)));
    }
    if verbose {
        println!("{}: accepted {} goaway {:?}", label, accepted, goaway);
    }
    for p in t.finish() {
        v.push(("C14.panic".into(), "local-table-size".into(), format!("{}: panic {}", label, p.lines().next().unwrap_or(""))));
    }
    v
}

/// The same rule with the real *client* as the subject: it advertises SETTINGS_HEADER_TABLE_SIZE = size, the peer acknowledges,
/// and the response's header block starts with a table size update u.
pub fn local_table_size_client_one(size: u32, u: usize, u2: Option<usize>, acked: bool, verbose: bool) -> Vec<(String, String, String)> {
    use std::future::Future;
    let mut v = vec![];
    let mut cb = h2::client::Builder::new();
    cb.header_table_size(size);
    let cfg = T2Cfg { role: Side::Client, peer_settings: vec![], client: Some(cb), server: None, policy: IoPolicy::default() };
    NO_HANDSHAKE_ACK.with(|c| c.set(!acked));
    let mut t = T2::new(&cfg, vec![]);
    NO_HANDSHAKE_ACK.with(|c| c.set(false));
    t.drive(100);
    if acked {
        t.peer_ack_settings();
        t.drive(100);
    }
    let flag = Flag::new(false);
    let w = waker_of(&flag);
    let mut cx = Context::from_waker(&w);
    let mut panics = vec![];
    let sent = guarded(&mut panics, "send_request", || {
        let sr = t.send_request.as_mut()?;
        let _ = sr.poll_ready(&mut cx);
        sr.send_request(simple_request("/t", false), true).ok()
    })
    .flatten();
    let label = format!("client advertised {} ({}), size update {}{} at the start of the response", size, if acked { "acknowledged by the peer" } else { "not yet acknowledged" }, u, u2.map(|x| format!(" then {}", x)).unwrap_or_default());
    let Some((mut rf, _ss)) = sent else {
        v.push(("C14.local-table-size".to_string(), "client-request-not-sent".to_string(), format!("{}: the request could not be sent (connection {:?}, {:?})", label, t.conn_result, panics)));
        t.panics.extend(panics);
        for p in t.finish() {
            v.push(("C14.panic".into(), "local-table-size-client".into(), format!("{}: panic {}", label, p.lines().next().unwrap_or(""))));
        }
        return v;
    };
    t.drive(100);
    let mut block = size_update(u);
    if let Some(u2) = u2 {
        block.extend(size_update(u2));
    }
    block.extend(T2::block(&[(":status", "200")]));
    t.peer_send(&wf::headers(1, &block, true, true));
    t.drive(100);
    t.catch_up();
    let r = guarded(&mut panics, "poll response", || std::pin::Pin::new(&mut rf).poll(&mut cx));
    let delivered = matches!(&r, Some(Poll::Ready(Ok(resp))) if resp.status().as_u16() == 200);
    let goaway = t.goaway_sent();
    let bound = if acked { size as usize } else { 4096 };
    if u.max(u2.unwrap_or(0)) <= bound {
        if !delivered || goaway.is_some() {
            v.push(("C14.local-table-size".to_string(), format!("legal-update-rejected:client{}", if acked { "" } else { ":unacked" }), format!("{}: the update is within the bound in force ({}), yet the response was not delivered (GOAWAY {:?}, connection {:?})", label, bound, goaway, t.conn_result)));
        }
    } else if acked && delivered && goaway.is_none() {
        v.push(("C14.local-table-size".into(), "oversized-update-accepted:client".into(), format!("{}: the update exceeds the acknowledged bound {} and was accepted", label, bound)));
    }
    if verbose {
        println!("{}: delivered {} goaway {:?}", label, delivered, goaway);
    }
    safe_drop(&mut panics, "ResponseFuture", rf);
    t.panics.extend(panics);
    for p in t.finish() {
        v.push(("C14.panic".into(), "local-table-size-client".into(), format!("{}: panic {}", label, p.lines().next().unwrap_or(""))));
    }
    v
}

pub fn local_table_size_sweep(out: &mut Outcome, vios: &mut VioSet) {
    // (size, u, second update in the same block, acked, client subject)
    let mut jobs: Vec<(u32, usize, Option<usize>, bool, bool)> = vec![];
    for client in [false, true] {
        for size in [0u32, 100, 4096, 8192, 65_536] {
            for u in [0usize, 1, 30, 31, 100, 101, 4096, 4097, 8192, 8193, 65_536, 65_537] {
                jobs.push((size, u, None, true, client));
                // 'not before the acknowledgement': while the subject's SETTINGS are unacknowledged the default 4 096 is the
                // bound in force, so every update up to it must still be accepted (whatever smaller size was advertised)
                if u <= 4096 {
                    jobs.push((size, u, None, false, client));
                }
            }
            // two updates in a row (RFC 7541 4.2: the smallest size, then the final one): each of them is held against the bound
            let z = size as usize;
            for (a, b) in [(0, z), (z, 0), (z / 2, z), (0, z + 1), (z + 1, 0), (z + 1, z)] {
                jobs.push((size, a, Some(b), true, client));
            }
        }
    }
    let found = std::sync::Mutex::new(vec![]);
    par_for(jobs.len(), |i| {
        let (size, u, u2, acked, client) = jobs[i];
        let vs = if client { local_table_size_client_one(size, u, u2, acked, false) } else { local_table_size_one(size, u, u2, acked, false) };
        if !vs.is_empty() {
            found.lock().unwrap().push((jobs[i], vs));
        }
    });
    for ((size, u, u2, acked, client), vs) in found.into_inner().unwrap() {
        for (rule, sig, what) in vs {
            vios.add(Violation { rule, signature: sig, what, replay: json!({"harness": "c14.table", "size": size, "u": u, "u2": u2, "acked": acked, "client": client}) });
        }
    }
    out.harness("local-header-table-size sweep", json!({"cases": jobs.len(), "server_subject": jobs.len() / 2, "client_subject": jobs.len() / 2, "before_the_acknowledgement": jobs.iter().filter(|j| !j.3).count()}));
    out.add_count("evaluations", jobs.len() as u64);
    out.add_count("traces_validated_against_impl", jobs.len() as u64);
}

pub fn fill_sweep(out: &mut Outcome, vios: &mut VioSet, quick: bool) {
    let jobs = fill_levels(quick);
    let found = std::sync::Mutex::new(vec![]);
    par_for(jobs.len(), |i| {
        let vs = fill_sweep_one(jobs[i].0, jobs[i].1, false);
        if !vs.is_empty() {
            found.lock().unwrap().push((jobs[i], vs));
        }
    });
    for ((vectored, fill), vs) in found.into_inner().unwrap() {
        for (rule, sig, what) in vs {
            vios.add(Violation { rule, signature: sig, what, replay: json!({"harness": "c14.fill", "vectored": vectored, "fill": fill}) });
        }
    }
    out.harness("write-buffer-fill-sweep", json!({"cases": jobs.len()}));
    out.add_count("evaluations", jobs.len() as u64);
    out.add_count("traces_validated_against_impl", jobs.len() as u64);
}

pub fn run(ctx: &Ctx) -> Outcome {
    let mut out = Outcome::default();
    let quick = ctx.tier.is_quick();
    let m = AckModel::new(if quick { "acks-q" } else { "acks-t" }, quick);
    // peer data within the model never exceeds 50 octets per event and 3 events fit any window >= 7? no: PeerData is
    // enabled only while the peer view allows it
    let rep = search(ctx, &m, "C14", if quick { 5 } else { 11 }, ctx.tier.budget_s(), true);
    fill_outcome(&mut out, &[(m.name, &rep)]);
    out.set("exhaustive", json!(false));
    out.set("alphabet", json!((0..m.n_events()).map(|e| m.event_name(e)).collect::<Vec<_>>()));
    out.set("rule", json!("X2 on T2 (real server, one open stream): peer SETTINGS from a 9-entry menu (empty, table size 0 / 8192, window 7 / 70000, frame size 16385 / 20000, push off, header list size + unknown id) up to 4 in a row, PINGs with 4 payloads (incl. the payloads h2 itself uses for shutdown and user pings) up to 3, stray SETTINGS ACK, stray PING ACK, peer ACK timing, DATA, WINDOW_UPDATE; application user ping, set_initial_window_size down / up, response with a 40 KB body; connection polls with open, budgeted (1 / 9 / 17 octets) and blocked writes. Invariants in every state: SETTINGS acks written <= SETTINGS received, PONG payloads a prefix of PING payloads, every frame written after an ACK obeys the acknowledged MAX_FRAME_SIZE / windows (wire accountant) / ENABLE_PUSH, the first header block after a lowered HEADER_TABLE_SIZE starts with the size update (reference decoder, strict). Epilogue: at quiescence the counts are equal, a stray SETTINGS ACK has ended the connection with GOAWAY, no FLOW_CONTROL_ERROR while the peer stayed inside the window it was entitled to before its ACK"));
    out.add_sample(json!({"harness": format!("x2.{}", m.name), "depth": 3, "choices": [4, 20, 17]}));
    let mut vs = VioSet::default();
    vs.merge(rep.agg.vios);
    fill_sweep(&mut out, &mut vs, ctx.tier.is_quick());
    local_table_size_sweep(&mut out, &mut vs);
    out.violations = vs.into_vec();
    out.guard_nonzero("settings acks", out.coverage.get("mechanism_counters").and_then(|m| m.get("settings_acks")).and_then(|v| v.as_u64()).unwrap_or(0));
    out.guard_nonzero("pongs", out.coverage.get("mechanism_counters").and_then(|m| m.get("pongs")).and_then(|v| v.as_u64()).unwrap_or(0));
    out
}

pub fn replay(v: &serde_json::Value) -> Option<bool> {
    let h = v["harness"].as_str().unwrap_or("");
    if h == "c14.table" {
        let (size, u) = (v["size"].as_u64().unwrap_or(0) as u32, v["u"].as_u64().unwrap_or(0) as usize);
        let u2 = v["u2"].as_u64().map(|x| x as usize);
        let acked = v["acked"].as_bool().unwrap_or(true);
        let vs = if v["client"].as_bool().unwrap_or(false) { local_table_size_client_one(size, u, u2, acked, true) } else { local_table_size_one(size, u, u2, acked, true) };
        for (r, _, w) in &vs {
            println!("RULE VIOLATED: {} {}", r, w);
        }
        return Some(!vs.is_empty());
    }
    if h == "c14.fill" {
        let vs = fill_sweep_one(v["vectored"].as_bool().unwrap_or(false), v["fill"].as_u64().unwrap_or(0) as usize, true);
        for (r, _, w) in &vs {
            println!("RULE VIOLATED: {} {}", r, w);
        }
        return Some(!vs.is_empty());
    }
    for quick in [true, false] {
        let m = AckModel::new(if quick { "acks-q" } else { "acks-t" }, quick);
        if h == format!("x2.{}", m.name) {
            return Some(replay_model(&m, "C14", v));
        }
    }
    None
}
