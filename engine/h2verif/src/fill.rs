//! Write-buffer fill sweeps for owed control frames that are not covered in c03 / c05 / c14: resets (C17) and GOAWAY (C15).
//! The write buffer is filled, octet by octet, to every level around the point where the codec stops accepting frames; the
//! frames that become due at that moment must all be on the wire once the transport opens, each exactly once.

use crate::common::*;
use crate::sim::*;
use crate::t2::*;
use h2::server;
use h2wire::frame::{self as wf, Parsed};
use serde_json::json;

fn server_t2(vectored: bool) -> T2 {
    let cfg = T2Cfg { role: Side::Server, peer_settings: vec![], client: None, server: Some(server::Builder::new()), policy: IoPolicy { vectored, ..IoPolicy::default() } };
    T2::new(&cfg, vec![])
}

/// C17: an application reset, a drop of all handles and a library reset become due while the buffer is that full
pub fn c17_one(vectored: bool, fill: usize, verbose: bool) -> Vec<(String, String, String)> {
    let mut v = vec![];
    let mut t = server_t2(vectored);
    let mut panics = vec![];
    t.peer_request(1, "/f", false);
    t.peer_request(3, "/a", false);
    t.peer_request(5, "/b", false);
    let cl = T2::block(&[(":method", "POST"), (":scheme", "http"), (":authority", "h.example"), (":path", "/c"), ("content-length", "1")]);
    t.peer_send(&wf::headers(7, &cl, false, true));
    t.drive(100);
    t.peer_ack_settings();
    t.drive(100);
    fill_write_buffer(&mut t, 1, fill, vectored, &mut panics);
    if let Some(a) = t.accepted.iter_mut().find(|a| a.sid == 3) {
        if let Some(mut r) = a.respond.take() {
            guarded(&mut panics, "send_reset", || r.send_reset(h2::Reason::from(0xbeef)));
        }
    }
    if let Some(a) = t.accepted.iter_mut().find(|a| a.sid == 5) {
        let (b, r, s) = (a.body.take(), a.respond.take(), a.send.take());
        safe_drop(&mut panics, "RecvStream", b);
        safe_drop(&mut panics, "SendResponse", r);
        safe_drop(&mut panics, "SendStream", s);
    }
    // two octets against content-length 1: a stream error the library answers itself
    t.peer_send(&wf::data(7, b"xy", true));
    t.conn_flag.wake_by_ref_pub();
    t.drive(100);
    unblock_and_quiesce(&mut t);
    if t.conn_alive() && t.goaway_sent().is_none() {
        let want: [(u32, Option<u32>); 3] = [(3, Some(0xbeef)), (5, Some(8)), (7, None)];
        for (sid, code) in want {
            let got = t.rst_sent(sid);
            let ok = got.len() == 1 && code.map(|c| got[0] == c).unwrap_or(got[0] != 0);
            if !ok {
                v.push(("C17.rst-missing".to_string(), "fill-sweep".into(), format!("write buffer filled with {} octets (vectored {}): stream {} was {} - RST_STREAM codes on the wire {:?}, expected exactly one{}", fill, vectored, sid, match sid { 3 => "reset by the application", 5 => "abandoned (all handles dropped)", _ => "hit by a stream error" }, got, code.map(|c| format!(" with code {}", c)).unwrap_or_default())));
            }
        }
    }
    if verbose {
        println!("fill {} vectored {}: RST(3) {:?} RST(5) {:?} RST(7) {:?} goaway {:?}", fill, vectored, t.rst_sent(3), t.rst_sent(5), t.rst_sent(7), t.goaway_sent());
    }
    t.panics.extend(panics);
    for p in t.finish() {
        v.push(("C17.panic".into(), "fill-sweep".into(), format!("fill {} vectored {}: panic {}", fill, vectored, p.lines().next().unwrap_or(""))));
    }
    v
}

/// C15: graceful (mode 0) or abrupt (mode 1) shutdown is requested while the buffer is that full
pub fn c15_one(vectored: bool, fill: usize, mode: u8, verbose: bool) -> Vec<(String, String, String)> {
    let mut v = vec![];
    let mut t = server_t2(vectored);
    let mut panics = vec![];
    t.peer_request(1, "/f", false);
    t.drive(100);
    t.peer_ack_settings();
    t.drive(100);
    fill_write_buffer(&mut t, 1, fill, vectored, &mut panics);
    if let Conn::Server(c) = &mut t.conn {
        if mode == 0 {
            guarded(&mut panics, "graceful_shutdown", || c.graceful_shutdown());
        } else {
            guarded(&mut panics, "abrupt_shutdown", || c.abrupt_shutdown(h2::Reason::from(0xabc)));
        }
    }
    t.conn_flag.wake_by_ref_pub();
    t.drive(100);
    unblock_and_quiesce(&mut t);
    let goaways: Vec<(u32, u32)> = t.subject_frames().iter().filter_map(|f| if let Ok(Parsed::GoAway { last, code, .. }) = &f.parsed { Some((*last, *code)) } else { None }).collect();
    if mode == 0 {
        let pings: Vec<[u8; 8]> = t.subject_frames().iter().filter_map(|f| if let Ok(Parsed::Ping { ack: false, payload }) = &f.parsed { Some(*payload) } else { None }).collect();
        if goaways.first() != Some(&(0x7fff_ffff, 0)) || pings.len() != 1 {
            v.push(("C15.graceful-sequence".to_string(), "fill-sweep".into(), format!("write buffer filled with {} octets (vectored {}): graceful_shutdown was requested; after the transport opened GOAWAY frames {:?} and {} PING(s) are on the wire", fill, vectored, goaways, pings.len())));
        } else {
            t.peer_send(&wf::ping(pings[0], true));
            t.drive(200);
            t.catch_up();
            let goaways: Vec<(u32, u32)> = t.subject_frames().iter().filter_map(|f| if let Ok(Parsed::GoAway { last, code, .. }) = &f.parsed { Some((*last, *code)) } else { None }).collect();
            if goaways != vec![(0x7fff_ffff, 0), (1, 0)] {
                v.push(("C15.graceful-sequence".into(), "fill-sweep-second".into(), format!("write buffer filled with {} octets (vectored {}): after the PING acknowledgement the GOAWAY frames are {:?}", fill, vectored, goaways)));
            }
        }
    } else if !goaways.iter().any(|g| g.1 == 0xabc) {
        v.push(("C15.abrupt-shutdown-code".into(), "fill-sweep".into(), format!("write buffer filled with {} octets (vectored {}): abrupt_shutdown(0xabc) was requested; GOAWAY frames on the wire: {:?} (connection {:?})", fill, vectored, goaways, t.conn_result)));
    }
    if verbose {
        println!("fill {} vectored {} mode {}: goaways {:?} conn {:?}", fill, vectored, mode, goaways, t.conn_result);
    }
    t.panics.extend(panics);
    for p in t.finish() {
        v.push(("C15.panic".into(), "fill-sweep".into(), format!("fill {} vectored {}: panic {}", fill, vectored, p.lines().next().unwrap_or(""))));
    }
    v
}

/// C19: the idle close of a client becomes due while its write buffer is that full: a request body fills the codec against a
/// blocked transport, the peer answers early and resets the stream with NO_ERROR, the application lets go of everything
/// (also the SendRequest); once the transport opens GOAWAY(NO_ERROR) must appear and the connection complete successfully.
pub fn c19_one(vectored: bool, fill: usize, verbose: bool) -> Vec<(String, String, String)> {
    let mut v = vec![];
    let cfg = T2Cfg { role: Side::Client, peer_settings: vec![], client: Some(h2::client::Builder::new()), server: None, policy: IoPolicy { vectored, ..IoPolicy::default() } };
    let mut t = T2::new(&cfg, vec![]);
    let mut panics = vec![];
    let mut sr = t.send_request.take().unwrap();
    let flag = Flag::new(false);
    let wk = waker_of(&flag);
    let mut cx = std::task::Context::from_waker(&wk);
    let _ = sr.poll_ready(&mut cx);
    let (rf, mut ss) = sr.send_request(simple_request("/f", true), false).expect("send_request");
    let sid = rf.stream_id().as_u32();
    t.drive(100);
    t.peer_ack_settings();
    t.drive(100);
    t.sh.lock().unwrap().set_write_blocked(t.role, true);
    let chunk = if vectored { 250 } else { 1000 };
    let mut left = fill;
    while left > 9 {
        let take = left.min(chunk + 9);
        let _ = guarded(&mut panics, "send_data", || ss.send_data(bytes::Bytes::from(vec![0x55u8; take - 9]), false));
        left -= take;
    }
    t.drive(100);
    // early response, then "stop sending" (RFC 9113 8.1)
    t.peer_response(sid, "200", true);
    t.peer_send(&wf::rst_stream(sid, 0));
    t.drive(100);
    safe_drop(&mut panics, "ResponseFuture", Some(rf));
    safe_drop(&mut panics, "SendStream", Some(ss));
    safe_drop(&mut panics, "SendRequest", Some(sr));
    let woken = t.conn_flag.is_set();
    // (whether the connection task is woken here is judged by the X2 models; this sweep is about the GOAWAY that becomes due
    // while the codec is full, so the task is polled in any case)
    t.conn_flag.wake_by_ref_pub();
    t.drive(100);
    if verbose {
        println!("connection task woken by the drops: {}", woken);
        if let Conn::Client(c) = &t.conn {
            let s = c.verif_snapshot();
            println!("before the transport opens: refs={} counts={} streams={:?}", s.refs, s.counts, s.streams.iter().map(|x| x.chars().take(200).collect::<String>()).collect::<Vec<_>>());
        }
    }
    unblock_and_quiesce(&mut t);
    let goaways: Vec<(u32, u32)> = t.subject_frames().iter().filter_map(|f| if let Ok(Parsed::GoAway { last, code, .. }) = &f.parsed { Some((*last, *code)) } else { None }).collect();
    if !goaways.iter().any(|g| g.1 == 0) {
        v.push(("C19.idle-close".to_string(), "fill-sweep-no-goaway".into(), format!("write buffer filled with {} octets (vectored {}): the last stream and the last handle went while the transport was blocked; after it opened no GOAWAY(NO_ERROR) is on the wire: {:?} (connection {:?})", fill, vectored, goaways, t.conn_result)));
    }
    if t.conn_result.as_deref() != Some("ok") {
        v.push(("C19.idle-close".into(), "fill-sweep-not-closed".into(), format!("write buffer filled with {} octets (vectored {}): the idle client connection did not complete successfully: {:?}", fill, vectored, t.conn_result)));
    }
    if verbose {
        println!("fill {} vectored {}: goaways {:?} conn {:?}", fill, vectored, goaways, t.conn_result);
        println!("{}", t.mon.transcript());
    }
    t.panics.extend(panics);
    for p in t.finish() {
        v.push(("C19.panic".into(), "fill-sweep".into(), format!("fill {} vectored {}: panic {}", fill, vectored, p.lines().next().unwrap_or(""))));
    }
    v
}

pub fn sweep(out: &mut Outcome, vios: &mut VioSet, quick: bool, prop: &str) {
    let levels = fill_levels(quick);
    let jobs: Vec<(bool, usize, u8)> = if prop == "C17" || prop == "C19" { levels.iter().map(|(v, f)| (*v, *f, 0)).collect() } else { levels.iter().flat_map(|(v, f)| [(*v, *f, 0u8), (*v, *f, 1u8)]).collect() };
    let found = std::sync::Mutex::new(vec![]);
    par_for(jobs.len(), |i| {
        let (vec_io, fill, mode) = jobs[i];
        let vs = if prop == "C17" {
            c17_one(vec_io, fill, false)
        } else if prop == "C19" {
            c19_one(vec_io, fill, false)
        } else {
            c15_one(vec_io, fill, mode, false)
        };
        if !vs.is_empty() {
            found.lock().unwrap().push((jobs[i], vs));
        }
    });
    for ((vectored, fill, mode), vs) in found.into_inner().unwrap() {
        for (rule, sig, what) in vs {
            vios.add(Violation { rule, signature: sig, what, replay: json!({"harness": format!("{}.fill", prop.to_lowercase()), "vectored": vectored, "fill": fill, "mode": mode}) });
        }
    }
    out.harness("write-buffer-fill-sweep", json!({"cases": jobs.len()}));
    out.add_count("evaluations", jobs.len() as u64);
    out.add_count("traces_validated_against_impl", jobs.len() as u64);
}

pub fn replay(v: &serde_json::Value) -> Option<bool> {
    let h = v["harness"].as_str().unwrap_or("");
    let (vec_io, fill, mode) = (v["vectored"].as_bool().unwrap_or(false), v["fill"].as_u64().unwrap_or(0) as usize, v["mode"].as_u64().unwrap_or(0) as u8);
    let vs = match h {
        "c17.fill" => c17_one(vec_io, fill, true),
        "c15.fill" => c15_one(vec_io, fill, mode, true),
        "c19.fill" => c19_one(vec_io, fill, true),
        _ => return None,
    };
    for (r, _, w) in &vs {
        println!("RULE VIOLATED: {} {}", r, w);
    }
    Some(!vs.is_empty())
}
