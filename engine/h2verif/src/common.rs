//! Shared plumbing: tiers, violations, known findings, evidence files, hashing.

use serde_json::{json, Map, Value};
use std::collections::BTreeMap;
use std::time::Instant;

pub const VERIF_ROOT: &str = "/verif";

/// panics that escaped a harness work item (see `par_for`)
pub static ESCAPED: std::sync::Mutex<Vec<String>> = std::sync::Mutex::new(Vec::new());

#[derive(Clone, Copy, Debug, PartialEq, Eq)]
pub enum Tier {
    Quick,
    Thorough,
}

impl Tier {
    pub fn name(self) -> &'static str {
        match self {
            Tier::Quick => "quick",
            Tier::Thorough => "thorough",
        }
    }
    pub fn is_quick(self) -> bool {
        self == Tier::Quick
    }
    /// wall-clock budget in seconds for the exploration part of one check
    pub fn budget_s(self) -> f64 {
        let scale: f64 = std::env::var("VERIF_BUDGET_SCALE").ok().and_then(|s| s.parse().ok()).unwrap_or(1.0);
        scale
            * match self {
                Tier::Quick => 40.0,
                Tier::Thorough => 1500.0,
            }
    }
}

/// run `body` with the tier budget scaled by `f` (relative to the scale in force)
pub fn with_budget_scale<T>(f: f64, body: impl FnOnce() -> T) -> T {
    let outer: Option<f64> = std::env::var("VERIF_BUDGET_SCALE").ok().and_then(|s| s.parse().ok());
    std::env::set_var("VERIF_BUDGET_SCALE", format!("{}", f * outer.unwrap_or(1.0)));
    let r = body();
    match outer {
        Some(x) => std::env::set_var("VERIF_BUDGET_SCALE", format!("{}", x)),
        None => std::env::remove_var("VERIF_BUDGET_SCALE"),
    }
    r
}

pub struct Ctx {
    pub prop: String,
    pub tier: Tier,
    pub seed: u64,
    pub start: Instant,
}

/// The quick tier is bounded by WORK (explicit depths, execution caps per deviation level), so that what it covers does not
/// depend on how fast the machine happens to be; this wall-clock cap is only a safety net.
pub const QUICK_HARD_CAP_S: f64 = 150.0;

impl Ctx {
    /// seconds after which a quick run gives up whatever it is doing (see QUICK_HARD_CAP_S); the tier budget otherwise
    pub fn hard_cap_s(&self) -> f64 {
        if self.tier.is_quick() {
            QUICK_HARD_CAP_S * std::env::var("VERIF_BUDGET_SCALE").ok().and_then(|s| s.parse::<f64>().ok()).unwrap_or(1.0).max(1.0)
        } else {
            self.tier.budget_s()
        }
    }
    pub fn elapsed(&self) -> f64 {
        self.start.elapsed().as_secs_f64()
    }
    /// time left before the run gives up: in the quick tier that is the safety net, not the tier budget (quick runs are
    /// bounded by work)
    pub fn remaining(&self) -> f64 {
        self.hard_cap_s() - self.elapsed()
    }
    pub fn over_budget(&self) -> bool {
        self.remaining() <= 0.0
    }
}

#[derive(Clone, Debug)]
pub struct Violation {
    /// oracle rule id, e.g. "C11.split-invariance"
    pub rule: String,
    /// rule-specific normal form of the failing case (used to match known findings)
    pub signature: String,
    /// human-readable description
    pub what: String,
    /// harness-specific replay description: {"harness": "...", "case": ...}
    pub replay: Value,
}

#[derive(Default)]
pub struct Outcome {
    pub violations: Vec<Violation>,
    pub coverage: Map<String, Value>,
    pub assumptions: Vec<String>,
    /// a vacuity guard or self-check failed: machinery error (exit 2)
    pub machinery_errors: Vec<String>,
}

impl Outcome {
    pub fn set(&mut self, k: &str, v: Value) {
        self.coverage.insert(k.to_string(), v);
    }
    pub fn add_count(&mut self, k: &str, n: u64) {
        let cur = self.coverage.get(k).and_then(|v| v.as_u64()).unwrap_or(0);
        self.coverage.insert(k.to_string(), json!(cur + n));
    }
    pub fn get_count(&self, k: &str) -> u64 {
        self.coverage.get(k).and_then(|v| v.as_u64()).unwrap_or(0)
    }
    pub fn assume(&mut self, s: &str) {
        if !self.assumptions.iter().any(|a| a == s) {
            self.assumptions.push(s.to_string());
        }
    }
    pub fn add_sample(&mut self, v: Value) {
        let e = self.coverage.entry("samples".to_string()).or_insert_with(|| json!([]));
        if let Some(a) = e.as_array_mut() {
            if a.len() < 6 {
                a.push(v);
            }
        }
    }
    /// record a per-harness block of counts under coverage.harnesses.<name>
    pub fn harness(&mut self, name: &str, v: Value) {
        let e = self.coverage.entry("harnesses".to_string()).or_insert_with(|| json!({}));
        e.as_object_mut().unwrap().insert(name.to_string(), v);
    }
    /// fold another outcome (a second engine run for the same property) into this one
    pub fn absorb(&mut self, o: Outcome) {
        for k in ["evaluations", "states", "transitions", "traces_validated_against_impl", "distinct_nontrivial"] {
            let n = o.coverage.get(k).and_then(|v| v.as_u64()).unwrap_or(0);
            self.add_count(k, n);
        }
        if let Some(h) = o.coverage.get("harnesses").and_then(|v| v.as_object()) {
            for (k, v) in h {
                self.harness(k, v.clone());
            }
        }
        if let Some(s) = o.coverage.get("samples").and_then(|v| v.as_array()) {
            for x in s {
                self.add_sample(x.clone());
            }
        }
        if let Some(Value::Bool(false)) = o.coverage.get("exhaustive") {
            self.set("exhaustive", json!(false));
        }
        for (k, v) in o.coverage {
            if !self.coverage.contains_key(&k) {
                self.coverage.insert(k, v);
            }
        }
        self.violations.extend(o.violations);
        for a in o.assumptions {
            self.assume(&a);
        }
        self.machinery_errors.extend(o.machinery_errors);
    }
    pub fn guard_nonzero(&mut self, what: &str, n: u64) {
        if n == 0 {
            self.machinery_errors.push(format!("vacuity guard: {} == 0", what));
        }
    }
}

/// Collects violations de-duplicated by (rule, signature); thread-safe wrapper is a Mutex around it.
#[derive(Default)]
pub struct VioSet {
    pub map: BTreeMap<(String, String), Violation>,
    pub total: u64,
}

impl VioSet {
    pub fn add(&mut self, v: Violation) {
        self.total += 1;
        let k = (v.rule.clone(), v.signature.clone());
        if self.map.len() < 50 || self.map.contains_key(&k) {
            // keep the smallest replay per signature (shortest JSON text): easiest to read
            match self.map.get(&k) {
                Some(old) if old.replay.to_string().len() <= v.replay.to_string().len() => {}
                _ => {
                    self.map.insert(k, v);
                }
            }
        }
    }
    pub fn merge(&mut self, o: VioSet) {
        for (_, v) in o.map {
            self.add(v);
        }
    }
    pub fn into_vec(self) -> Vec<Violation> {
        self.map.into_values().collect()
    }
}

pub fn fnv64(data: &[u8]) -> u64 {
    let mut h: u64 = 0xcbf29ce484222325;
    for &b in data {
        h ^= b as u64;
        h = h.wrapping_mul(0x100000001b3);
    }
    h
}

pub fn hex(b: &[u8]) -> String {
    let mut s = String::with_capacity(b.len() * 2);
    for x in b {
        s.push_str(&format!("{:02x}", x));
    }
    s
}

pub fn unhex(s: &str) -> Vec<u8> {
    let s: Vec<u8> = s.bytes().filter(|c| !c.is_ascii_whitespace()).collect();
    (0..s.len() / 2).map(|i| u8::from_str_radix(std::str::from_utf8(&s[2 * i..2 * i + 2]).unwrap(), 16).unwrap()).collect()
}

#[derive(Clone, Debug)]
pub struct KnownFinding {
    pub property: String,
    pub rule: String,
    pub signature: String,
    pub status: String,
    pub what: String,
}

pub fn load_known_findings() -> Vec<KnownFinding> {
    let p = format!("{}/known_findings.json", VERIF_ROOT);
    let txt = match std::fs::read_to_string(&p) {
        Ok(t) => t,
        Err(_) => return vec![],
    };
    let v: Value = serde_json::from_str(&txt).expect("known_findings.json is not valid JSON");
    let mut out = vec![];
    for e in v["findings"].as_array().cloned().unwrap_or_default() {
        out.push(KnownFinding {
            property: e["property"].as_str().unwrap_or("").to_string(),
            rule: e["rule"].as_str().unwrap_or("").to_string(),
            signature: e["signature"].as_str().unwrap_or("").to_string(),
            status: e["status"].as_str().unwrap_or("").to_string(),
            what: e["what"].as_str().unwrap_or("").to_string(),
        });
    }
    out
}

/// Finish a check: print verdict lines, write replay files and the evidence file. Returns the exit code.
pub fn finish(ctx: &Ctx, mut out: Outcome) -> i32 {
    let known = load_known_findings();
    {
        let esc = ESCAPED.lock().unwrap();
        let mut seen = std::collections::BTreeSet::new();
        for e in esc.iter() {
            let sig: String = e.splitn(2, ": ").nth(1).unwrap_or(e).chars().take(80).collect();
            if seen.insert(sig.clone()) && seen.len() <= 5 {
                out.violations.push(Violation { rule: format!("{}.panic", ctx.prop), signature: format!("escaped:{}", sig), what: format!("a panic escaped the harness ({} such work items): {}", esc.len(), e), replay: json!({"harness": "escaped", "message": e}) });
            }
        }
    }
    // lock-order monitor (hook H4), whole run, all threads (the second thread of C20 included): any acquisition out of rank
    // order that no single execution has already reported
    {
        use std::sync::atomic::Ordering;
        let inv = h2::verif::lock_order::INVERSIONS.load(Ordering::Relaxed);
        let acq = h2::verif::lock_order::ACQUISITIONS.load(Ordering::Relaxed);
        out.set("lock_order_monitor", json!({"acquisitions_of_h2_mutexes": acq, "out_of_order": inv}));
        if inv > 0 && !out.violations.iter().any(|v| v.rule.ends_with(".lock-order")) {
            out.violations.push(Violation { rule: format!("{}.lock-order", ctx.prop), signature: "inversion".into(), what: format!("{} of {} acquisitions of h2's internal mutexes were out of order (stream state before send buffer, neither twice) during this run: two threads doing this can deadlock", inv, acq), replay: json!({"harness": "lock-order", "note": "counted over the whole run; re-run the check to reproduce"}) });
        }
    }
    let mut new_violations = 0;
    let mut known_hits: BTreeMap<String, String> = BTreeMap::new();
    // VERIF_OUT_DIR (used only by tools/seedlab.sh, which tests seeded changes in a scratch copy): where replays and evidence go
    let out_root = std::env::var("VERIF_OUT_DIR").unwrap_or_else(|_| VERIF_ROOT.to_string());
    let _ = std::fs::create_dir_all(format!("{}/replays", out_root));
    let mut vio_summaries = vec![];
    for v in &out.violations {
        let hit = known.iter().find(|k| k.property == ctx.prop && k.status == "open" && k.rule == v.rule && k.signature == v.signature);
        if let Some(k) = hit {
            known_hits.entry(format!("{}|{}", k.rule, k.signature)).or_insert_with(|| k.what.clone());
            vio_summaries.push(json!({"rule": v.rule, "signature": v.signature, "known": true}));
            continue;
        }
        new_violations += 1;
        let mut rep = v.replay.clone();
        if let Some(o) = rep.as_object_mut() {
            o.insert("property".into(), json!(ctx.prop));
            o.insert("rule".into(), json!(v.rule));
            o.insert("signature".into(), json!(v.signature));
            o.insert("what".into(), json!(v.what));
        }
        let txt = serde_json::to_string_pretty(&rep).unwrap();
        let h = fnv64(format!("{}|{}", v.rule, v.signature).as_bytes());
        let path = format!("{}/replays/{}-{:016x}.json", out_root, ctx.prop, h);
        let _ = std::fs::write(&path, txt);
        println!("  rule={} signature={} :: {}", v.rule, v.signature, v.what);
        println!("VIOLATION property={} replay={}", ctx.prop, path);
        vio_summaries.push(json!({"rule": v.rule, "signature": v.signature, "known": false, "replay": path}));
    }
    for (k, what) in &known_hits {
        println!("KNOWN-FINDING: property={} {} [{}]", ctx.prop, what, k);
    }
    let wall = ctx.elapsed();
    let mut cov = std::mem::take(&mut out.coverage);
    if !cov.contains_key("samples") {
        cov.insert("samples".into(), json!([]));
    }
    cov.insert("violation_list".into(), json!(vio_summaries));
    cov.insert("known_findings_seen".into(), json!(known_hits.len()));
    let machinery = !out.machinery_errors.is_empty();
    if machinery {
        cov.insert("machinery_errors".into(), json!(out.machinery_errors));
    }
    let ev = json!({
        "property_id": ctx.prop,
        "tier": ctx.tier.name(),
        "seed": ctx.seed,
        "level": "model_checking",
        "coverage": Value::Object(cov.clone()),
        "assumptions": out.assumptions,
        "wall_s": (wall * 1000.0).round() / 1000.0,
        "violations": new_violations,
    });
    let _ = std::fs::create_dir_all(format!("{}/evidence", out_root));
    let evp = format!("{}/evidence/{}.json", out_root, ctx.prop);
    std::fs::write(&evp, serde_json::to_string_pretty(&ev).unwrap()).expect("cannot write evidence");
    let brief: Vec<String> = ["evaluations", "states", "transitions", "traces_validated_against_impl", "distinct_nontrivial", "exhaustive"]
        .iter()
        .filter_map(|k| cov.get(*k).map(|v| format!("{}={}", k, v)))
        .collect();
    println!("[{}] tier={} wall={:.1}s {} new_violations={} known={}", ctx.prop, ctx.tier.name(), wall, brief.join(" "), new_violations, known_hits.len());
    if machinery {
        for m in &out.machinery_errors {
            eprintln!("MACHINERY-ERROR: {}", m);
        }
        return 2;
    }
    if new_violations > 0 {
        1
    } else {
        0
    }
}

/// Run `f` on `n` work items spread over all cores; items are claimed from an atomic counter.
pub fn par_for<F: Fn(usize) + Sync>(n: usize, f: F) {
    use std::sync::atomic::{AtomicUsize, Ordering};
    let next = AtomicUsize::new(0);
    let threads = std::thread::available_parallelism().map(|n| n.get()).unwrap_or(4).min(n.max(1));
    std::thread::scope(|s| {
        for _ in 0..threads {
            s.spawn(|| loop {
                let i = next.fetch_add(1, Ordering::Relaxed);
                if i >= n {
                    break;
                }
                // a panic that escapes a work item (an unguarded call into an h2 object whose lock an earlier, recorded panic
                // has poisoned; an oracle bug) must not take the whole check down: it is collected and reported by `finish`
                if let Err(p) = std::panic::catch_unwind(std::panic::AssertUnwindSafe(|| f(i))) {
                    let msg = if let Some(s) = p.downcast_ref::<&str>() { s.to_string() } else if let Some(s) = p.downcast_ref::<String>() { s.clone() } else { "panic".into() };
                    ESCAPED.lock().unwrap().push(format!("work item {}: {}", i, msg.lines().next().unwrap_or("")));
                }
            });
        }
    });
}
