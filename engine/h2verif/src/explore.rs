//! Stateless re-execution explorer. An execution is identified by its choice list; to extend it the harness
//! re-runs the real code from the initial state, replaying the prefix and taking the default (0) afterwards.
//!
//! * deviation bounding (X1): every non-default answer at a non-free choice point costs one deviation; levels
//!   0, 1, 2, ... are enumerated completely, one after the other, and only completed levels are claimed;
//! * explicit-state search (X2): "free" choice points (which event of the alphabet comes next) cost nothing; the
//!   harness bounds their number (depth) and may prune an execution whose state digest was already expanded with
//!   at least as much remaining depth (`Seen`).

use crate::common::*;
use crate::sim::Pt;
use std::collections::{BTreeMap, HashMap, HashSet};
use std::sync::atomic::{AtomicBool, AtomicU64, Ordering};
use std::sync::{Arc, Mutex};
use std::time::Instant;

pub struct ExecResult {
    pub trace: Vec<Pt>,
    pub violations: Vec<Violation>,
    pub obs_hash: u64,
    /// mechanism counters measured in this execution
    pub counters: Vec<(&'static str, u64)>,
    pub diverged: Option<String>,
    /// events executed on the real implementation (polls, operations, injected frames)
    pub transitions: u64,
    /// "non-trivial": the property's mechanisms were exercised in this execution
    pub nontrivial: bool,
}

pub trait Harness: Sync {
    fn run(&self, prefix: &[u32], seen: &Seen) -> ExecResult;
}

/// Concurrent set of expanded state digests with the remaining depth they were expanded with.
pub struct Seen {
    shards: Vec<Mutex<HashMap<u64, u8>>>,
    pub enabled: bool,
    pub hits: AtomicU64,
}

impl Seen {
    pub fn new(enabled: bool) -> Seen {
        Seen { shards: (0..256).map(|_| Mutex::new(HashMap::new())).collect(), enabled, hits: AtomicU64::new(0) }
    }
    /// Returns true if this state was already expanded with >= `remaining` depth (caller should prune).
    pub fn check_and_insert(&self, digest: u64, remaining: u8) -> bool {
        if !self.enabled {
            return false;
        }
        let mut m = self.shards[(digest >> 56) as usize].lock().unwrap();
        match m.get_mut(&digest) {
            Some(r) if *r >= remaining => {
                self.hits.fetch_add(1, Ordering::Relaxed);
                true
            }
            Some(r) => {
                *r = remaining;
                false
            }
            None => {
                m.insert(digest, remaining);
                false
            }
        }
    }
    pub fn len(&self) -> u64 {
        self.shards.iter().map(|s| s.lock().unwrap().len() as u64).sum()
    }
}

#[derive(Clone)]
struct Item {
    parent: Arc<Vec<u32>>,
    cut: u32,
    alt: u32,
}

impl Item {
    fn prefix(&self) -> Vec<u32> {
        let mut v = self.parent[..self.cut as usize].to_vec();
        if self.alt != u32::MAX {
            v.push(self.alt);
        }
        v
    }
}

#[derive(Default)]
pub struct Agg {
    pub execs: u64,
    pub transitions: u64,
    pub nontrivial_obs: HashSet<u64>,
    pub obs: HashSet<u64>,
    pub vios: VioSet,
    pub counters: BTreeMap<&'static str, u64>,
    pub max_trace: usize,
    pub points: u64,
    pub diverged: Vec<String>,
    pub sample_short: Option<Vec<u32>>,
    pub sample_long: Option<Vec<u32>>,
    pub sample_dev: Option<Vec<u32>>,
}

impl Agg {
    fn absorb(&mut self, r: &ExecResult, choices: &[u32]) {
        self.execs += 1;
        self.transitions += r.transitions;
        self.obs.insert(r.obs_hash);
        if r.nontrivial {
            self.nontrivial_obs.insert(r.obs_hash);
        }
        for (k, v) in &r.counters {
            *self.counters.entry(k).or_insert(0) += v;
        }
        self.max_trace = self.max_trace.max(r.trace.len());
        self.points += r.trace.len() as u64;
        if let Some(d) = &r.diverged {
            if self.diverged.len() < 5 {
                self.diverged.push(d.clone());
            }
        }
        if self.sample_short.as_ref().map(|s| choices.len() < s.len()).unwrap_or(true) {
            self.sample_short = Some(choices.to_vec());
        }
        if self.sample_long.as_ref().map(|s| choices.len() > s.len()).unwrap_or(true) {
            self.sample_long = Some(choices.to_vec());
        }
        let devs = |c: &[u32]| c.iter().filter(|&&x| x != 0).count();
        if self.sample_dev.as_ref().map(|s| devs(choices) > devs(s)).unwrap_or(true) {
            self.sample_dev = Some(choices.to_vec());
        }
    }
    pub fn merge(&mut self, o: Agg) {
        self.execs += o.execs;
        self.transitions += o.transitions;
        self.obs.extend(o.obs);
        self.nontrivial_obs.extend(o.nontrivial_obs);
        self.vios.merge(o.vios);
        for (k, v) in o.counters {
            *self.counters.entry(k).or_insert(0) += v;
        }
        self.max_trace = self.max_trace.max(o.max_trace);
        self.points += o.points;
        self.diverged.extend(o.diverged);
        for (mine, theirs, longer) in [(&mut self.sample_short, o.sample_short, false), (&mut self.sample_long, o.sample_long, true)] {
            if let Some(t) = theirs {
                let better = match mine {
                    Some(m) => {
                        if longer {
                            t.len() > m.len()
                        } else {
                            t.len() < m.len()
                        }
                    }
                    None => true,
                };
                if better {
                    *mine = Some(t);
                }
            }
        }
        if let Some(t) = o.sample_dev {
            let devs = |c: &[u32]| c.iter().filter(|&&x| x != 0).count();
            if self.sample_dev.as_ref().map(|m| devs(&t) > devs(m)).unwrap_or(true) {
                self.sample_dev = Some(t);
            }
        }
    }
}

pub struct ExploreReport {
    pub agg: Agg,
    /// highest deviation level that was enumerated completely
    pub completed_level: Option<u32>,
    /// level that was started but not finished (time cap)
    pub partial_level: Option<u32>,
    pub execs_per_level: Vec<u64>,
    pub states: u64,
    pub seen_hits: u64,
    pub wall_s: f64,
}

pub struct ExploreCfg {
    pub max_deviations: u32,
    pub deadline: Instant,
    pub dedupe: bool,
    /// deterministic work bound: a deviation level is started only if it has at most this many executions (the size of a
    /// level is known exactly before it starts). With it the amount of work does not depend on the speed of the machine.
    pub level_cap: Option<u64>,
    /// refuse a level that is estimated not to fit into the time left (off when `level_cap` decides)
    pub use_estimate: bool,
    /// stop after this many violations' signatures were collected
    pub threads: usize,
}

fn default_threads() -> usize {
    std::env::var("VERIF_THREADS").ok().and_then(|s| s.parse().ok()).unwrap_or_else(|| std::thread::available_parallelism().map(|n| n.get()).unwrap_or(4))
}

impl ExploreCfg {
    pub fn new(max_deviations: u32, deadline: Instant, dedupe: bool) -> ExploreCfg {
        ExploreCfg { max_deviations, deadline, dedupe, level_cap: None, use_estimate: true, threads: default_threads() }
    }
    /// work-bounded instead of time-bounded (the deadline is only a safety net)
    pub fn work_bounded(max_deviations: u32, deadline: Instant, dedupe: bool, level_cap: u64) -> ExploreCfg {
        ExploreCfg { max_deviations, deadline, dedupe, level_cap: Some(level_cap), use_estimate: false, threads: default_threads() }
    }
}

pub fn explore<H: Harness>(h: &H, cfg: &ExploreCfg) -> ExploreReport {
    let t0 = Instant::now();
    let seen = Seen::new(cfg.dedupe);
    let mut total = Agg::default();
    let mut frontier: Vec<Item> = vec![Item { parent: Arc::new(vec![]), cut: 0, alt: u32::MAX }];
    let mut completed_level = None;
    let mut partial_level = None;
    let mut execs_per_level = vec![];
    let mut avg_exec_s = 0.0f64;
    let mut prev_execs = 0u64;
    for level in 0..=cfg.max_deviations {
        if frontier.is_empty() {
            // nothing more to deviate on: all higher levels are trivially complete
            completed_level = Some(cfg.max_deviations);
            break;
        }
        if let Some(cap) = cfg.level_cap {
            if level > 0 && frontier.len() as u64 > cap {
                eprintln!("  level {}: {} executions > work cap {}: not started", level, frontier.len(), cap);
                break;
            }
        }
        // only start a level we can expect to finish
        if cfg.use_estimate && level > 0 && prev_execs >= 200 {
            let est = frontier.len() as f64 * avg_exec_s / cfg.threads as f64 * 0.8;
            let remaining = cfg.deadline.saturating_duration_since(Instant::now()).as_secs_f64();
            if est > remaining {
                eprintln!("  level {}: {} executions estimated {:.0}s > remaining {:.0}s: not started", level, frontier.len(), est, remaining);
                break;
            }
        }
        let stack: Mutex<Vec<Item>> = Mutex::new(std::mem::take(&mut frontier));
        let next: Mutex<Vec<Item>> = Mutex::new(vec![]);
        let inflight = AtomicU64::new(0);
        let aborted = AtomicBool::new(false);
        let level_agg: Mutex<Agg> = Mutex::new(Agg::default());
        let lt0 = Instant::now();
        std::thread::scope(|s| {
            for _ in 0..cfg.threads {
                s.spawn(|| {
                    let mut agg = Agg::default();
                    let mut local_next: Vec<Item> = vec![];
                    loop {
                        let item = {
                            let mut st = stack.lock().unwrap();
                            match st.pop() {
                                Some(i) => {
                                    inflight.fetch_add(1, Ordering::SeqCst);
                                    Some(i)
                                }
                                None => None,
                            }
                        };
                        let Some(item) = item else {
                            if inflight.load(Ordering::SeqCst) == 0 {
                                break;
                            }
                            std::thread::yield_now();
                            continue;
                        };
                        if aborted.load(Ordering::Relaxed) || Instant::now() >= cfg.deadline {
                            aborted.store(true, Ordering::Relaxed);
                            inflight.fetch_sub(1, Ordering::SeqCst);
                            continue;
                        }
                        let prefix = item.prefix();
                        // a panic that escapes the harness (an unguarded call into a poisoned h2 object, an oracle bug) must
                        // neither kill the worker nor stall the others: it is reported as a violation of its own
                        let r = match std::panic::catch_unwind(std::panic::AssertUnwindSafe(|| h.run(&prefix, &seen))) {
                            Ok(r) => r,
                            Err(p) => {
                                let msg = crate::c11::panic_text(&p);
                                ExecResult {
                                    trace: prefix.iter().map(|&c| Pt { n: c + 1, c, tag: 0, free: true }).collect(),
                                    violations: vec![Violation {
                                        rule: "ENGINE.panic-escaped-harness".into(),
                                        signature: msg.lines().next().unwrap_or("").chars().take(80).collect(),
                                        what: format!("a panic escaped the harness: {}", msg.lines().next().unwrap_or("")),
                                        replay: serde_json::json!({"harness": "engine", "choices": prefix}),
                                    }],
                                    obs_hash: 0,
                                    counters: vec![],
                                    diverged: None,
                                    transitions: 0,
                                    nontrivial: false,
                                }
                            }
                        };
                        let choices: Vec<u32> = r.trace.iter().map(|p| p.c).collect();
                        agg.absorb(&r, &choices);
                        for v in r.violations {
                            agg.vios.add(v);
                        }
                        // children
                        let parent = Arc::new(choices);
                        let mut same_level: Vec<Item> = vec![];
                        for i in prefix.len()..r.trace.len() {
                            let p = r.trace[i];
                            for alt in 1..p.n {
                                let it = Item { parent: parent.clone(), cut: i as u32, alt };
                                if p.free {
                                    same_level.push(it);
                                } else if level < cfg.max_deviations {
                                    local_next.push(it);
                                }
                            }
                        }
                        if !same_level.is_empty() {
                            // reversed so that lower alternatives are popped first
                            same_level.reverse();
                            stack.lock().unwrap().extend(same_level);
                        }
                        if local_next.len() > 4096 {
                            next.lock().unwrap().append(&mut local_next);
                        }
                        inflight.fetch_sub(1, Ordering::SeqCst);
                    }
                    next.lock().unwrap().append(&mut local_next);
                    level_agg.lock().unwrap().merge(agg);
                });
            }
        });
        let la = level_agg.into_inner().unwrap();
        let n = la.execs;
        execs_per_level.push(n);
        let dt = lt0.elapsed().as_secs_f64();
        if n > 0 {
            avg_exec_s = dt * cfg.threads as f64 / n as f64;
        }
        prev_execs = n;
        total.merge(la);
        if aborted.load(Ordering::Relaxed) {
            partial_level = Some(level);
            break;
        }
        completed_level = Some(level);
        frontier = next.into_inner().unwrap();
    }
    ExploreReport {
        states: if cfg.dedupe { seen.len() } else { total.obs.len() as u64 },
        seen_hits: seen.hits.load(Ordering::Relaxed),
        agg: total,
        completed_level,
        partial_level,
        execs_per_level,
        wall_s: t0.elapsed().as_secs_f64(),
    }
}
