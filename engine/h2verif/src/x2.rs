//! X2: explicit-state search over the real implementation on the T2 topology. A state is the event history that
//! reaches it (live h2 objects cannot be cloned: every extension re-executes from the initial state); states are
//! de-duplicated by a canonical digest (scrubbed Debug text of the connection + stream-store snapshot hook + bytes
//! in flight + model-specific monitor state). Every execution ends with the model's epilogue at its final state,
//! so epilogues (drain to quiescence + end-state oracle) are run from every new state.

use crate::common::*;
use crate::explore::*;
use crate::sim::*;
use crate::t2::*;
use serde_json::{json, Value};

pub type V3 = Vec<(String, String, String)>;

pub trait Model: Sync {
    type World;
    fn name(&self) -> &'static str;
    fn cfg(&self) -> T2Cfg;
    /// handles etc. after the handshake; may run a fixed legal prefix
    fn init(&self, t: &mut T2) -> Self::World;
    fn n_events(&self) -> usize;
    fn event_name(&self, e: usize) -> String;
    fn enabled(&self, t: &T2, w: &Self::World, e: usize) -> bool;
    fn apply(&self, t: &mut T2, w: &mut Self::World, e: usize);
    /// evaluated after every event
    fn invariant(&self, t: &mut T2, w: &mut Self::World) -> V3;
    /// run once, at the final state of an execution (destructive)
    fn epilogue(&self, t: &mut T2, w: &mut Self::World) -> V3;
    /// model-specific part of the digest (monitor state in canonical form, handle table)
    fn digest_extra(&self, t: &T2, w: &Self::World) -> String;
    fn teardown(&self, t: T2, w: Self::World) -> Vec<String>;
    fn counters(&self, _t: &T2, _w: &Self::World) -> Vec<(&'static str, u64)> {
        vec![]
    }
}

/// Replace run-dependent text (addresses, instants) by constants.
pub fn scrub(s: &str) -> String {
    let mut out = String::with_capacity(s.len());
    let b = s.as_bytes();
    let mut i = 0;
    while i < b.len() {
        if b[i] == b'0' && i + 1 < b.len() && b[i + 1] == b'x' {
            out.push_str("0x_");
            i += 2;
            while i < b.len() && b[i].is_ascii_hexdigit() {
                i += 1;
            }
            continue;
        }
        if s[i..].starts_with("Instant {") {
            out.push_str("Instant{_}");
            let mut depth = 0;
            while i < b.len() {
                if b[i] == b'{' {
                    depth += 1;
                }
                if b[i] == b'}' {
                    depth -= 1;
                    if depth == 0 {
                        i += 1;
                        break;
                    }
                }
                i += 1;
            }
            continue;
        }
        out.push(b[i] as char);
        i += 1;
    }
    out
}

impl std::fmt::Debug for SimIo {
    fn fmt(&self, f: &mut std::fmt::Formatter<'_>) -> std::fmt::Result {
        write!(f, "SimIo({})", self.side.name())
    }
}

pub fn conn_text(t: &T2) -> String {
    // after a panic inside h2 the snapshot hook would run into the poisoned lock
    match std::panic::catch_unwind(std::panic::AssertUnwindSafe(|| conn_text_inner(t))) {
        Ok(s) => s,
        Err(_) => "poisoned".to_string(),
    }
}

fn conn_text_inner(t: &T2) -> String {
    match &t.conn {
        Conn::Client(c) => {
            let s = c.verif_snapshot();
            scrub(&format!("{:?}|{:?}", c, s))
        }
        Conn::Server(c) => {
            let s = c.verif_snapshot();
            scrub(&format!("{:?}|{:?}", c, s))
        }
        Conn::Gone => format!("gone:{:?}", t.conn_result),
    }
}

pub fn base_digest(t: &T2) -> u64 {
    let mut h = fnv64(conn_text(t).as_bytes());
    let s = t.sh.lock().unwrap();
    for (i, p) in s.pipes.iter().enumerate() {
        let (a, b) = p.buf.as_slices();
        h = h.rotate_left(13) ^ fnv64(a) ^ fnv64(b).rotate_left(7) ^ ((p.closed as u64) << (i + 1)) ^ ((p.reader_gone as u64) << (i + 3));
    }
    h ^= (s.policy[t.role.idx()].write_blocked as u64) << 9;
    h ^= (t.conn_flag.is_set() as u64) << 10;
    h
}

pub struct X2Harness<'a, M: Model> {
    pub model: &'a M,
    pub depth: usize,
    pub prop: &'static str,
    pub dedupe_on: bool,
}

impl<'a, M: Model> X2Harness<'a, M> {
    pub fn replay_json(&self, choices: &[u32]) -> Value {
        let names: Vec<String> = choices.iter().filter(|&&c| c > 0).map(|&c| self.model.event_name(c as usize - 1)).collect();
        json!({"harness": format!("x2.{}", self.model.name()), "depth": self.depth, "choices": choices, "events": names})
    }
}

impl<'a, M: Model> Harness for X2Harness<'a, M> {
    fn run(&self, prefix: &[u32], seen: &Seen) -> ExecResult {
        let m = self.model;
        let mut t = T2::new(&m.cfg(), prefix.to_vec());
        let mut w = m.init(&mut t);
        let mut vios: V3 = vec![];
        let mut steps = 0usize;
        let n = m.n_events();
        let mut pruned = false;
        loop {
            // after a panic inside h2 its internal lock is poisoned: nothing more can be asked of the handles
            if !t.panics.is_empty() {
                break;
            }
            // invariants hold in every state
            vios.extend(m.invariant(&mut t, &mut w));
            if !t.panics.is_empty() {
                break;
            }
            let at_frontier = t.sh.lock().unwrap().chooser.trace.len() >= prefix.len();
            if at_frontier && self.dedupe_on {
                let mut d = base_digest(&t);
                d ^= fnv64(m.digest_extra(&t, &w).as_bytes()).rotate_left(21);
                let remaining = (self.depth - steps) as u8;
                if seen.check_and_insert(d, remaining) {
                    pruned = true;
                    break;
                }
            }
            if steps >= self.depth {
                break;
            }
            // which events are enabled here (canonical order); choice 0 = stop
            let enabled: Vec<usize> = (0..n).filter(|&e| m.enabled(&t, &w, e)).collect();
            let c = t.sh.lock().unwrap().chooser.choose(tag::EVENT, 1 + enabled.len(), true);
            if c == 0 {
                break;
            }
            // record the event index itself so that replays are stable: the alternative index is into `enabled`
            m.apply(&mut t, &mut w, enabled[c - 1]);
            steps += 1;
        }
        if !pruned && t.panics.is_empty() {
            t.sh.lock().unwrap().chooser.recording = false;
            // the epilogue talks to handles; if h2 panics in the middle of it (recorded in t.panics) its lock is poisoned and
            // the next handle call panics as well: that secondary panic is not a finding of its own
            match std::panic::catch_unwind(std::panic::AssertUnwindSafe(|| m.epilogue(&mut t, &mut w))) {
                Ok(v) => vios.extend(v),
                Err(p) => {
                    if t.panics.is_empty() {
                        t.panics.push(format!("epilogue: {}", crate::c11::panic_text(&p)));
                    }
                }
            }
            // generic lost-wakeup probe: every epilogue ends in strict quiescence (the connection is polled only when its waker
            // fired or its transport became ready). Polling it once more by force must not make it write anything - if it does,
            // whatever made that output due did not wake the connection task, and the peer would have waited for it.
            if t.panics.is_empty() && t.conn_alive() {
                t.drive(300);
                t.catch_up();
                let before = t.subject_frames().len();
                t.conn_flag.wake_by_ref_pub();
                t.drive(50);
                t.catch_up();
                let new: Vec<String> = t.subject_frames()[before..].iter().map(|f| format!("{}(stream {})", h2wire::frame::type_name(f.raw.ty), f.raw.stream())).collect();
                if !new.is_empty() {
                    vios.push((format!("{}.output-waits-for-forced-poll", self.prop), new.iter().map(|x| x.split('(').next().unwrap_or("").to_string()).collect::<Vec<_>>().join(","), format!("at quiescence nobody had woken the connection task, yet a forced poll made it write {:?}: the operation that made this output due did not wake the connection", new)));
                }
            }
        }
        for p in &t.panics {
            vios.push((format!("{}.panic", self.prop), p.lines().next().unwrap_or("").chars().take(80).collect(), format!("panic: {}", p.lines().next().unwrap_or(""))));
        }
        // lock-order monitor (hook H4): this execution's thread took h2's two mutexes out of rank order
        let inv = h2::verif::lock_order::take_local_inversions();
        if inv > 0 {
            vios.push((format!("{}.lock-order", self.prop), "inversion".into(), format!("{} acquisition(s) of h2's internal mutexes out of order (stream state before send buffer, neither twice): two threads doing this can deadlock", inv)));
        }
        let (trace, diverged) = {
            let s = t.sh.lock().unwrap();
            (s.chooser.trace.clone(), s.chooser.diverged.clone())
        };
        let choices: Vec<u32> = trace.iter().map(|p| p.c).collect();
        // event names for the replay file: recomputed from the enabled sets is not possible afterwards, so store choices
        let counters = m.counters(&t, &w);
        let transitions = t.events;
        let obs = base_digest(&t);
        let already = t.panics.len();
        let left = m.teardown(t, w);
        for p in left.into_iter().skip(already) {
            if !p.contains("self.slab.is_empty()") {
                vios.push((format!("{}.panic", self.prop), "teardown".into(), format!("panic during teardown: {}", p.lines().next().unwrap_or(""))));
            }
        }
        let rep = json!({"harness": format!("x2.{}", m.name()), "depth": self.depth, "choices": choices});
        let violations = vios.into_iter().filter(|(r, _, _)| r.starts_with(self.prop)).map(|(rule, signature, what)| Violation { rule, signature, what, replay: rep.clone() }).collect();
        ExecResult { trace, violations, obs_hash: obs, counters, diverged, transitions, nontrivial: steps > 0 }
    }
}

pub struct X2Report {
    pub completed_depth: usize,
    pub states: u64,
    pub execs: u64,
    pub transitions: u64,
    pub agg: Agg,
    pub per_depth: Vec<Value>,
    pub partial_depth: Option<usize>,
}

/// Iterative deepening: depth 1, 2, ... each a complete enumeration; stops when the next level cannot finish in time.
pub fn search<M: Model>(ctx: &Ctx, model: &M, prop: &'static str, max_depth: usize, deadline_s: f64, dedupe_on: bool) -> X2Report {
    let mut rep = X2Report { completed_depth: 0, states: 0, execs: 0, transitions: 0, agg: Agg::default(), per_depth: vec![], partial_depth: None };
    // determinism self-check: the same three-event history twice - same observation hash, same choice points
    {
        let h = X2Harness { model, depth: 3, prop, dedupe_on: false };
        let a = h.run(&[1, 2, 1], &Seen::new(false));
        let b = h.run(&[1, 2, 1], &Seen::new(false));
        if a.obs_hash != b.obs_hash || a.trace.len() != b.trace.len() {
            rep.agg.diverged.push(format!("model {} is not deterministic: two executions of the same history differ", model.name()));
        }
    }
    let mut last_time = 0.0;
    let mut last_execs = 1u64;
    let mut growth = model.n_events() as f64 / 2.0;
    // quick tier: the depth given by the caller is THE bound (work-bounded, machine-independent); the clock is a safety net
    let quick = ctx.tier.is_quick();
    let deadline_s = if quick { ctx.hard_cap_s() } else { deadline_s };
    for depth in 1..=max_depth {
        let remaining = deadline_s - ctx.elapsed();
        if !quick && depth > 2 && last_time * growth > remaining {
            eprintln!("[{}] {} depth {}: estimated {:.0}s > remaining {:.0}s: not started", prop, model.name(), depth, last_time * growth, remaining);
            break;
        }
        let h = X2Harness { model, depth, prop, dedupe_on };
        let t0 = ctx.elapsed();
        let dl = std::time::Instant::now() + std::time::Duration::from_secs_f64(remaining.max(0.5));
        let r = explore(&h, &ExploreCfg::new(0, dl, dedupe_on));
        let dt = ctx.elapsed() - t0;
        eprintln!("[{}] {} depth {}: execs={} states={} pruned={} vios={} {:.1}s", prop, model.name(), depth, r.agg.execs, r.states, r.seen_hits, r.agg.vios.map.len(), dt);
        rep.per_depth.push(json!({"depth": depth, "executions": r.agg.execs, "states": r.states, "pruned_revisits": r.seen_hits, "complete": r.partial_level.is_none()}));
        let complete = r.partial_level.is_none();
        if r.agg.execs > last_execs && last_time > 0.05 {
            growth = (dt / last_time).max(1.5);
        }
        last_time = dt;
        last_execs = r.agg.execs;
        rep.execs += r.agg.execs;
        rep.transitions += r.agg.transitions;
        rep.states = rep.states.max(r.states);
        rep.agg.merge(r.agg);
        if !complete {
            rep.partial_depth = Some(depth);
            break;
        }
        rep.completed_depth = depth;
    }
    rep
}

pub fn fill_outcome(out: &mut Outcome, reps: &[(&str, &X2Report)]) {
    let mut execs = 0;
    let mut states = 0;
    let mut transitions = 0;
    let mut nontrivial = 0;
    let mut counters: std::collections::BTreeMap<&'static str, u64> = Default::default();
    for (name, r) in reps {
        execs += r.execs;
        states += r.states;
        transitions += r.transitions;
        nontrivial += r.agg.nontrivial_obs.len();
        for (k, v) in &r.agg.counters {
            *counters.entry(k).or_insert(0) += v;
        }
        out.harness(name, json!({"completed_depth": r.completed_depth, "partial_depth": r.partial_depth, "levels": r.per_depth, "canonical_states": r.states}));
        if !r.agg.diverged.is_empty() {
            out.machinery_errors.push(format!("replay diverged in {}: {:?}", name, r.agg.diverged));
        }
    }
    out.add_count("evaluations", execs);
    out.add_count("states", states);
    out.add_count("transitions", transitions);
    out.add_count("traces_validated_against_impl", execs);
    out.add_count("distinct_nontrivial", nontrivial as u64);
    let prev = out.coverage.get("mechanism_counters").cloned().unwrap_or(json!({}));
    let mut m = prev.as_object().cloned().unwrap_or_default();
    for (k, v) in counters {
        m.insert(k.to_string(), json!(v));
    }
    out.set("mechanism_counters", Value::Object(m));
}

/// Verbose replay of one execution of a model.
/// a hand-written trace names its events ("event_names": ["Request(true)", "Drive", ..]): the choice numbers are found by
/// re-executing the prefix, as the search itself does
fn choices_from_names<M: Model>(model: &M, names: &[String]) -> Option<Vec<u32>> {
    let mut choices: Vec<u32> = vec![];
    for name in names {
        let mut t = T2::new(&model.cfg(), choices.clone());
        let mut w = model.init(&mut t);
        let n = model.n_events();
        for _ in 0..choices.len() {
            let enabled: Vec<usize> = (0..n).filter(|&e| model.enabled(&t, &w, e)).collect();
            let c = t.sh.lock().unwrap().chooser.choose(tag::EVENT, 1 + enabled.len(), true);
            model.apply(&mut t, &mut w, enabled[c - 1]);
        }
        let enabled: Vec<usize> = (0..n).filter(|&e| model.enabled(&t, &w, e)).collect();
        let pos = enabled.iter().position(|&e| &model.event_name(e) == name);
        let _ = model.teardown(t, w);
        match pos {
            Some(p) => choices.push(p as u32 + 1),
            None => {
                println!("event '{}' is not enabled after {:?}", name, &names[..choices.len()]);
                return None;
            }
        }
    }
    Some(choices)
}

pub fn replay_model<M: Model>(model: &M, prop: &'static str, v: &Value) -> bool {
    let choices: Vec<u32> = match v["event_names"].as_array() {
        Some(names) => match choices_from_names(model, &names.iter().map(|x| x.as_str().unwrap_or("").to_string()).collect::<Vec<_>>()) {
            Some(c) => c,
            None => return false,
        },
        None => v["choices"].as_array().unwrap().iter().map(|x| x.as_u64().unwrap() as u32).collect(),
    };
    let depth = v["depth"].as_u64().unwrap_or(choices.len() as u64) as usize;
    // the search tears a state down both straight after its events and after the epilogue: a panic in the former shows
    // only without the epilogue
    if v["signature"].as_str() == Some("teardown") && v["no_epilogue"].as_bool() != Some(false) {
        let mut t = T2::new(&model.cfg(), choices.clone());
        let mut w = model.init(&mut t);
        let n = model.n_events();
        for step in 0..depth.min(choices.len()) {
            if !t.panics.is_empty() {
                break;
            }
            let enabled: Vec<usize> = (0..n).filter(|&e| model.enabled(&t, &w, e)).collect();
            let c = t.sh.lock().unwrap().chooser.choose(tag::EVENT, 1 + enabled.len(), true);
            if c == 0 {
                break;
            }
            println!("event {}: {}", step + 1, model.event_name(enabled[c - 1]));
            model.apply(&mut t, &mut w, enabled[c - 1]);
        }
        t.catch_up();
        println!("--- wire transcript\n{}", t.mon.transcript());
        println!("--- teardown straight after these events (no epilogue)");
        let ps = model.teardown(t, w);
        for p in &ps {
            println!("  PANIC: {}", p);
        }
        if !ps.is_empty() {
            return true;
        }
    }
    let mut t = T2::new(&model.cfg(), choices.clone());
    let mut w = model.init(&mut t);
    let n = model.n_events();
    let mut vios: V3 = vec![];
    let mut steps = 0;
    loop {
        let iv = model.invariant(&mut t, &mut w);
        for (r, _, what) in &iv {
            println!("  RULE VIOLATED (invariant): {} {}", r, what);
        }
        vios.extend(iv);
        if steps >= depth || !t.panics.is_empty() {
            break;
        }
        let enabled: Vec<usize> = (0..n).filter(|&e| model.enabled(&t, &w, e)).collect();
        let c = t.sh.lock().unwrap().chooser.choose(tag::EVENT, 1 + enabled.len(), true);
        if c == 0 {
            break;
        }
        println!("event {}: {}", steps + 1, model.event_name(enabled[c - 1]));
        model.apply(&mut t, &mut w, enabled[c - 1]);
        steps += 1;
    }
    t.catch_up();
    println!("--- wire transcript before the epilogue\n{}", t.mon.transcript());
    println!("--- state: {}", model.digest_extra(&t, &w));
    if t.panics.is_empty() {
        t.sh.lock().unwrap().chooser.recording = false;
        let ev = model.epilogue(&mut t, &mut w);
        for (r, _, what) in &ev {
            println!("  RULE VIOLATED (epilogue): {} {}", r, what);
        }
        vios.extend(ev);
        // the generic lost-wakeup probe of the search (see X2Harness::run)
        if t.panics.is_empty() && t.conn_alive() {
            t.drive(300);
            t.catch_up();
            let before = t.subject_frames().len();
            t.conn_flag.wake_by_ref_pub();
            t.drive(50);
            t.catch_up();
            let new: Vec<String> = t.subject_frames()[before..].iter().map(|f| format!("{}(stream {})", h2wire::frame::type_name(f.raw.ty), f.raw.stream())).collect();
            if !new.is_empty() {
                println!("  RULE VIOLATED (forced poll at quiescence): {}.output-waits-for-forced-poll the connection wrote {:?}", prop, new);
                vios.push((format!("{}.output-waits-for-forced-poll", prop), String::new(), String::new()));
            }
        }
    }
    for p in &t.panics {
        println!("  PANIC: {}", p);
    }
    let np = t.panics.len();
    if let Some(d) = &t.sh.lock().unwrap().chooser.diverged {
        println!("REPLAY DIVERGED: {}", d);
    }
    let _ = model.teardown(t, w);
    vios.iter().any(|(r, _, _)| r.starts_with(prop)) || np > 0
}
