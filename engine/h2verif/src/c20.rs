//! C20 — handles used from another thread while the connection is being polled (X4: explicit-state search on T2 where
//! every handle operation runs on a second OS thread, handed a baton, also *inside* the connection's poll: at each
//! transport callback, i.e. exactly where the connection task has released h2's internal locks around I/O).
//! The lock-free user-ping state machine is checked separately with loom on the real source (/verif/pingloom).

use crate::common::*;
use crate::monitor::*;
use crate::sim::*;
use crate::t2::*;
use crate::x2::*;
use bytes::Bytes;
use h2::{client, RecvStream, SendStream};
use h2wire::frame::{self as wf, Parsed};
use serde_json::json;
use std::future::Future;
use std::panic::{catch_unwind, AssertUnwindSafe};
use std::pin::Pin;
use std::sync::atomic::{AtomicBool, AtomicU64, Ordering};
use std::sync::mpsc::{channel, Receiver, Sender};
use std::sync::{Arc, Mutex};
use std::task::{Context, Poll};
use std::time::Duration;

#[derive(Clone, Debug, PartialEq)]
pub enum Op {
    SendData(usize, usize, bool),
    Reserve(usize, usize),
    PollCapacity(usize),
    SendReset(usize),
    DropSend(usize),
    PollResponse(usize),
    ReadBody(usize),
    DropBody(usize),
    NewRequest,
    /// a request without a body (END_STREAM on the head)
    NewGet,
    DropResponse(usize),
    /// the (only) SendRequest goes
    DropSendRequest,
    SendPing,
    PollPong,
    Quit,
}

#[derive(Clone, Default, Debug)]
pub struct ReqSnap {
    pub sid: u32,
    pub has_rf: bool,
    pub has_ss: bool,
    pub has_body: bool,
    /// octets send_data accepted, in call order (every call uses its own byte value)
    pub accepted: Vec<u8>,
    pub eos: bool,
    pub reset: bool,
    pub received: Vec<u8>,
    pub recv_done: Option<String>,
    pub response: Option<String>,
    pub capacity: usize,
}

#[derive(Clone, Default, Debug)]
pub struct Snap {
    pub reqs: Vec<ReqSnap>,
    /// 0 = idle, 1 = ping outstanding, 2 = pong seen
    pub ping: u8,
    pub ping_err: Option<String>,
    pub sr_alive: bool,
    pub last: String,
    pub panics: Vec<String>,
}

struct HReq {
    rf: Option<client::ResponseFuture>,
    ss: Option<SendStream<Bytes>>,
    body: Option<RecvStream>,
    snap: ReqSnap,
}

struct Helper {
    sr: Option<client::SendRequest<Bytes>>,
    reqs: Vec<HReq>,
    pp: Option<h2::PingPong>,
    ping: u8,
    ping_err: Option<String>,
    seq: u8,
    panics: Vec<String>,
    flag: Arc<Flag>,
}

impl Helper {
    fn snap(&self, last: String) -> Snap {
        Snap { reqs: self.reqs.iter().map(|r| r.snap.clone()).collect(), ping: self.ping, ping_err: self.ping_err.clone(), sr_alive: self.sr.is_some(), last, panics: self.panics.clone() }
    }
    fn exec(&mut self, op: &Op) -> String {
        let wk = waker_of(&self.flag);
        let mut cx = Context::from_waker(&wk);
        let mut panics = vec![];
        let out = match op.clone() {
            Op::NewRequest => {
                let mut res = "no SendRequest".to_string();
                if let Some(sr) = self.sr.as_mut() {
                    match guarded(&mut panics, "poll_ready", || sr.poll_ready(&mut cx)) {
                        Some(Poll::Ready(Ok(()))) => match guarded(&mut panics, "send_request", || sr.send_request(simple_request("/t", true), false)) {
                            Some(Ok((rf, ss))) => {
                                let sid = rf.stream_id().as_u32();
                                self.reqs.push(HReq { rf: Some(rf), ss: Some(ss), body: None, snap: ReqSnap { sid, has_rf: true, has_ss: true, ..Default::default() } });
                                res = format!("opened {}", sid);
                            }
                            Some(Err(e)) => res = format!("send_request: {}", crate::scen::err_text(&e)),
                            None => res = "panic".into(),
                        },
                        Some(Poll::Ready(Err(e))) => res = format!("poll_ready: {}", crate::scen::err_text(&e)),
                        Some(Poll::Pending) => res = "poll_ready: pending".into(),
                        None => res = "panic".into(),
                    }
                }
                res
            }
            Op::NewGet => {
                let mut res = "no SendRequest".to_string();
                if let Some(sr) = self.sr.as_mut() {
                    match guarded(&mut panics, "poll_ready", || sr.poll_ready(&mut cx)) {
                        Some(Poll::Ready(Ok(()))) => match guarded(&mut panics, "send_request", || sr.send_request(simple_request("/g", false), true)) {
                            Some(Ok((rf, ss))) => {
                                let sid = rf.stream_id().as_u32();
                                self.reqs.push(HReq { rf: Some(rf), ss: Some(ss), body: None, snap: ReqSnap { sid, has_rf: true, has_ss: true, eos: true, ..Default::default() } });
                                res = format!("opened {}", sid);
                            }
                            Some(Err(e)) => res = format!("send_request: {}", crate::scen::err_text(&e)),
                            None => res = "panic".into(),
                        },
                        Some(Poll::Ready(Err(e))) => res = format!("poll_ready: {}", crate::scen::err_text(&e)),
                        Some(Poll::Pending) => res = "poll_ready: pending".into(),
                        None => res = "panic".into(),
                    }
                }
                res
            }
            Op::DropResponse(k) => {
                let Some(r) = self.reqs.get_mut(k) else { return "n/a".into() };
                safe_drop(&mut panics, "ResponseFuture", r.rf.take());
                r.snap.has_rf = false;
                "dropped".into()
            }
            Op::DropSendRequest => {
                safe_drop(&mut panics, "SendRequest", self.sr.take());
                "dropped".into()
            }
            Op::SendData(k, n, eos) => {
                let seq = self.seq;
                let Some(r) = self.reqs.get_mut(k) else { return "n/a".into() };
                let Some(ss) = r.ss.as_mut() else { return "n/a".into() };
                self.seq = self.seq.wrapping_add(1);
                match guarded(&mut panics, "send_data", || ss.send_data(Bytes::from(vec![seq; n]), eos)) {
                    Some(Ok(())) => {
                        r.snap.accepted.extend(std::iter::repeat(seq).take(n));
                        if eos {
                            r.snap.eos = true;
                        }
                        "ok".into()
                    }
                    Some(Err(e)) => format!("send_data: {}", e),
                    None => "panic".into(),
                }
            }
            Op::Reserve(k, n) => {
                let Some(r) = self.reqs.get_mut(k) else { return "n/a".into() };
                let Some(ss) = r.ss.as_mut() else { return "n/a".into() };
                guarded(&mut panics, "reserve_capacity", || ss.reserve_capacity(n));
                r.snap.capacity = guarded(&mut panics, "capacity", || ss.capacity()).unwrap_or(0);
                format!("capacity {}", r.snap.capacity)
            }
            Op::PollCapacity(k) => {
                let Some(r) = self.reqs.get_mut(k) else { return "n/a".into() };
                let Some(ss) = r.ss.as_mut() else { return "n/a".into() };
                let p = guarded(&mut panics, "poll_capacity", || ss.poll_capacity(&mut cx));
                r.snap.capacity = guarded(&mut panics, "capacity", || ss.capacity()).unwrap_or(0);
                match p {
                    Some(Poll::Ready(Some(Ok(n)))) => format!("ready {}", n),
                    Some(Poll::Ready(Some(Err(e)))) => format!("err {}", e),
                    Some(Poll::Ready(None)) => "none".into(),
                    Some(Poll::Pending) => "pending".into(),
                    None => "panic".into(),
                }
            }
            Op::SendReset(k) => {
                let Some(r) = self.reqs.get_mut(k) else { return "n/a".into() };
                let Some(ss) = r.ss.as_mut() else { return "n/a".into() };
                guarded(&mut panics, "send_reset", || ss.send_reset(h2::Reason::CANCEL));
                r.snap.reset = true;
                "reset".into()
            }
            Op::DropSend(k) => {
                let Some(r) = self.reqs.get_mut(k) else { return "n/a".into() };
                safe_drop(&mut panics, "SendStream", r.ss.take());
                r.snap.has_ss = false;
                "dropped".into()
            }
            Op::PollResponse(k) => {
                let Some(r) = self.reqs.get_mut(k) else { return "n/a".into() };
                let Some(rf) = r.rf.as_mut() else { return "n/a".into() };
                match guarded(&mut panics, "poll response", || Pin::new(rf).poll(&mut cx)) {
                    Some(Poll::Ready(Ok(resp))) => {
                        r.snap.response = Some(format!("{}", resp.status().as_u16()));
                        r.body = Some(resp.into_body());
                        r.snap.has_body = true;
                        safe_drop(&mut panics, "ResponseFuture", r.rf.take());
                        r.snap.has_rf = false;
                        "response".into()
                    }
                    Some(Poll::Ready(Err(e))) => {
                        r.snap.response = Some(format!("err {}", crate::scen::err_text(&e)));
                        safe_drop(&mut panics, "ResponseFuture", r.rf.take());
                        r.snap.has_rf = false;
                        "response error".into()
                    }
                    Some(Poll::Pending) => "pending".into(),
                    None => "panic".into(),
                }
            }
            Op::ReadBody(k) => {
                let Some(r) = self.reqs.get_mut(k) else { return "n/a".into() };
                let Some(b) = r.body.as_mut() else { return "n/a".into() };
                let mut got = 0;
                loop {
                    match guarded(&mut panics, "poll_data", || b.poll_data(&mut cx)) {
                        Some(Poll::Ready(Some(Ok(d)))) => {
                            got += d.len();
                            r.snap.received.extend_from_slice(&d);
                            let _ = guarded(&mut panics, "release_capacity", || b.flow_control().release_capacity(d.len()));
                        }
                        Some(Poll::Ready(Some(Err(e)))) => {
                            r.snap.recv_done = Some(format!("err {}", crate::scen::err_text(&e)));
                            break;
                        }
                        Some(Poll::Ready(None)) => {
                            r.snap.recv_done = Some("end".into());
                            break;
                        }
                        _ => break,
                    }
                }
                format!("read {}", got)
            }
            Op::DropBody(k) => {
                let Some(r) = self.reqs.get_mut(k) else { return "n/a".into() };
                safe_drop(&mut panics, "RecvStream", r.body.take());
                r.snap.has_body = false;
                "dropped".into()
            }
            Op::SendPing => {
                let Some(pp) = self.pp.as_mut() else { return "n/a".into() };
                match guarded(&mut panics, "send_ping", || pp.send_ping(h2::Ping::opaque())) {
                    Some(Ok(())) => {
                        self.ping = 1;
                        "ping queued".into()
                    }
                    Some(Err(e)) => format!("send_ping: {}", crate::scen::err_text(&e)),
                    None => "panic".into(),
                }
            }
            Op::PollPong => {
                let Some(pp) = self.pp.as_mut() else { return "n/a".into() };
                match guarded(&mut panics, "poll_pong", || pp.poll_pong(&mut cx)) {
                    Some(Poll::Ready(Ok(_))) => {
                        self.ping = 2;
                        "pong".into()
                    }
                    Some(Poll::Ready(Err(e))) => {
                        self.ping_err = Some(crate::scen::err_text(&e));
                        "pong error".into()
                    }
                    Some(Poll::Pending) => "pending".into(),
                    None => "panic".into(),
                }
            }
            Op::Quit => {
                for r in self.reqs.iter_mut() {
                    safe_drop(&mut panics, "ResponseFuture", r.rf.take());
                    safe_drop(&mut panics, "SendStream", r.ss.take());
                    safe_drop(&mut panics, "RecvStream", r.body.take());
                }
                safe_drop(&mut panics, "SendRequest", self.sr.take());
                safe_drop(&mut panics, "PingPong", self.pp.take());
                "quit".into()
            }
        };
        self.panics.extend(panics);
        out
    }
}

/// main-thread side of the baton
pub struct HelperClient {
    tx: Sender<Op>,
    rx: Receiver<Snap>,
    pub snap: Snap,
    /// set when the helper did not answer in time: it is blocked inside h2 (deadlock) - nothing more can be asked of it
    pub dead: Option<String>,
    pub ops: u64,
}

static DEADLOCK_TIMEOUT_MS: AtomicU64 = AtomicU64::new(4000);
static DEADLOCKS: AtomicU64 = AtomicU64::new(0);

impl HelperClient {
    pub fn spawn(sr: client::SendRequest<Bytes>, pp: Option<h2::PingPong>) -> HelperClient {
        let (tx, rx_op) = channel::<Op>();
        let (tx_res, rx) = channel::<Snap>();
        std::thread::Builder::new()
            .name("c20-handles".into())
            .stack_size(512 * 1024)
            .spawn(move || {
                let mut h = Helper { sr: Some(sr), reqs: vec![], pp, ping: 0, ping_err: None, seq: 1, panics: vec![], flag: Flag::new(false) };
                while let Ok(op) = rx_op.recv() {
                    let last = match catch_unwind(AssertUnwindSafe(|| h.exec(&op))) {
                        Ok(s) => s,
                        Err(p) => {
                            h.panics.push(format!("{:?}: {}", op, crate::c11::panic_text(&p)));
                            "panic".into()
                        }
                    };
                    let quit = op == Op::Quit;
                    if tx_res.send(h.snap(last)).is_err() || quit {
                        break;
                    }
                }
                // anything left (main side went away without Quit): leak rather than risk a destructor panic chain
                std::mem::forget(h);
            })
            .expect("cannot spawn helper thread");
        HelperClient { tx, rx, snap: Snap { sr_alive: true, ..Default::default() }, dead: None, ops: 0 }
    }
    pub fn call(&mut self, op: Op) -> bool {
        if self.dead.is_some() {
            return false;
        }
        self.ops += 1;
        if self.tx.send(op.clone()).is_err() {
            self.dead = Some(format!("helper thread gone before {:?}", op));
            return false;
        }
        match self.rx.recv_timeout(Duration::from_millis(DEADLOCK_TIMEOUT_MS.load(Ordering::Relaxed))) {
            Ok(s) => {
                self.snap = s;
                true
            }
            Err(_) => {
                // every further execution that reaches the same spot would wait as long: after a few confirmed deadlocks
                // the watchdog gets shorter, after ten the second thread no longer enters the connection's poll
                let n = DEADLOCKS.fetch_add(1, Ordering::SeqCst) + 1;
                if n >= 3 {
                    DEADLOCK_TIMEOUT_MS.store(400, Ordering::Relaxed);
                }
                self.dead = Some(format!("{:?} did not return within {} ms: blocked on one of the library's locks", op, DEADLOCK_TIMEOUT_MS.load(Ordering::Relaxed)));
                false
            }
        }
    }
}

#[derive(Clone, Debug)]
pub enum Ev {
    App(Op),
    PeerWuConn(u32),
    PeerWuStream(usize, u32),
    PeerRespond(usize),
    PeerDataEos(usize),
    PeerRst(usize),
    PeerPong,
    Drive,
    DriveBudget(usize),
}

pub struct World {
    pub helper: Arc<Mutex<HelperClient>>,
    pub armed: Arc<AtomicBool>,
    pub injected: Arc<Mutex<Vec<String>>>,
    pub acct: FlowAcct,
    pub life: Lifecycle,
    /// per request index: octets the peer sent on it
    pub peer_sent: Vec<Vec<u8>>,
    pub peer_seq: u8,
    pub peer_responded: Vec<bool>,
    pub peer_ended: Vec<bool>,
    pub peer_rst: Vec<bool>,
    pub pongs: usize,
}

pub struct ThreadModel {
    pub events: Vec<Ev>,
    pub inject_menu: Vec<Op>,
    pub name: &'static str,
    pub window: u32,
    pub max_injections: usize,
    /// start in the middle of an exchange: stream 0 answered (head + 100 octets, response future resolved), 2000 octets
    /// accepted on stream 1
    pub mid: bool,
}

impl ThreadModel {
    pub fn new(name: &'static str, quick: bool, mid: bool) -> ThreadModel {
        let mut ev = vec![];
        let mut menu = vec![];
        for k in 0..2 {
            ev.push(Ev::App(Op::SendData(k, 1800, false)));
            ev.push(Ev::App(Op::SendData(k, 5, true)));
            if !quick {
                ev.push(Ev::App(Op::Reserve(k, 3000)));
                ev.push(Ev::App(Op::PollCapacity(k)));
            }
            ev.push(Ev::App(Op::SendReset(k)));
            ev.push(Ev::App(Op::PollResponse(k)));
            ev.push(Ev::App(Op::ReadBody(k)));
            ev.push(Ev::PeerWuStream(k, 4000));
            ev.push(Ev::PeerRespond(k));
            if !quick {
                ev.push(Ev::PeerDataEos(k));
                ev.push(Ev::PeerRst(k));
            }
            menu.push(Op::SendData(k, 1800, false));
            menu.push(Op::SendData(k, 5, true));
            menu.push(Op::SendReset(k));
            menu.push(Op::Reserve(k, 3000));
            menu.push(Op::PollCapacity(k));
            menu.push(Op::DropSend(k));
            menu.push(Op::PollResponse(k));
            menu.push(Op::ReadBody(k));
            menu.push(Op::DropBody(k));
        }
        ev.push(Ev::App(Op::NewRequest));
        ev.push(Ev::App(Op::SendPing));
        ev.push(Ev::App(Op::PollPong));
        ev.push(Ev::PeerWuConn(4000));
        ev.push(Ev::PeerPong);
        ev.push(Ev::Drive);
        ev.push(Ev::DriveBudget(1500));
        menu.push(Op::NewRequest);
        menu.push(Op::SendPing);
        menu.push(Op::PollPong);
        ThreadModel { events: ev, inject_menu: menu, name, window: 3000, max_injections: 2, mid }
    }
}

pub fn op_enabled(s: &Snap, op: &Op) -> bool {
    let r = |k: &usize| s.reqs.get(*k);
    match op {
        Op::SendData(k, _, _) => r(k).map(|r| r.has_ss && !r.eos && !r.reset && r.accepted.len() < 9000).unwrap_or(false),
        Op::Reserve(k, _) | Op::PollCapacity(k) => r(k).map(|r| r.has_ss && !r.eos && !r.reset).unwrap_or(false),
        Op::SendReset(k) => r(k).map(|r| r.has_ss && !r.reset).unwrap_or(false),
        Op::DropSend(k) => r(k).map(|r| r.has_ss).unwrap_or(false),
        Op::PollResponse(k) => r(k).map(|r| r.has_rf).unwrap_or(false),
        Op::ReadBody(k) => r(k).map(|r| r.has_body && r.recv_done.is_none()).unwrap_or(false),
        Op::DropBody(k) => r(k).map(|r| r.has_body).unwrap_or(false),
        Op::NewRequest | Op::NewGet => s.sr_alive && s.reqs.len() < 3,
        Op::DropResponse(k) => r(k).map(|r| r.has_rf).unwrap_or(false),
        Op::DropSendRequest => s.sr_alive,
        Op::SendPing => s.ping != 1 && s.ping_err.is_none(),
        Op::PollPong => s.ping == 1,
        Op::Quit => false,
    }
}

/// the hook: at a transport callback inside the connection's poll another thread uses a handle
fn install_hook(t: &mut T2, helper: &Arc<Mutex<HelperClient>>, armed: &Arc<AtomicBool>, injected: &Arc<Mutex<Vec<String>>>, menu: Vec<Op>) {
    let weak = Arc::downgrade(&t.sh);
    let helper = helper.clone();
    let armed = armed.clone();
    let injected = injected.clone();
    let hook: Arc<dyn Fn(&'static str) + Send + Sync> = Arc::new(move |kind| {
        if !armed.load(Ordering::SeqCst) || DEADLOCKS.load(Ordering::SeqCst) >= 10 {
            return;
        }
        let Some(sh) = weak.upgrade() else { return };
        let mut h = helper.lock().unwrap();
        if h.dead.is_some() {
            return;
        }
        let enabled: Vec<&Op> = menu.iter().filter(|o| op_enabled(&h.snap, o)).collect();
        if enabled.is_empty() {
            return;
        }
        let c = sh.lock().unwrap().chooser.choose(tag::APP, 1 + enabled.len(), true);
        if c == 0 {
            return;
        }
        armed.store(false, Ordering::SeqCst);
        let op = enabled[c - 1].clone();
        let returned = h.call(op.clone());
        injected.lock().unwrap().push(format!("{:?} during {} -> {}", op, kind, if returned { h.snap.last.clone() } else { "never returned".to_string() }));
    });
    let mut s = t.sh.lock().unwrap();
    s.hook = Some(hook);
    s.hook_side = Side::Client;
}

fn wire_data(t: &T2, sid: u32, from_subject: bool) -> Vec<u8> {
    let mut v = vec![];
    for f in &t.mon.frames {
        if (f.sender == t.role) == from_subject {
            if let Ok(Parsed::Data { sid: s, data, .. }) = &f.parsed {
                if *s == sid {
                    v.extend_from_slice(data);
                }
            }
        }
    }
    v
}

fn wire_eos(t: &T2, sid: u32) -> bool {
    t.subject_frames().iter().any(|f| f.raw.stream() == sid && matches!(&f.parsed, Ok(Parsed::Data { eos: true, .. }) | Ok(Parsed::Headers { eos: true, .. })))
}

impl Model for ThreadModel {
    type World = World;
    fn name(&self) -> &'static str {
        self.name
    }
    fn cfg(&self) -> T2Cfg {
        T2Cfg { role: Side::Client, peer_settings: vec![(wf::setting::INITIAL_WINDOW_SIZE, self.window)], client: Some(client::Builder::new()), server: None, policy: IoPolicy::default() }
    }
    fn init(&self, t: &mut T2) -> World {
        let sr = t.send_request.take().unwrap();
        let pp = if let Conn::Client(c) = &mut t.conn { c.ping_pong() } else { None };
        let mut hc = HelperClient::spawn(sr, pp);
        hc.call(Op::NewRequest);
        hc.call(Op::NewRequest);
        let helper = Arc::new(Mutex::new(hc));
        let armed = Arc::new(AtomicBool::new(false));
        let injected = Arc::new(Mutex::new(vec![]));
        install_hook(t, &helper, &armed, &injected, self.inject_menu.clone());
        t.drive(50);
        let mut w = World { helper, armed, injected, acct: FlowAcct::new(Side::Client), life: Lifecycle::new(Side::Client), peer_sent: vec![vec![]; 3], peer_seq: 101, peer_responded: vec![false; 3], peer_ended: vec![false; 3], peer_rst: vec![false; 3], pongs: 0 };
        if self.mid {
            let sid = w.helper.lock().unwrap().snap.reqs[0].sid;
            t.peer_response(sid, "200", false);
            let b = vec![w.peer_seq; 100];
            w.peer_seq += 1;
            t.peer_send(&wf::data(sid, &b, false));
            w.peer_sent[0].extend_from_slice(&b);
            w.peer_responded[0] = true;
            t.drive(50);
            w.helper.lock().unwrap().call(Op::PollResponse(0));
            w.helper.lock().unwrap().call(Op::SendData(1, 1800, false));
        }
        w
    }
    fn n_events(&self) -> usize {
        self.events.len()
    }
    fn event_name(&self, e: usize) -> String {
        format!("{:?}", self.events[e])
    }
    fn enabled(&self, t: &T2, w: &World, e: usize) -> bool {
        let h = w.helper.lock().unwrap();
        if h.dead.is_some() || !t.conn_alive() {
            return false;
        }
        let s = &h.snap;
        let on_wire = |k: usize| s.reqs.get(k).map(|r| t.subject_frames().iter().any(|f| matches!(&f.parsed, Ok(Parsed::Headers { sid, .. }) if *sid == r.sid))).unwrap_or(false);
        match &self.events[e] {
            Ev::App(op) => op_enabled(s, op),
            Ev::PeerWuConn(_) => true,
            Ev::PeerWuStream(k, _) => on_wire(*k) && !w.peer_rst[*k] && s.reqs[*k].accepted.len() > 0,
            Ev::PeerRespond(k) => on_wire(*k) && !w.peer_responded[*k] && !w.peer_rst[*k],
            Ev::PeerDataEos(k) => w.peer_responded[*k] && !w.peer_ended[*k] && !w.peer_rst[*k],
            Ev::PeerRst(k) => on_wire(*k) && !w.peer_rst[*k] && !w.peer_ended[*k],
            Ev::PeerPong => t.subject_frames().iter().filter(|f| matches!(&f.parsed, Ok(Parsed::Ping { ack: false, .. }))).count() > w.pongs,
            Ev::Drive | Ev::DriveBudget(_) => true,
        }
    }
    fn apply(&self, t: &mut T2, w: &mut World, e: usize) {
        let sid_of = |w: &World, k: usize| w.helper.lock().unwrap().snap.reqs[k].sid;
        match self.events[e].clone() {
            Ev::App(op) => {
                w.helper.lock().unwrap().call(op);
                t.events += 1;
            }
            Ev::PeerWuConn(n) => t.peer_send(&wf::window_update(0, n)),
            Ev::PeerWuStream(k, n) => {
                let sid = sid_of(w, k);
                t.peer_send(&wf::window_update(sid, n));
            }
            Ev::PeerRespond(k) => {
                let sid = sid_of(w, k);
                t.peer_response(sid, "200", false);
                let b = vec![w.peer_seq; 100];
                w.peer_seq += 1;
                t.peer_send(&wf::data(sid, &b, false));
                w.peer_sent[k].extend_from_slice(&b);
                w.peer_responded[k] = true;
            }
            Ev::PeerDataEos(k) => {
                let sid = sid_of(w, k);
                let b = vec![w.peer_seq; 30];
                w.peer_seq += 1;
                t.peer_send(&wf::data(sid, &b, true));
                w.peer_sent[k].extend_from_slice(&b);
                w.peer_ended[k] = true;
            }
            Ev::PeerRst(k) => {
                let sid = sid_of(w, k);
                t.peer_send(&wf::rst_stream(sid, 8));
                w.peer_rst[k] = true;
            }
            Ev::PeerPong => {
                let pings: Vec<[u8; 8]> = t.subject_frames().iter().filter_map(|f| if let Ok(Parsed::Ping { ack: false, payload }) = &f.parsed { Some(*payload) } else { None }).collect();
                t.peer_send(&wf::ping(pings[w.pongs], true));
                w.pongs += 1;
            }
            Ev::Drive => {
                let n = w.injected.lock().unwrap().len();
                w.armed.store(n < self.max_injections, Ordering::SeqCst);
                t.drive(200);
                w.armed.store(false, Ordering::SeqCst);
            }
            Ev::DriveBudget(b) => {
                let n = w.injected.lock().unwrap().len();
                w.armed.store(n < self.max_injections, Ordering::SeqCst);
                t.sh.lock().unwrap().set_write_budget(t.role, Some(b));
                t.drive(200);
                t.sh.lock().unwrap().set_write_budget(t.role, None);
                w.armed.store(false, Ordering::SeqCst);
            }
        }
        t.catch_up();
    }
    fn invariant(&self, t: &mut T2, w: &mut World) -> V3 {
        let mut v = vec![];
        t.catch_up();
        let (snap, dead) = {
            let h = w.helper.lock().unwrap();
            (h.snap.clone(), h.dead.clone())
        };
        let inj = w.injected.lock().unwrap().clone();
        let ctx = if inj.is_empty() { String::new() } else { format!(" (operations on the second thread inside the connection's poll: {:?})", inj) };
        if let Some(d) = dead {
            v.push(("C20.deadlock".to_string(), d.split(' ').next().unwrap_or("").chars().filter(|c| c.is_alphabetic()).collect(), format!("{}{}", d, ctx)));
        }
        for p in &snap.panics {
            if !t.panics.contains(p) {
                t.panics.push(p.clone());
            }
        }
        w.acct.update(&t.mon);
        for x in w.acct.violations.drain(..) {
            v.push(("C20.flow-control".into(), x.chars().filter(|c| !c.is_ascii_digit()).take(60).collect(), format!("{}{}", x, ctx)));
        }
        w.life.update(&t.mon);
        for x in w.life.violations.drain(..) {
            v.push(("C20.stream-lifecycle".into(), x.chars().filter(|c| !c.is_ascii_digit()).take(60).collect(), format!("{}{}", x, ctx)));
        }
        for (k, r) in snap.reqs.iter().enumerate() {
            // the octets on the wire are a prefix of what send_data accepted, in the order of the calls
            let wire = wire_data(t, r.sid, true);
            if wire.len() > r.accepted.len() || wire[..] != r.accepted[..wire.len()] {
                let pos = wire.iter().zip(r.accepted.iter()).position(|(a, b)| a != b).unwrap_or(r.accepted.len().min(wire.len()));
                v.push(("C20.sent-data-not-sequential".into(), if wire.len() > r.accepted.len() { "more-than-accepted".into() } else { "order".into() }, format!("stream {}: {} octets of DATA are on the wire, send_data accepted {}; first difference at offset {}{}", r.sid, wire.len(), r.accepted.len(), pos, ctx)));
            }
            // what the application read is a prefix of what the peer sent
            let sent = &w.peer_sent[k.min(2)];
            if r.received.len() > sent.len() || r.received[..] != sent[..r.received.len()] {
                v.push(("C20.received-data-not-sequential".into(), "order".into(), format!("stream {}: the application read {} octets that are not a prefix of the {} octets the peer sent{}", r.sid, r.received.len(), sent.len(), ctx)));
            }
            if r.recv_done.as_deref() == Some("end") && r.received.len() != sent.len() && !w.peer_rst[k.min(2)] {
                v.push(("C20.received-data-not-sequential".into(), "short".into(), format!("stream {}: clean end of body after {} of {} octets{}", r.sid, r.received.len(), sent.len(), ctx)));
            }
        }
        // receive windows as the peer sees them never exceed their configured sizes
        let pv = crate::c03::peer_view(t);
        if pv.v0() > 65535 {
            v.push(("C20.receive-window-over-credited".into(), "connection".into(), format!("the peer sees a connection window of {}{}", pv.v0(), ctx)));
        }
        for r in &snap.reqs {
            if pv.vs(r.sid) > pv.acked_initial {
                v.push(("C20.receive-window-over-credited".into(), "stream".into(), format!("the peer sees a window of {} on stream {} (initial {}){}", pv.vs(r.sid), r.sid, pv.acked_initial, ctx)));
            }
        }
        v
    }
    fn epilogue(&self, t: &mut T2, w: &mut World) -> V3 {
        let mut v = vec![];
        if !t.conn_alive() || w.helper.lock().unwrap().dead.is_some() || t.goaway_sent().is_some() {
            return v;
        }
        w.armed.store(false, Ordering::SeqCst);
        // the peer opens every window wide, the application finishes every stream it can still finish
        t.drive(200);
        t.peer_send(&wf::window_update(0, 1 << 20));
        let snap = w.helper.lock().unwrap().snap.clone();
        for (k, r) in snap.reqs.iter().enumerate() {
            let on_wire = t.subject_frames().iter().any(|f| matches!(&f.parsed, Ok(Parsed::Headers { sid, .. }) if *sid == r.sid));
            if on_wire && !w.peer_rst[k.min(2)] {
                t.peer_send(&wf::window_update(r.sid, 1 << 20));
            }
        }
        t.drive(300);
        for (k, r) in snap.reqs.iter().enumerate() {
            if r.has_ss && !r.eos && !r.reset {
                w.helper.lock().unwrap().call(Op::SendData(k, 5, true));
            }
        }
        t.drive(300);
        if w.helper.lock().unwrap().snap.ping == 1 {
            let pings: Vec<[u8; 8]> = t.subject_frames().iter().filter_map(|f| if let Ok(Parsed::Ping { ack: false, payload }) = &f.parsed { Some(*payload) } else { None }).collect();
            while w.pongs < pings.len() {
                t.peer_send(&wf::ping(pings[w.pongs], true));
                w.pongs += 1;
            }
            t.drive(100);
            w.helper.lock().unwrap().call(Op::PollPong);
        }
        t.catch_up();
        v.extend(self.invariant(t, w));
        if !t.panics.is_empty() || !t.conn_alive() || t.goaway_sent().is_some() {
            return v;
        }
        let inj = w.injected.lock().unwrap().clone();
        let ctx = if inj.is_empty() { String::new() } else { format!(" (operations on the second thread inside the connection's poll: {:?})", inj) };
        let snap = w.helper.lock().unwrap().snap.clone();
        for (k, r) in snap.reqs.iter().enumerate() {
            let peer_rst = w.peer_rst[k.min(2)];
            let wire = wire_data(t, r.sid, true);
            let rst_sent = !t.rst_sent(r.sid).is_empty();
            if r.reset || peer_rst || rst_sent || !r.has_ss && !r.eos {
                continue;
            }
            let on_wire = t.subject_frames().iter().any(|f| matches!(&f.parsed, Ok(Parsed::Headers { sid, .. }) if *sid == r.sid));
            if !on_wire {
                continue; // parked behind the concurrency limit: not this property
            }
            if wire.len() != r.accepted.len() {
                v.push(("C20.sent-data-lost".into(), "short".into(), format!("stream {}: windows are wide open and everything is quiescent, yet only {} of the {} octets send_data accepted are on the wire{}", r.sid, wire.len(), r.accepted.len(), ctx)));
            } else if r.eos && !wire_eos(t, r.sid) {
                v.push(("C20.sent-data-lost".into(), "end-stream".into(), format!("stream {}: END_STREAM was submitted but never written{}", r.sid, ctx)));
            }
        }
        // nothing is left behind in the send buffer once every stream has ended or been reset and all is written
        let all_finished = snap.reqs.iter().all(|r| r.eos || r.reset || !r.has_ss);
        if std::env::var("VERIF_C20_DEBUG").is_ok() {
            if let Conn::Client(c) = &t.conn {
                let s = c.verif_snapshot();
                eprintln!("C20 debug: injected={:?}", inj);
                eprintln!("C20 debug: all_finished={} send_buffered={} recv_buffered={} streams={:?}", all_finished, s.send_buffered, s.recv_buffered, s.streams);
            }
        }
        if all_finished {
            if let Conn::Client(c) = &t.conn {
                let s = c.verif_snapshot();
                if s.send_buffered > 0 {
                    v.push(("C20.send-buffer-leak".into(), "frames".into(), format!("every stream has ended or was reset, windows are wide open, the connection is quiescent: {} frames are still held in the send buffer{}", s.send_buffered, ctx)));
                }
            }
        }
        if snap.ping == 1 && snap.ping_err.is_none() {
            v.push(("C20.ping-lost".into(), "pong".into(), format!("a user ping is outstanding, the peer has acknowledged every PING it saw, poll_pong is still Pending{}", ctx)));
        }
        v
    }
    fn digest_extra(&self, t: &T2, w: &World) -> String {
        let h = w.helper.lock().unwrap();
        let s = &h.snap;
        let mut out = format!("ping={} sr={} inj={} pongs={}", s.ping, s.sr_alive, w.injected.lock().unwrap().len(), w.pongs);
        for (k, r) in s.reqs.iter().enumerate() {
            out.push_str(&format!(
                "|{}:rf={} ss={} body={} acc={} eos={} reset={} recv={} done={:?} resp={:?} wire={} peer={}/{}/{}/{}",
                r.sid,
                r.has_rf,
                r.has_ss,
                r.has_body,
                r.accepted.len(),
                r.eos,
                r.reset,
                r.received.len(),
                r.recv_done,
                r.response,
                wire_data(t, r.sid, true).len(),
                w.peer_sent[k.min(2)].len(),
                w.peer_responded[k.min(2)],
                w.peer_ended[k.min(2)],
                w.peer_rst[k.min(2)]
            ));
        }
        out
    }
    fn teardown(&self, mut t: T2, w: World) -> Vec<String> {
        t.sh.lock().unwrap().hook = None;
        let mut panics = std::mem::take(&mut t.panics);
        {
            let mut h = w.helper.lock().unwrap();
            if h.dead.is_none() {
                h.call(Op::Quit);
                for p in &h.snap.panics {
                    if !panics.contains(p) {
                        panics.push(p.clone());
                    }
                }
            } else {
                // the helper is stuck inside h2 holding who knows what: dropping the connection here could block as well
                std::mem::forget(std::mem::replace(&mut t.conn, Conn::Gone));
            }
        }
        t.panics = panics;
        t.finish()
    }
    fn counters(&self, _t: &T2, w: &World) -> Vec<(&'static str, u64)> {
        let inj = w.injected.lock().unwrap();
        vec![
            ("operations_on_second_thread", w.helper.lock().unwrap().ops),
            ("operations_inside_connection_poll", inj.len() as u64),
            ("injected_during_write", inj.iter().filter(|s| s.contains("during write")).count() as u64),
            ("injected_during_flush", inj.iter().filter(|s| s.contains("during flush")).count() as u64),
            ("injected_during_read", inj.iter().filter(|s| s.contains("during read")).count() as u64),
        ]
    }
}

// ---------------------------------------------------------------------------------------------
// the end of an idle client connection, with the last handles dropped on the second thread - also inside the poll

#[derive(Clone, Debug)]
pub enum IEv {
    App(Op),
    PeerRespondEos(usize),
    Drive,
}

/// One SendRequest, up to two body-less requests; the peer answers with a complete response. Handles are polled, read and
/// dropped on the second thread between polls or - at most `max_injections` times - at a transport callback inside the
/// connection's poll. Oracle (epilogue, from every state): whatever is still held is dropped (between polls), what the peer
/// still owes is sent, and then - with no further input - the connection must send GOAWAY(NO_ERROR), shut down and
/// complete with Ok: the guarantee of C19, under C20's interleavings.
pub struct IdleModel {
    pub events: Vec<IEv>,
    pub inject_menu: Vec<Op>,
    pub name: &'static str,
    pub max_injections: usize,
    /// start from an exchange that is complete on the wire with the response future resolved (SendStream, RecvStream held)
    pub mid: bool,
}

impl IdleModel {
    pub fn new(name: &'static str, mid: bool) -> IdleModel {
        let mut ev = vec![IEv::App(Op::NewGet)];
        let mut menu = vec![];
        for k in 0..2 {
            for op in [Op::PollResponse(k), Op::ReadBody(k), Op::DropBody(k), Op::DropSend(k), Op::DropResponse(k)] {
                ev.push(IEv::App(op.clone()));
                menu.push(op);
            }
            ev.push(IEv::PeerRespondEos(k));
        }
        ev.push(IEv::App(Op::DropSendRequest));
        menu.push(Op::DropSendRequest);
        ev.push(IEv::Drive);
        IdleModel { events: ev, inject_menu: menu, name, max_injections: 2, mid }
    }
}

fn idle_op_enabled(s: &Snap, op: &Op) -> bool {
    match op {
        Op::NewGet => s.sr_alive && s.reqs.len() < 2,
        _ => op_enabled(s, op),
    }
}

impl Model for IdleModel {
    type World = World;
    fn name(&self) -> &'static str {
        self.name
    }
    fn cfg(&self) -> T2Cfg {
        T2Cfg { role: Side::Client, peer_settings: vec![], client: Some(client::Builder::new()), server: None, policy: IoPolicy::default() }
    }
    fn init(&self, t: &mut T2) -> World {
        let sr = t.send_request.take().unwrap();
        let mut hc = HelperClient::spawn(sr, None);
        if self.mid {
            hc.call(Op::NewGet);
        }
        let helper = Arc::new(Mutex::new(hc));
        let armed = Arc::new(AtomicBool::new(false));
        let injected = Arc::new(Mutex::new(vec![]));
        install_hook(t, &helper, &armed, &injected, self.inject_menu.clone());
        t.drive(50);
        let mut w = World { helper, armed, injected, acct: FlowAcct::new(Side::Client), life: Lifecycle::new(Side::Client), peer_sent: vec![vec![]; 3], peer_seq: 101, peer_responded: vec![false; 3], peer_ended: vec![false; 3], peer_rst: vec![false; 3], pongs: 0 };
        if self.mid {
            let e = self.events.iter().position(|e| matches!(e, IEv::PeerRespondEos(0))).unwrap();
            self.apply(t, &mut w, e);
            t.drive(50);
            w.helper.lock().unwrap().call(Op::PollResponse(0));
        }
        w
    }
    fn n_events(&self) -> usize {
        self.events.len()
    }
    fn event_name(&self, e: usize) -> String {
        format!("{:?}", self.events[e])
    }
    fn enabled(&self, t: &T2, w: &World, e: usize) -> bool {
        let h = w.helper.lock().unwrap();
        if h.dead.is_some() || !t.conn_alive() {
            return false;
        }
        let s = &h.snap;
        let on_wire = |k: usize| s.reqs.get(k).map(|r| t.subject_frames().iter().any(|f| matches!(&f.parsed, Ok(Parsed::Headers { sid, .. }) if *sid == r.sid))).unwrap_or(false);
        match &self.events[e] {
            IEv::App(op) => idle_op_enabled(s, op),
            IEv::PeerRespondEos(k) => on_wire(*k) && !w.peer_responded[*k] && t.rst_sent(s.reqs[*k].sid).is_empty(),
            IEv::Drive => true,
        }
    }
    fn apply(&self, t: &mut T2, w: &mut World, e: usize) {
        match self.events[e].clone() {
            IEv::App(op) => {
                w.helper.lock().unwrap().call(op);
                t.events += 1;
            }
            IEv::PeerRespondEos(k) => {
                let sid = w.helper.lock().unwrap().snap.reqs[k].sid;
                t.peer_response(sid, "200", false);
                let b = vec![w.peer_seq; 30];
                w.peer_seq += 1;
                t.peer_send(&wf::data(sid, &b, true));
                w.peer_sent[k].extend_from_slice(&b);
                w.peer_responded[k] = true;
                w.peer_ended[k] = true;
            }
            IEv::Drive => {
                let n = w.injected.lock().unwrap().len();
                w.armed.store(n < self.max_injections, Ordering::SeqCst);
                t.drive(200);
                w.armed.store(false, Ordering::SeqCst);
            }
        }
        t.catch_up();
    }
    fn invariant(&self, t: &mut T2, w: &mut World) -> V3 {
        let mut v = vec![];
        t.catch_up();
        let (snap, dead) = {
            let h = w.helper.lock().unwrap();
            (h.snap.clone(), h.dead.clone())
        };
        let inj = w.injected.lock().unwrap().clone();
        let ctx = if inj.is_empty() { String::new() } else { format!(" (operations on the second thread inside the connection's poll: {:?})", inj) };
        if let Some(d) = dead {
            v.push(("C20.deadlock".to_string(), d.split(' ').next().unwrap_or("").chars().filter(|c| c.is_alphabetic()).collect(), format!("{}{}", d, ctx)));
        }
        for p in &snap.panics {
            if !t.panics.contains(p) {
                t.panics.push(p.clone());
            }
        }
        w.life.update(&t.mon);
        for x in w.life.violations.drain(..) {
            v.push(("C20.stream-lifecycle".into(), x.chars().filter(|c| !c.is_ascii_digit()).take(60).collect(), format!("{}{}", x, ctx)));
        }
        for (k, r) in snap.reqs.iter().enumerate() {
            let sent = &w.peer_sent[k.min(2)];
            if r.received.len() > sent.len() || r.received[..] != sent[..r.received.len()] {
                v.push(("C20.received-data-not-sequential".into(), "order".into(), format!("stream {}: the application read {} octets that are not a prefix of the {} octets the peer sent{}", r.sid, r.received.len(), sent.len(), ctx)));
            }
        }
        v
    }
    fn epilogue(&self, t: &mut T2, w: &mut World) -> V3 {
        let mut v = vec![];
        if !t.conn_alive() && t.conn_result.as_deref() != Some("ok") || w.helper.lock().unwrap().dead.is_some() {
            return v;
        }
        w.armed.store(false, Ordering::SeqCst);
        t.drive(300);
        // the peer answers what it has not answered, the application lets go of everything (between polls)
        let snap = w.helper.lock().unwrap().snap.clone();
        for (k, r) in snap.reqs.iter().enumerate() {
            let on_wire = t.subject_frames().iter().any(|f| matches!(&f.parsed, Ok(Parsed::Headers { sid, .. }) if *sid == r.sid));
            if on_wire && !w.peer_responded[k] && t.rst_sent(r.sid).is_empty() && t.conn_alive() {
                let e = self.events.iter().position(|e| matches!(e, IEv::PeerRespondEos(kk) if *kk == k)).unwrap();
                self.apply(t, w, e);
            }
        }
        t.drive(300);
        for (k, r) in snap.reqs.iter().enumerate() {
            for op in [Op::DropResponse(k), Op::DropSend(k), Op::DropBody(k)] {
                let _ = r;
                let enabled = op_enabled(&w.helper.lock().unwrap().snap, &op);
                if enabled {
                    w.helper.lock().unwrap().call(op);
                }
            }
        }
        if w.helper.lock().unwrap().snap.sr_alive {
            w.helper.lock().unwrap().call(Op::DropSendRequest);
        }
        t.drive(300);
        t.catch_up();
        v.extend(self.invariant(t, w));
        if !t.panics.is_empty() {
            return v;
        }
        let inj = w.injected.lock().unwrap().clone();
        let ctx = if inj.is_empty() { String::new() } else { format!(" (operations on the second thread inside the connection's poll: {:?})", inj) };
        match &t.conn_result {
            Some(r) if r == "ok" => {
                if !matches!(t.goaway_sent(), Some((_, 0))) {
                    v.push(("C20.idle-close".into(), "no-goaway".into(), format!("the idle client connection completed without GOAWAY(NO_ERROR): last GOAWAY {:?}{}", t.goaway_sent(), ctx)));
                }
            }
            other => {
                v.push(("C20.idle-close".into(), "not-closed".into(), format!("every handle is dropped and every stream has ended, nothing more will arrive, yet the connection future has not completed successfully (result {:?}, woken: {}){}", other, t.conn_flag.is_set(), ctx)));
            }
        }
        v
    }
    fn digest_extra(&self, _t: &T2, w: &World) -> String {
        let h = w.helper.lock().unwrap();
        let s = &h.snap;
        let mut out = format!("sr={} inj={}", s.sr_alive, w.injected.lock().unwrap().len());
        for (k, r) in s.reqs.iter().enumerate() {
            out.push_str(&format!("|{}:rf={} ss={} body={} recv={} done={:?} resp={:?} peer={}", r.sid, r.has_rf, r.has_ss, r.has_body, r.received.len(), r.recv_done, r.response, w.peer_responded[k.min(2)]));
        }
        out
    }
    fn teardown(&self, mut t: T2, w: World) -> Vec<String> {
        t.sh.lock().unwrap().hook = None;
        let mut panics = std::mem::take(&mut t.panics);
        {
            let mut h = w.helper.lock().unwrap();
            if h.dead.is_none() {
                h.call(Op::Quit);
                for p in &h.snap.panics {
                    if !panics.contains(p) {
                        panics.push(p.clone());
                    }
                }
            } else {
                std::mem::forget(std::mem::replace(&mut t.conn, Conn::Gone));
            }
        }
        t.panics = panics;
        t.finish()
    }
    fn counters(&self, _t: &T2, w: &World) -> Vec<(&'static str, u64)> {
        let inj = w.injected.lock().unwrap();
        vec![
            ("operations_on_second_thread", w.helper.lock().unwrap().ops),
            ("operations_inside_connection_poll", inj.len() as u64),
            ("last_handle_dropped_inside_connection_poll", inj.iter().filter(|s| s.starts_with("DropSendRequest")).count() as u64),
            ("injected_during_write", inj.iter().filter(|s| s.contains("during write")).count() as u64),
            ("injected_during_flush", inj.iter().filter(|s| s.contains("during flush")).count() as u64),
            ("injected_during_read", inj.iter().filter(|s| s.contains("during read")).count() as u64),
        ]
    }
}

// ---------------------------------------------------------------------------------------------
// server side: SendResponse / RecvStream / SendStream of accepted streams live on the second thread

#[derive(Clone, Debug, PartialEq)]
pub enum SOp {
    Respond(usize, bool),
    SendData(usize, usize, bool),
    SendReset(usize),
    Push(usize),
    ReadBody(usize),
    DropBody(usize),
    DropRespond(usize),
    DropSend(usize),
    Quit,
}

#[derive(Clone, Default, Debug)]
pub struct SReqSnap {
    pub sid: u32,
    pub has_respond: bool,
    pub has_send: bool,
    pub has_body: bool,
    pub accepted: Vec<u8>,
    pub eos: bool,
    pub reset: bool,
    pub received: Vec<u8>,
    pub recv_done: Option<String>,
    pub pushes: usize,
}

#[derive(Clone, Default, Debug)]
pub struct SSnap {
    pub reqs: Vec<SReqSnap>,
    pub last: String,
    pub panics: Vec<String>,
}

struct SHReq {
    respond: Option<h2::server::SendResponse<Bytes>>,
    send: Option<SendStream<Bytes>>,
    body: Option<RecvStream>,
    snap: SReqSnap,
}

enum SMsg {
    Adopt(u32, Option<h2::server::SendResponse<Bytes>>, Option<RecvStream>),
    Do(SOp),
}

struct SHelper {
    reqs: Vec<SHReq>,
    seq: u8,
    panics: Vec<String>,
    flag: Arc<Flag>,
}

impl SHelper {
    fn snap(&self, last: String) -> SSnap {
        SSnap { reqs: self.reqs.iter().map(|r| r.snap.clone()).collect(), last, panics: self.panics.clone() }
    }
    fn exec(&mut self, op: &SOp) -> String {
        let wk = waker_of(&self.flag);
        let mut cx = Context::from_waker(&wk);
        let mut panics = vec![];
        let out: String = match op.clone() {
            SOp::Respond(k, eos) => {
                let Some(r) = self.reqs.get_mut(k) else { return "n/a".into() };
                let Some(mut resp) = r.respond.take() else { return "n/a".into() };
                r.snap.has_respond = false;
                match guarded(&mut panics, "send_response", || resp.send_response(simple_response(200), eos)) {
                    Some(Ok(ss)) => {
                        if eos {
                            r.snap.eos = true;
                            safe_drop(&mut panics, "SendStream", Some(ss));
                        } else {
                            r.send = Some(ss);
                            r.snap.has_send = true;
                        }
                        "responded".into()
                    }
                    Some(Err(e)) => format!("send_response: {}", crate::scen::err_text(&e)),
                    None => "panic".into(),
                }
            }
            SOp::SendData(k, n, eos) => {
                let seq = self.seq;
                let Some(r) = self.reqs.get_mut(k) else { return "n/a".into() };
                let Some(ss) = r.send.as_mut() else { return "n/a".into() };
                self.seq = self.seq.wrapping_add(1);
                match guarded(&mut panics, "send_data", || ss.send_data(Bytes::from(vec![seq; n]), eos)) {
                    Some(Ok(())) => {
                        r.snap.accepted.extend(std::iter::repeat(seq).take(n));
                        if eos {
                            r.snap.eos = true;
                        }
                        "ok".into()
                    }
                    Some(Err(e)) => format!("send_data: {}", e),
                    None => "panic".into(),
                }
            }
            SOp::SendReset(k) => {
                let Some(r) = self.reqs.get_mut(k) else { return "n/a".into() };
                if let Some(ss) = r.send.as_mut() {
                    guarded(&mut panics, "send_reset", || ss.send_reset(h2::Reason::CANCEL));
                } else if let Some(resp) = r.respond.as_mut() {
                    guarded(&mut panics, "send_reset", || resp.send_reset(h2::Reason::CANCEL));
                } else {
                    return "n/a".into();
                }
                r.snap.reset = true;
                "reset".into()
            }
            SOp::Push(k) => {
                let Some(r) = self.reqs.get_mut(k) else { return "n/a".into() };
                let Some(resp) = r.respond.as_mut() else { return "n/a".into() };
                r.snap.pushes += 1;
                match guarded(&mut panics, "push_request", || resp.push_request(simple_request("/pushed", false))) {
                    Some(Ok(mut p)) => {
                        let _ = guarded(&mut panics, "pushed send_response", || p.send_response(simple_response(200), true).map(drop));
                        "pushed".into()
                    }
                    Some(Err(e)) => format!("push_request: {}", crate::scen::err_text(&e)),
                    None => "panic".into(),
                }
            }
            SOp::ReadBody(k) => {
                let Some(r) = self.reqs.get_mut(k) else { return "n/a".into() };
                let Some(b) = r.body.as_mut() else { return "n/a".into() };
                let mut got = 0;
                loop {
                    match guarded(&mut panics, "poll_data", || b.poll_data(&mut cx)) {
                        Some(Poll::Ready(Some(Ok(d)))) => {
                            got += d.len();
                            r.snap.received.extend_from_slice(&d);
                            let _ = guarded(&mut panics, "release_capacity", || b.flow_control().release_capacity(d.len()));
                        }
                        Some(Poll::Ready(Some(Err(e)))) => {
                            r.snap.recv_done = Some(format!("err {}", crate::scen::err_text(&e)));
                            break;
                        }
                        Some(Poll::Ready(None)) => {
                            r.snap.recv_done = Some("end".into());
                            break;
                        }
                        _ => break,
                    }
                }
                format!("read {}", got)
            }
            SOp::DropBody(k) => {
                let Some(r) = self.reqs.get_mut(k) else { return "n/a".into() };
                safe_drop(&mut panics, "RecvStream", r.body.take());
                r.snap.has_body = false;
                "dropped".into()
            }
            SOp::DropRespond(k) => {
                let Some(r) = self.reqs.get_mut(k) else { return "n/a".into() };
                safe_drop(&mut panics, "SendResponse", r.respond.take());
                r.snap.has_respond = false;
                "dropped".into()
            }
            SOp::DropSend(k) => {
                let Some(r) = self.reqs.get_mut(k) else { return "n/a".into() };
                safe_drop(&mut panics, "SendStream", r.send.take());
                r.snap.has_send = false;
                "dropped".into()
            }
            SOp::Quit => {
                for r in self.reqs.iter_mut() {
                    safe_drop(&mut panics, "SendResponse", r.respond.take());
                    safe_drop(&mut panics, "SendStream", r.send.take());
                    safe_drop(&mut panics, "RecvStream", r.body.take());
                }
                "quit".into()
            }
        };
        self.panics.extend(panics);
        out
    }
}

pub struct SHelperClient {
    tx: Sender<SMsg>,
    rx: Receiver<SSnap>,
    pub snap: SSnap,
    pub dead: Option<String>,
    pub ops: u64,
}

impl SHelperClient {
    pub fn spawn() -> SHelperClient {
        let (tx, rx_op) = channel::<SMsg>();
        let (tx_res, rx) = channel::<SSnap>();
        std::thread::Builder::new()
            .name("c20-server-handles".into())
            .stack_size(512 * 1024)
            .spawn(move || {
                let mut h = SHelper { reqs: vec![], seq: 1, panics: vec![], flag: Flag::new(false) };
                while let Ok(msg) = rx_op.recv() {
                    let (last, quit) = match msg {
                        SMsg::Adopt(sid, respond, body) => {
                            let snap = SReqSnap { sid, has_respond: respond.is_some(), has_body: body.is_some(), ..Default::default() };
                            h.reqs.push(SHReq { respond, send: None, body, snap });
                            ("adopted".to_string(), false)
                        }
                        SMsg::Do(op) => {
                            let last = match catch_unwind(AssertUnwindSafe(|| h.exec(&op))) {
                                Ok(s) => s,
                                Err(p) => {
                                    h.panics.push(format!("{:?}: {}", op, crate::c11::panic_text(&p)));
                                    "panic".into()
                                }
                            };
                            (last, op == SOp::Quit)
                        }
                    };
                    if tx_res.send(h.snap(last)).is_err() || quit {
                        break;
                    }
                }
                std::mem::forget(h);
            })
            .expect("cannot spawn helper thread");
        SHelperClient { tx, rx, snap: SSnap::default(), dead: None, ops: 0 }
    }
    fn roundtrip(&mut self, msg: SMsg, what: String) -> bool {
        if self.dead.is_some() {
            return false;
        }
        if self.tx.send(msg).is_err() {
            self.dead = Some(format!("helper thread gone before {}", what));
            return false;
        }
        match self.rx.recv_timeout(Duration::from_millis(DEADLOCK_TIMEOUT_MS.load(Ordering::Relaxed))) {
            Ok(s) => {
                self.snap = s;
                true
            }
            Err(_) => {
                let n = DEADLOCKS.fetch_add(1, Ordering::SeqCst) + 1;
                if n >= 3 {
                    DEADLOCK_TIMEOUT_MS.store(400, Ordering::Relaxed);
                }
                self.dead = Some(format!("{} did not return within {} ms: blocked on one of the library's locks", what, DEADLOCK_TIMEOUT_MS.load(Ordering::Relaxed)));
                false
            }
        }
    }
    pub fn call(&mut self, op: SOp) -> bool {
        self.ops += 1;
        let what = format!("{:?}", op);
        self.roundtrip(SMsg::Do(op), what)
    }
    pub fn adopt(&mut self, sid: u32, respond: Option<h2::server::SendResponse<Bytes>>, body: Option<RecvStream>) -> bool {
        self.roundtrip(SMsg::Adopt(sid, respond, body), format!("adopt {}", sid))
    }
}

pub fn sop_enabled(s: &SSnap, op: &SOp) -> bool {
    let r = |k: &usize| s.reqs.get(*k);
    match op {
        SOp::Respond(k, _) => r(k).map(|r| r.has_respond && !r.reset).unwrap_or(false),
        SOp::SendData(k, _, _) => r(k).map(|r| r.has_send && !r.eos && !r.reset && r.accepted.len() < 6000).unwrap_or(false),
        SOp::SendReset(k) => r(k).map(|r| (r.has_send || r.has_respond) && !r.reset).unwrap_or(false),
        SOp::Push(k) => r(k).map(|r| r.has_respond && !r.reset && r.pushes < 1).unwrap_or(false),
        SOp::ReadBody(k) => r(k).map(|r| r.has_body && r.recv_done.is_none()).unwrap_or(false),
        SOp::DropBody(k) => r(k).map(|r| r.has_body).unwrap_or(false),
        SOp::DropRespond(k) => r(k).map(|r| r.has_respond).unwrap_or(false),
        SOp::DropSend(k) => r(k).map(|r| r.has_send).unwrap_or(false),
        SOp::Quit => false,
    }
}

#[derive(Clone, Debug)]
pub enum SEv2 {
    App(SOp),
    PeerOpen,
    PeerData(usize, bool),
    PeerRst(usize),
    PeerWuStream(usize, u32),
    Drive,
    DriveBudget(usize),
}

pub struct SWorld2 {
    pub helper: Arc<Mutex<SHelperClient>>,
    pub armed: Arc<AtomicBool>,
    pub injected: Arc<Mutex<Vec<String>>>,
    pub acct: FlowAcct,
    pub life: Lifecycle,
    pub opened: Vec<u32>,
    pub peer_sent: Vec<Vec<u8>>,
    pub peer_seq: u8,
    pub peer_ended: Vec<bool>,
    pub peer_rst: Vec<bool>,
    pub adopted: usize,
}

/// Real server; the peer opens up to two request streams (window 3000 for the responses); every accepted stream's handles
/// are moved to the second thread as soon as the connection has handed them out, and every operation on them runs there -
/// between polls or, once per Drive, inside the connection's poll at a transport callback.
pub struct ServerThreadModel {
    pub events: Vec<SEv2>,
    pub inject_menu: Vec<SOp>,
    pub name: &'static str,
    pub max_injections: usize,
}

impl ServerThreadModel {
    pub fn new(name: &'static str, quick: bool) -> ServerThreadModel {
        let mut ev = vec![SEv2::PeerOpen];
        let mut menu = vec![];
        for k in 0..2 {
            for op in [SOp::Respond(k, false), SOp::Respond(k, true), SOp::SendData(k, 1800, false), SOp::SendData(k, 5, true), SOp::SendReset(k), SOp::ReadBody(k)] {
                ev.push(SEv2::App(op.clone()));
                menu.push(op);
            }
            if k == 0 {
                ev.push(SEv2::App(SOp::Push(k)));
                menu.push(SOp::Push(k));
            }
            for op in [SOp::DropBody(k), SOp::DropRespond(k), SOp::DropSend(k)] {
                if !quick {
                    ev.push(SEv2::App(op.clone()));
                }
                menu.push(op);
            }
            ev.push(SEv2::PeerData(k, false));
            ev.push(SEv2::PeerData(k, true));
            ev.push(SEv2::PeerWuStream(k, 4000));
            if !quick {
                ev.push(SEv2::PeerRst(k));
            }
        }
        ev.push(SEv2::Drive);
        ev.push(SEv2::DriveBudget(1500));
        ServerThreadModel { events: ev, inject_menu: menu, name, max_injections: 2 }
    }
    /// handles the connection has handed out since the last look go to the second thread
    fn adopt_new(&self, t: &mut T2, w: &mut SWorld2) {
        while w.adopted < t.accepted.len() {
            let a = &mut t.accepted[w.adopted];
            let (sid, respond, body) = (a.sid, a.respond.take(), a.body.take());
            w.helper.lock().unwrap().adopt(sid, respond, body);
            w.adopted += 1;
        }
    }
}

impl Model for ServerThreadModel {
    type World = SWorld2;
    fn name(&self) -> &'static str {
        self.name
    }
    fn cfg(&self) -> T2Cfg {
        T2Cfg { role: Side::Server, peer_settings: vec![(wf::setting::INITIAL_WINDOW_SIZE, 3000)], client: None, server: Some(h2::server::Builder::new()), policy: IoPolicy::default() }
    }
    fn init(&self, t: &mut T2) -> SWorld2 {
        let helper = Arc::new(Mutex::new(SHelperClient::spawn()));
        let armed = Arc::new(AtomicBool::new(false));
        let injected = Arc::new(Mutex::new(vec![]));
        {
            let weak = Arc::downgrade(&t.sh);
            let helper = helper.clone();
            let armed = armed.clone();
            let injected = injected.clone();
            let menu = self.inject_menu.clone();
            let hook: Arc<dyn Fn(&'static str) + Send + Sync> = Arc::new(move |kind| {
                if !armed.load(Ordering::SeqCst) || DEADLOCKS.load(Ordering::SeqCst) >= 10 {
                    return;
                }
                let Some(sh) = weak.upgrade() else { return };
                let mut h = helper.lock().unwrap();
                if h.dead.is_some() {
                    return;
                }
                let enabled: Vec<&SOp> = menu.iter().filter(|o| sop_enabled(&h.snap, o)).collect();
                if enabled.is_empty() {
                    return;
                }
                let c = sh.lock().unwrap().chooser.choose(tag::APP, 1 + enabled.len(), true);
                if c == 0 {
                    return;
                }
                armed.store(false, Ordering::SeqCst);
                let op = enabled[c - 1].clone();
                let returned = h.call(op.clone());
                injected.lock().unwrap().push(format!("{:?} during {} -> {}", op, kind, if returned { h.snap.last.clone() } else { "never returned".to_string() }));
            });
            let mut s = t.sh.lock().unwrap();
            s.hook = Some(hook);
            s.hook_side = Side::Server;
        }
        t.drive(50);
        SWorld2 { helper, armed, injected, acct: FlowAcct::new(Side::Server), life: Lifecycle::new(Side::Server), opened: vec![], peer_sent: vec![vec![]; 2], peer_seq: 101, peer_ended: vec![false; 2], peer_rst: vec![false; 2], adopted: 0 }
    }
    fn n_events(&self) -> usize {
        self.events.len()
    }
    fn event_name(&self, e: usize) -> String {
        format!("{:?}", self.events[e])
    }
    fn enabled(&self, t: &T2, w: &SWorld2, e: usize) -> bool {
        let h = w.helper.lock().unwrap();
        if h.dead.is_some() || !t.conn_alive() {
            return false;
        }
        let pv = crate::c03::peer_view(t);
        match &self.events[e] {
            SEv2::App(op) => sop_enabled(&h.snap, op),
            SEv2::PeerOpen => w.opened.len() < 2,
            SEv2::PeerData(k, _) => w.opened.get(*k).map(|&sid| !w.peer_ended[*k] && !w.peer_rst[*k] && w.peer_sent[*k].len() < 400 && pv.vs(sid) >= 100 && pv.v0() >= 100).unwrap_or(false),
            SEv2::PeerRst(k) => w.opened.get(*k).is_some() && !w.peer_rst[*k],
            SEv2::PeerWuStream(k, _) => w.opened.get(*k).is_some() && !w.peer_rst[*k] && h.snap.reqs.get(*k).map(|r| !r.accepted.is_empty()).unwrap_or(false),
            SEv2::Drive | SEv2::DriveBudget(_) => true,
        }
    }
    fn apply(&self, t: &mut T2, w: &mut SWorld2, e: usize) {
        match self.events[e].clone() {
            SEv2::App(op) => {
                w.helper.lock().unwrap().call(op);
                t.events += 1;
            }
            SEv2::PeerOpen => {
                let sid = 1 + 2 * w.opened.len() as u32;
                t.peer_request(sid, "/t", false);
                w.opened.push(sid);
            }
            SEv2::PeerData(k, eos) => {
                let b = vec![w.peer_seq; 100];
                w.peer_seq += 1;
                t.peer_send(&wf::data(w.opened[k], &b, eos));
                w.peer_sent[k].extend_from_slice(&b);
                w.peer_ended[k] |= eos;
            }
            SEv2::PeerRst(k) => {
                t.peer_send(&wf::rst_stream(w.opened[k], 8));
                w.peer_rst[k] = true;
            }
            SEv2::PeerWuStream(k, n) => {
                t.peer_send(&wf::window_update(w.opened[k], n));
                t.peer_send(&wf::window_update(0, n));
            }
            SEv2::Drive => {
                let n = w.injected.lock().unwrap().len();
                w.armed.store(n < self.max_injections, Ordering::SeqCst);
                t.drive(200);
                w.armed.store(false, Ordering::SeqCst);
            }
            SEv2::DriveBudget(b) => {
                let n = w.injected.lock().unwrap().len();
                w.armed.store(n < self.max_injections, Ordering::SeqCst);
                t.sh.lock().unwrap().set_write_budget(t.role, Some(b));
                t.drive(200);
                t.sh.lock().unwrap().set_write_budget(t.role, None);
                w.armed.store(false, Ordering::SeqCst);
            }
        }
        t.catch_up();
        self.adopt_new(t, w);
    }
    fn invariant(&self, t: &mut T2, w: &mut SWorld2) -> V3 {
        let mut v = vec![];
        t.catch_up();
        let (snap, dead) = {
            let h = w.helper.lock().unwrap();
            (h.snap.clone(), h.dead.clone())
        };
        let inj = w.injected.lock().unwrap().clone();
        let ctx = if inj.is_empty() { String::new() } else { format!(" (operations on the second thread inside the connection's poll: {:?})", inj) };
        if let Some(d) = dead {
            v.push(("C20.deadlock".to_string(), d.split(' ').next().unwrap_or("").chars().filter(|c| c.is_alphabetic()).collect(), format!("{}{}", d, ctx)));
        }
        for p in &snap.panics {
            if !t.panics.contains(p) {
                t.panics.push(p.clone());
            }
        }
        w.acct.update(&t.mon);
        for x in w.acct.violations.drain(..) {
            v.push(("C20.flow-control".into(), x.chars().filter(|c| !c.is_ascii_digit()).take(60).collect(), format!("{}{}", x, ctx)));
        }
        w.life.update(&t.mon);
        for x in w.life.violations.drain(..) {
            v.push(("C20.stream-lifecycle".into(), x.chars().filter(|c| !c.is_ascii_digit()).take(60).collect(), format!("{}{}", x, ctx)));
        }
        for (k, r) in snap.reqs.iter().enumerate() {
            let wire = wire_data(t, r.sid, true);
            if wire.len() > r.accepted.len() || wire[..] != r.accepted[..wire.len()] {
                v.push(("C20.sent-data-not-sequential".into(), if wire.len() > r.accepted.len() { "more-than-accepted".into() } else { "order".into() }, format!("stream {}: {} octets of DATA are on the wire, send_data accepted {}{}", r.sid, wire.len(), r.accepted.len(), ctx)));
            }
            let idx = w.opened.iter().position(|&s| s == r.sid).unwrap_or(k).min(1);
            let sent = &w.peer_sent[idx];
            if r.received.len() > sent.len() || r.received[..] != sent[..r.received.len()] {
                v.push(("C20.received-data-not-sequential".into(), "order".into(), format!("stream {}: the application read {} octets that are not a prefix of the {} octets the peer sent{}", r.sid, r.received.len(), sent.len(), ctx)));
            }
            if r.recv_done.as_deref() == Some("end") && r.received.len() != sent.len() && !w.peer_rst[idx] {
                v.push(("C20.received-data-not-sequential".into(), "short".into(), format!("stream {}: clean end of body after {} of {} octets{}", r.sid, r.received.len(), sent.len(), ctx)));
            }
        }
        let pv = crate::c03::peer_view(t);
        if pv.v0() > 65535 {
            v.push(("C20.receive-window-over-credited".into(), "connection".into(), format!("the peer sees a connection window of {}{}", pv.v0(), ctx)));
        }
        v
    }
    fn epilogue(&self, t: &mut T2, w: &mut SWorld2) -> V3 {
        let mut v = vec![];
        if !t.conn_alive() || w.helper.lock().unwrap().dead.is_some() || t.goaway_sent().is_some() {
            return v;
        }
        w.armed.store(false, Ordering::SeqCst);
        t.drive(200);
        self.adopt_new(t, w);
        // windows wide open; the application answers and ends what it still can
        t.peer_send(&wf::window_update(0, 1 << 20));
        for (k, &sid) in w.opened.clone().iter().enumerate() {
            if !w.peer_rst[k] {
                t.peer_send(&wf::window_update(sid, 1 << 20));
            }
        }
        t.drive(300);
        let snap = w.helper.lock().unwrap().snap.clone();
        for (k, r) in snap.reqs.iter().enumerate() {
            if r.reset {
                continue;
            }
            if r.has_respond {
                w.helper.lock().unwrap().call(SOp::Respond(k, true));
            } else if r.has_send && !r.eos {
                w.helper.lock().unwrap().call(SOp::SendData(k, 5, true));
            }
        }
        t.drive(300);
        t.catch_up();
        v.extend(self.invariant(t, w));
        if !t.panics.is_empty() || !t.conn_alive() || t.goaway_sent().is_some() {
            return v;
        }
        let inj = w.injected.lock().unwrap().clone();
        let ctx = if inj.is_empty() { String::new() } else { format!(" (operations on the second thread inside the connection's poll: {:?})", inj) };
        let snap = w.helper.lock().unwrap().snap.clone();
        for r in snap.reqs.iter() {
            let idx = w.opened.iter().position(|&s| s == r.sid).unwrap_or(0).min(1);
            if r.reset || w.peer_rst[idx] || !t.rst_sent(r.sid).is_empty() || (!r.has_send && !r.eos) {
                continue;
            }
            let wire = wire_data(t, r.sid, true);
            if wire.len() != r.accepted.len() {
                v.push(("C20.sent-data-lost".into(), "short".into(), format!("stream {}: windows are wide open and everything is quiescent, yet only {} of the {} octets send_data accepted are on the wire{}", r.sid, wire.len(), r.accepted.len(), ctx)));
            } else if r.eos && !wire_eos(t, r.sid) {
                v.push(("C20.sent-data-lost".into(), "end-stream".into(), format!("stream {}: END_STREAM was submitted but never written{}", r.sid, ctx)));
            }
        }
        let all_finished = snap.reqs.iter().all(|r| r.eos || r.reset || (!r.has_send && !r.has_respond));
        if all_finished {
            if let Conn::Server(c) = &t.conn {
                let s = c.verif_snapshot();
                if s.send_buffered > 0 {
                    v.push(("C20.send-buffer-leak".into(), "frames".into(), format!("every stream has ended or was reset, windows are wide open, the connection is quiescent: {} frames are still held in the send buffer{}", s.send_buffered, ctx)));
                }
            }
        }
        v
    }
    fn digest_extra(&self, t: &T2, w: &SWorld2) -> String {
        let h = w.helper.lock().unwrap();
        let mut out = format!("inj={} opened={:?}", w.injected.lock().unwrap().len(), w.opened);
        for (k, r) in h.snap.reqs.iter().enumerate() {
            out.push_str(&format!("|{}:resp={} send={} body={} acc={} eos={} reset={} recv={} done={:?} pushes={} wire={} peer={}/{}/{}", r.sid, r.has_respond, r.has_send, r.has_body, r.accepted.len(), r.eos, r.reset, r.received.len(), r.recv_done, r.pushes, wire_data(t, r.sid, true).len(), w.peer_sent[k.min(1)].len(), w.peer_ended[k.min(1)], w.peer_rst[k.min(1)]));
        }
        out
    }
    fn teardown(&self, mut t: T2, w: SWorld2) -> Vec<String> {
        t.sh.lock().unwrap().hook = None;
        let mut panics = std::mem::take(&mut t.panics);
        {
            let mut h = w.helper.lock().unwrap();
            if h.dead.is_none() {
                h.call(SOp::Quit);
                for p in &h.snap.panics {
                    if !panics.contains(p) {
                        panics.push(p.clone());
                    }
                }
            } else {
                std::mem::forget(std::mem::replace(&mut t.conn, Conn::Gone));
            }
        }
        t.panics = panics;
        t.finish()
    }
    fn counters(&self, _t: &T2, w: &SWorld2) -> Vec<(&'static str, u64)> {
        let inj = w.injected.lock().unwrap();
        vec![
            ("operations_on_second_thread", w.helper.lock().unwrap().ops),
            ("operations_inside_connection_poll", inj.len() as u64),
            ("server_handles_moved_to_second_thread", w.adopted as u64),
        ]
    }
}

/// runs the loom models over the real ping_pong.rs in a child process each (a failing loom model panics, possibly twice)
/// loom over the real ping_pong.rs. `prop` "C07" runs the models about the end of the connection ("end-*"), "C20" all of them.
pub fn run_pingloom(out: &mut Outcome, quick: bool, prop: &str) -> Vec<Violation> {
    let mut vios = vec![];
    let dir = "/verif/pingloom";
    let build = std::process::Command::new("cargo").args(["build", "--release", "--offline"]).current_dir(dir).env("CARGO_NET_OFFLINE", "true").output();
    match build {
        Ok(o) if o.status.success() => {}
        Ok(o) => {
            out.machinery_errors.push(format!("pingloom does not build: {}", String::from_utf8_lossy(&o.stderr).lines().rev().take(8).collect::<Vec<_>>().join(" | ")));
            return vios;
        }
        Err(e) => {
            out.machinery_errors.push(format!("cannot run cargo for pingloom: {}", e));
            return vios;
        }
    }
    let bin = format!("{}/target/release/pingloom", dir);
    let list = std::process::Command::new(&bin).arg("list").output().map(|o| String::from_utf8_lossy(&o.stdout).to_string()).unwrap_or_default();
    let mut report = vec![];
    let mut total = 0u64;
    for m in list.lines().filter(|l| !l.is_empty() && (prop == "C20" || l.starts_with("end-"))) {
        let o = std::process::Command::new("timeout").args([if quick { "30" } else { "600" }, &bin, "run", m]).env("RUST_BACKTRACE", "0").output();
        match o {
            Ok(o) => {
                let so = String::from_utf8_lossy(&o.stdout).to_string();
                let se = String::from_utf8_lossy(&o.stderr).to_string();
                if o.status.success() {
                    let it: u64 = so.split("iterations=").nth(1).and_then(|s| s.split_whitespace().next()).and_then(|s| s.parse().ok()).unwrap_or(0);
                    total += it;
                    report.push(json!({"model": m, "interleavings": it, "result": "ok"}));
                } else if o.status.code() == Some(124) {
                    out.machinery_errors.push(format!("loom model {} did not finish in time", m));
                } else {
                    let msg = se.lines().skip_while(|l| !l.contains("panicked at")).nth(1).unwrap_or("loom model failed").to_string();
                    report.push(json!({"model": m, "result": "violated", "message": msg}));
                    vios.push(Violation { rule: format!("{}.ping-state-machine", prop), signature: m.to_string(), what: format!("loom model '{}' over the real src/proto/ping_pong.rs: {}", m, msg), replay: json!({"harness": "pingloom", "model": m}) });
                }
            }
            Err(e) => out.machinery_errors.push(format!("cannot run pingloom {}: {}", m, e)),
        }
    }
    out.harness("pingloom (loom, all interleavings, real src/proto/ping_pong.rs)", json!(report));
    out.add_count("evaluations", total);
    out.add_count("traces_validated_against_impl", total);
    // (a model that fails stops at its first failing interleaving and reports no count)
    out.guard_nonzero("loom models run", report.len() as u64);
    if vios.is_empty() {
        out.guard_nonzero("loom interleavings", total);
    }
    vios
}

pub fn run(ctx: &Ctx) -> Outcome {
    let mut out = Outcome::default();
    let quick = ctx.tier.is_quick();
    let m = ThreadModel::new(if quick { "threads-q" } else { "threads-t" }, quick, false);
    let m2 = ThreadModel::new(if quick { "threads-mid-q" } else { "threads-mid-t" }, quick, true);
    // quick: explicit, machine-independent depths (every step crosses to the second OS thread and back: ~1 ms each)
    let maxd = if quick { 3 } else { 9 };
    let rep = search(ctx, &m, "C20", maxd, ctx.tier.budget_s() * 0.28, true);
    let rep2 = search(ctx, &m2, "C20", if quick { 2 } else { maxd }, ctx.tier.budget_s() * 0.55, true);
    let m3 = IdleModel::new("threads-idle", false);
    let m4 = IdleModel::new("threads-idle-mid", true);
    let rep3 = search(ctx, &m3, "C20", if quick { 7 } else { 12 }, ctx.tier.budget_s() * 0.7, true);
    let rep4 = search(ctx, &m4, "C20", if quick { 6 } else { 12 }, ctx.tier.budget_s() * 0.8, true);
    let m5 = ServerThreadModel::new(if quick { "threads-server-q" } else { "threads-server-t" }, quick);
    let rep5 = search(ctx, &m5, "C20", if quick { 6 } else { 10 }, ctx.tier.budget_s() * 0.95, true);
    fill_outcome(&mut out, &[(m.name, &rep), (m2.name, &rep2), (m3.name, &rep3), (m4.name, &rep4), (m5.name, &rep5)]);
    out.set("exhaustive", json!(false));
    out.set("alphabet", json!({"events": m.events.iter().map(|e| format!("{:?}", e)).collect::<Vec<_>>(), "operations_injected_inside_poll": m.inject_menu.iter().map(|e| format!("{:?}", e)).collect::<Vec<_>>()}));
    out.set("rule", json!("X4 = explicit-state search (X2) on T2 with a second OS thread: the real client's SendRequest, SendStream, ResponseFuture, RecvStream (with its flow-control handle) and PingPong handles live on a helper thread and every operation on them runs there while the connection is polled on the main thread; a baton makes the interleaving a choice. Besides operations between polls, during every Drive event one operation of the menu may run at any transport callback (write / flush / read) inside Connection::poll - the points where the connection task has dropped its internal locks around I/O, including the window between staging a DATA frame and reclaiming its unwritten rest after a partial write (DriveBudget). At most 2 such injections per execution. Invariants in every state: no panic, no operation blocked on a library lock (4 s watchdog = deadlock), DATA on the wire is a prefix of what send_data accepted in call order, what the application reads is a prefix of what the peer sent, flow-control (C02 accountant) and stream life-cycle (C04 automaton) monitors on the wire, receive windows never over-credited. Epilogue from every new state: windows opened wide, streams finished, quiescence: every accepted octet and END_STREAM is on the wire, an outstanding user ping completes. Plus loom over the real ping_pong.rs (see harness pingloom)"));
    out.add_sample(json!({"harness": format!("x2.{}", m.name), "depth": 2, "choices": [1, 25]}));
    let mut vs = VioSet::default();
    vs.merge(rep.agg.vios);
    vs.merge(rep2.agg.vios);
    vs.merge(rep3.agg.vios);
    vs.merge(rep4.agg.vios);
    vs.merge(rep5.agg.vios);
    for v in run_pingloom(&mut out, quick, "C20") {
        vs.add(v);
    }
    out.violations = vs.into_vec();
    out.guard_nonzero("operations inside the connection's poll", out.coverage.get("mechanism_counters").and_then(|m| m.get("operations_inside_connection_poll")).and_then(|v| v.as_u64()).unwrap_or(0));
    out.assume("real parallel execution on a multi-threaded runtime is not explored (that would be sampling); the second thread runs only when handed the baton, at lock-release points of the connection task");
    out.assume("pingloom: atomic-waker is replaced by a linearizable stand-in, plain stores are modelled as AcqRel swaps (loom 0.7 modification-order imprecision, DESIGN.md)");
    out
}

pub fn replay(v: &serde_json::Value) -> Option<bool> {
    let h = v["harness"].as_str().unwrap_or("");
    if h == "pingloom" {
        let m = v["model"].as_str().unwrap_or("");
        let st = std::process::Command::new("/verif/pingloom/target/release/pingloom").args(["run", m]).status().ok()?;
        return Some(!st.success());
    }
    for quick in [true, false] {
        let n: &'static str = if quick { "threads-server-q" } else { "threads-server-t" };
        if h == format!("x2.{}", n) {
            return Some(replay_model(&ServerThreadModel::new(n, quick), "C20", v));
        }
    }
    if h == "x2.threads-idle" {
        return Some(replay_model(&IdleModel::new("threads-idle", false), "C20", v));
    }
    if h == "x2.threads-idle-mid" {
        return Some(replay_model(&IdleModel::new("threads-idle-mid", true), "C20", v));
    }
    for quick in [true, false] {
        for mid in [false, true] {
            let n: &'static str = match (quick, mid) {
                (true, false) => "threads-q",
                (false, false) => "threads-t",
                (true, true) => "threads-mid-q",
                (false, true) => "threads-mid-t",
            };
            if h == format!("x2.{}", n) {
                return Some(replay_model(&ThreadModel::new(n, quick, mid), "C20", v));
            }
        }
    }
    None
}
