//! C03 — receive windows are conserved: never over-credited, never leaked (X2 on T2, subject = real server receiving).

use crate::common::*;
use crate::sim::*;
use crate::t2::*;
use crate::x2::*;
use h2::server;
use h2wire::frame::{self as wf, Parsed};
use serde_json::json;
use std::collections::BTreeMap;
use std::task::{Context, Poll};

#[derive(Clone, Debug)]
pub enum Ev {
    Open(usize),
    /// the request declares `content-length: 3`: every DATA frame of the model on this stream that is not empty makes the
    /// body too long, an END_STREAM before that too short - stream errors whose octets are flow-controlled all the same
    OpenCl(usize),
    Data(usize, usize, Option<u8>, bool),
    PeerRst(usize),
    DataOnNeverOpened,
    PeerAck,
    PollData(usize),
    ReleaseAll(usize),
    ReleaseOne(usize),
    DropBody(usize),
    DropAll(usize),
    SendReset(usize),
    Respond(usize),
    SetTarget(u32),
    SetInitial(u32),
    Drive,
}

pub struct StreamW {
    pub sid: u32,
    pub opened: bool,
    pub peer_eos: bool,
    pub peer_rst: bool,
    /// octets handed to the application and not yet released
    pub held: usize,
    /// the RecvStream was dropped while the application still held unreleased octets: only dropping the remaining
    /// handles of the stream tells h2 that nobody will ever release them
    pub orphaned: bool,
}

pub struct World {
    pub streams: Vec<StreamW>,
    pub targets: Vec<u32>,
    pub initials: Vec<u32>,
    pub never_opened_used: bool,
}

pub struct ReceiverModel {
    pub events: Vec<Ev>,
    pub name: &'static str,
    pub init_window: u32,
}

const SIDS: [u32; 3] = [1, 3, 5];

impl ReceiverModel {
    pub fn new(name: &'static str, quick: bool) -> ReceiverModel {
        Self::new_variant(name, quick, false)
    }
    /// `cl`: a single stream whose request declares a content-length that the model's DATA frames violate
    pub fn new_variant(name: &'static str, quick: bool, cl: bool) -> ReceiverModel {
        let mut ev = vec![];
        let n = if cl { 1 } else if quick { 2 } else { 3 };
        for k in 0..n {
            if cl {
                ev.push(Ev::OpenCl(k));
            } else {
                ev.push(Ev::Open(k));
            }
            for &len in if quick { &[0usize, 16384][..] } else { &[0usize, 1, 7, 16384][..] } {
                ev.push(Ev::Data(k, len, None, false));
            }
            ev.push(Ev::Data(k, 7, Some(5), false));
            ev.push(Ev::Data(k, 1, None, true));
            ev.push(Ev::Data(k, 0, Some(255), false));
            ev.push(Ev::PeerRst(k));
            ev.push(Ev::PollData(k));
            ev.push(Ev::ReleaseAll(k));
            if !quick {
                ev.push(Ev::ReleaseOne(k));
                ev.push(Ev::Respond(k));
            }
            ev.push(Ev::DropBody(k));
            ev.push(Ev::DropAll(k));
            ev.push(Ev::SendReset(k));
        }
        ev.push(Ev::PeerAck);
        ev.push(Ev::SetTarget(100_000));
        ev.push(Ev::SetTarget(65_535));
        ev.push(Ev::SetInitial(30_000));
        ev.push(Ev::SetInitial(100));
        ev.push(Ev::Drive);
        ReceiverModel { events: ev, name, init_window: 20_000 }
    }
}

/// Peer-view accounting from the wire.
pub struct PeerView {
    pub r0: i64,
    pub u0: i64,
    pub r: BTreeMap<u32, i64>,
    pub u: BTreeMap<u32, i64>,
    /// subject's INITIAL_WINDOW_SIZE as acknowledged by the peer
    pub acked_initial: i64,
}

pub fn peer_view(t: &T2) -> PeerView {
    let mut v = PeerView { r0: 0, u0: 0, r: BTreeMap::new(), u: BTreeMap::new(), acked_initial: 65535 };
    for f in &t.mon.frames {
        let from_subj = f.sender == t.role;
        match &f.parsed {
            Ok(Parsed::Data { sid, .. }) if !from_subj => {
                let len = f.raw.payload.len() as i64;
                v.r0 += len;
                *v.r.entry(*sid).or_insert(0) += len;
            }
            Ok(Parsed::WindowUpdate { sid, inc }) if from_subj => {
                if *sid == 0 {
                    v.u0 += *inc as i64;
                } else {
                    *v.u.entry(*sid).or_insert(0) += *inc as i64;
                }
            }
            _ => {}
        }
    }
    if let Some(x) = t.mon.acked[t.role.idx()].get(&wf::setting::INITIAL_WINDOW_SIZE) {
        v.acked_initial = *x as i64;
    }
    v
}

impl PeerView {
    pub fn v0(&self) -> i64 {
        65535 - self.r0 + self.u0
    }
    pub fn vs(&self, sid: u32) -> i64 {
        self.acked_initial - self.r.get(&sid).copied().unwrap_or(0) + self.u.get(&sid).copied().unwrap_or(0)
    }
}

fn accepted_mut(t: &mut T2, sid: u32) -> Option<&mut Accepted> {
    t.accepted.iter_mut().find(|a| a.sid == sid)
}

impl Model for ReceiverModel {
    type World = World;
    fn name(&self) -> &'static str {
        self.name
    }
    fn cfg(&self) -> T2Cfg {
        let mut sb = server::Builder::new();
        sb.initial_window_size(self.init_window);
        T2Cfg { role: Side::Server, peer_settings: vec![], client: None, server: Some(sb), policy: IoPolicy::default() }
    }
    fn init(&self, _t: &mut T2) -> World {
        World { streams: SIDS.iter().map(|&sid| StreamW { sid, opened: false, peer_eos: false, peer_rst: false, held: 0, orphaned: false }).collect(), targets: vec![65535], initials: vec![self.init_window], never_opened_used: false }
    }
    fn n_events(&self) -> usize {
        self.events.len()
    }
    fn event_name(&self, e: usize) -> String {
        format!("{:?}", self.events[e])
    }
    fn enabled(&self, t: &T2, w: &World, e: usize) -> bool {
        if !t.conn_alive() {
            return false;
        }
        let pv = peer_view(t);
        let has_body = |k: usize| t.accepted.iter().any(|a| a.sid == w.streams[k].sid && a.body.is_some());
        let has_any = |k: usize| t.accepted.iter().any(|a| a.sid == w.streams[k].sid && (a.body.is_some() || a.respond.is_some() || a.send.is_some()));
        match &self.events[e] {
            // the peer opens streams in identifier order
            Ev::Open(k) | Ev::OpenCl(k) => !w.streams[*k].opened && (0..*k).all(|j| w.streams[j].opened),
            // a legal peer stays inside the windows it has been granted and does not send after its own end / reset
            Ev::Data(k, len, pad, _) => {
                let s = &w.streams[*k];
                let flow = *len as i64 + pad.map(|p| p as i64 + 1).unwrap_or(0);
                s.opened && !s.peer_eos && !s.peer_rst && (flow == 0 || (flow <= pv.v0() && flow <= pv.vs(s.sid)))
            }
            Ev::PeerRst(k) => w.streams[*k].opened && !w.streams[*k].peer_rst,
            Ev::DataOnNeverOpened => false,
            Ev::PeerAck => !t.mon.unacked_settings[t.role.idx()].is_empty(),
            Ev::PollData(k) | Ev::DropBody(k) => has_body(*k),
            Ev::ReleaseAll(k) | Ev::ReleaseOne(k) => has_body(*k) && w.streams[*k].held > 0,
            Ev::DropAll(k) => has_any(*k),
            Ev::SendReset(k) | Ev::Respond(k) => t.accepted.iter().any(|a| a.sid == w.streams[*k].sid && a.respond.is_some()),
            Ev::SetTarget(x) => w.targets.last() != Some(x),
            // h2 allows one outstanding local SETTINGS at a time
            Ev::SetInitial(x) => w.initials.last() != Some(x) && t.mon.unacked_settings[t.role.idx()].is_empty(),
            Ev::Drive => true,
        }
    }
    fn apply(&self, t: &mut T2, w: &mut World, e: usize) {
        let mut panics = vec![];
        match self.events[e].clone() {
            Ev::Open(k) => {
                let sid = w.streams[k].sid;
                t.peer_request(sid, "/r", false);
                w.streams[k].opened = true;
            }
            Ev::OpenCl(k) => {
                let sid = w.streams[k].sid;
                let b = T2::block(&[(":method", "POST"), (":scheme", "http"), (":authority", "h.example"), (":path", "/r"), ("content-length", "3")]);
                t.peer_send(&wf::headers(sid, &b, false, true));
                w.streams[k].opened = true;
            }
            Ev::Data(k, len, pad, eos) => {
                let sid = w.streams[k].sid;
                let body = vec![0xd0 + k as u8; len];
                let f = match pad {
                    Some(p) => wf::data_padded(sid, &body, p, eos),
                    None => wf::data(sid, &body, eos),
                };
                t.peer_send(&f);
                w.streams[k].peer_eos |= eos;
            }
            Ev::PeerRst(k) => {
                let sid = w.streams[k].sid;
                t.peer_send(&wf::rst_stream(sid, 8));
                w.streams[k].peer_rst = true;
            }
            Ev::DataOnNeverOpened => {}
            Ev::PeerAck => {
                t.peer_send(&wf::settings_ack());
            }
            Ev::PollData(k) => {
                let sid = w.streams[k].sid;
                if let Some(a) = accepted_mut(t, sid) {
                    let wk = waker_of(&a.flag);
                    let mut cx = Context::from_waker(&wk);
                    let b = a.body.as_mut().unwrap();
                    if let Some(Poll::Ready(Some(Ok(d)))) = guarded(&mut panics, "poll_data", || b.poll_data(&mut cx)) {
                        w.streams[k].held += d.len();
                    }
                }
            }
            Ev::ReleaseAll(k) | Ev::ReleaseOne(k) => {
                let sid = w.streams[k].sid;
                let n = if matches!(self.events[e], Ev::ReleaseOne(_)) { 1 } else { w.streams[k].held };
                if let Some(a) = accepted_mut(t, sid) {
                    let b = a.body.as_mut().unwrap();
                    if let Some(Ok(())) = guarded(&mut panics, "release_capacity", || b.flow_control().release_capacity(n)) {
                        w.streams[k].held -= n;
                    }
                }
            }
            Ev::DropBody(k) => {
                let sid = w.streams[k].sid;
                if let Some(a) = accepted_mut(t, sid) {
                    let b = a.body.take();
                    safe_drop(&mut panics, "RecvStream", b);
                    if w.streams[k].held > 0 {
                        w.streams[k].orphaned = true;
                    }
                    w.streams[k].held = 0;
                }
            }
            Ev::DropAll(k) => {
                let sid = w.streams[k].sid;
                if let Some(a) = accepted_mut(t, sid) {
                    let (b, r, s) = (a.body.take(), a.respond.take(), a.send.take());
                    safe_drop(&mut panics, "RecvStream", b);
                    safe_drop(&mut panics, "SendResponse", r);
                    safe_drop(&mut panics, "SendStream", s);
                    w.streams[k].held = 0;
                }
            }
            Ev::SendReset(k) => {
                let sid = w.streams[k].sid;
                if let Some(a) = accepted_mut(t, sid) {
                    let r = a.respond.as_mut().unwrap();
                    guarded(&mut panics, "send_reset", || r.send_reset(h2::Reason::CANCEL));
                }
            }
            Ev::Respond(k) => {
                let sid = w.streams[k].sid;
                if let Some(a) = accepted_mut(t, sid) {
                    let r = a.respond.as_mut().unwrap();
                    let _ = guarded(&mut panics, "send_response", || r.send_response(simple_response(200), true).map(|s| drop(s)));
                    a.respond = None;
                }
            }
            Ev::SetTarget(x) => {
                if let Conn::Server(c) = &mut t.conn {
                    guarded(&mut panics, "set_target_window_size", || c.set_target_window_size(x));
                }
                t.conn_flag.wake_by_ref_pub();
                w.targets.push(x);
            }
            Ev::SetInitial(x) => {
                if let Conn::Server(c) = &mut t.conn {
                    let r = guarded(&mut panics, "set_initial_window_size", || c.set_initial_window_size(x));
                    if let Some(Ok(())) = r {
                        w.initials.push(x);
                    }
                }
                t.conn_flag.wake_by_ref_pub();
            }
            Ev::Drive => {
                t.drive(200);
            }
        }
        t.panics.extend(panics);
        t.catch_up();
    }

    fn invariant(&self, t: &mut T2, w: &mut World) -> V3 {
        let mut v = vec![];
        t.catch_up();
        let pv = peer_view(t);
        let tmax = *w.targets.iter().max().unwrap() as i64;
        let imax = *w.initials.iter().max().unwrap() as i64;
        if pv.v0() > tmax.max(65535) {
            v.push(("C03.connection-window-over-credited".to_string(), "conn".into(), format!("the peer sees a connection window of {} octets; the largest size ever configured is {}", pv.v0(), tmax)));
        }
        if pv.v0() > 0x7fff_ffff {
            v.push(("C03.window-overflow".into(), "conn".into(), format!("connection window {} > 2^31-1", pv.v0())));
        }
        for s in &w.streams {
            if !s.opened {
                continue;
            }
            let credited = pv.u.get(&s.sid).copied().unwrap_or(0);
            let received = pv.r.get(&s.sid).copied().unwrap_or(0);
            // every received octet is credited at most once (plus raises of the initial window, which are signalled by SETTINGS)
            if credited > received {
                v.push(("C03.stream-window-over-credited".into(), "stream".into(), format!("stream {}: WINDOW_UPDATEs add up to {} but only {} flow-controlled octets were received", s.sid, credited, received)));
            }
            if pv.vs(s.sid) > imax.max(65535) {
                v.push(("C03.stream-window-over-credited".into(), "stream-abs".into(), format!("stream {}: the peer sees a window of {}, the largest initial window ever configured is {}", s.sid, pv.vs(s.sid), imax)));
            }
        }
        // connection: credited at most once as well (raises of the target add the difference)
        if pv.u0 > pv.r0 + (tmax - 65535).max(0) {
            v.push(("C03.connection-window-over-credited".into(), "twice".into(), format!("connection WINDOW_UPDATEs add up to {} for {} received octets (target raised by at most {})", pv.u0, pv.r0, (tmax - 65535).max(0))));
        }
        v
    }

    fn epilogue(&self, t: &mut T2, w: &mut World) -> V3 {
        let mut v = vec![];
        if !t.conn_alive() {
            return v;
        }
        let mut panics = vec![];
        // 0. credit that is due is sent without anybody having to poll the connection by force: at (strict) quiescence a forced
        //    poll must not produce a WINDOW_UPDATE - otherwise the handle operation that made it due did not wake the connection
        t.drive(300);
        t.catch_up();
        {
            let before = t.subject_frames().len();
            t.sh.lock().unwrap().chooser.recording = false;
            t.conn_flag.wake_by_ref_pub();
            t.drive(50);
            t.catch_up();
            let new: Vec<String> = t.subject_frames()[before..].iter().filter(|f| f.raw.ty == wf::ty::WINDOW_UPDATE).map(|f| format!("WINDOW_UPDATE(stream {}, {})", f.raw.stream(), u32::from_be_bytes([f.raw.payload[0] & 0x7f, f.raw.payload[1], f.raw.payload[2], f.raw.payload[3]]))).collect();
            if !new.is_empty() {
                v.push(("C03.credit-not-sent-until-polled".to_string(), if new.iter().any(|x| x.contains("stream 0,")) { "connection".into() } else { "stream".into() }, format!("everything was quiescent and nobody had woken the connection task, yet a forced poll made it send {:?}: the operation that made this credit due did not wake the connection, the peer would have waited for it indefinitely", new)));
            }
        }
        // the peer acknowledges whatever SETTINGS are outstanding, everything quiesces
        t.drive(300);
        t.peer_ack_settings();
        t.drive(300);
        let target = *w.targets.last().unwrap() as i64;
        // 1. the application releases everything it holds and reads + releases everything that is buffered
        let flag = Flag::new(false);
        let wk = waker_of(&flag);
        let mut cx = Context::from_waker(&wk);
        let mut drain = |t: &mut T2, w: &mut World, panics: &mut Vec<String>| {
            for s in w.streams.iter_mut() {
                if let Some(a) = t.accepted.iter_mut().find(|a| a.sid == s.sid) {
                    if s.orphaned {
                        // "released everything it was given": octets that can no longer be released through a handle are
                        // given back by letting go of the stream altogether
                        let (r, x) = (a.respond.take(), a.send.take());
                        safe_drop(panics, "SendResponse", r);
                        safe_drop(panics, "SendStream", x);
                        s.orphaned = false;
                    }
                    if let Some(b) = a.body.as_mut() {
                        if s.held > 0 {
                            let n = s.held;
                            let _ = guarded(panics, "release_capacity", || b.flow_control().release_capacity(n));
                            s.held = 0;
                        }
                        loop {
                            match guarded(panics, "poll_data", || b.poll_data(&mut cx)) {
                                Some(Poll::Ready(Some(Ok(d)))) => {
                                    let n = d.len();
                                    let _ = guarded(panics, "release_capacity", || b.flow_control().release_capacity(n));
                                }
                                _ => break,
                            }
                        }
                    }
                }
            }
        };
        drain(t, w, &mut panics);
        t.drive(300);
        // 1b. every stream of the history that is still open in the peer's direction and still read by the application:
        //     the peer uses up the stream's window while the application reads without releasing, then everything is
        //     released at once - the peer must see the stream's window back at the acknowledged initial size (octets of
        //     earlier frames - padding, empty frames - that were never credited back show up here)
        if t.goaway_sent().is_none() && t.conn_alive() {
            for k in 0..w.streams.len() {
                let (sid, usable) = {
                    let s = &w.streams[k];
                    (s.sid, s.opened && !s.peer_eos && !s.peer_rst && !s.orphaned)
                };
                if !usable || !t.rst_sent(sid).is_empty() || !t.accepted.iter().any(|a| a.sid == sid && a.body.is_some()) {
                    continue;
                }
                let mut held = 0usize;
                let mut rounds = 0;
                loop {
                    t.catch_up();
                    let pv = peer_view(t);
                    let n = pv.v0().min(pv.vs(sid)).min(16384);
                    if n <= 0 || rounds > 8 || !t.conn_alive() {
                        break;
                    }
                    t.peer_send(&wf::data(sid, &vec![0xdd; n as usize], false));
                    t.drive(100);
                    if let Some(b) = t.accepted.iter_mut().find(|a| a.sid == sid).and_then(|a| a.body.as_mut()) {
                        loop {
                            let flag1 = Flag::new(false);
                            let wk1 = waker_of(&flag1);
                            let mut cx1 = Context::from_waker(&wk1);
                            match guarded(&mut panics, "poll_data", || b.poll_data(&mut cx1)) {
                                Some(Poll::Ready(Some(Ok(d)))) => held += d.len(),
                                _ => break,
                            }
                        }
                    }
                    rounds += 1;
                }
                t.catch_up();
                let stream_exhausted = peer_view(t).vs(sid) == 0;
                if let Some(b) = t.accepted.iter_mut().find(|a| a.sid == sid).and_then(|a| a.body.as_mut()) {
                    let _ = guarded(&mut panics, "release_capacity", || b.flow_control().release_capacity(held));
                }
                t.drive(300);
                t.catch_up();
                if !panics.is_empty() || !t.conn_alive() || t.goaway_sent().is_some() || !t.rst_sent(sid).is_empty() {
                    break;
                }
                let pv = peer_view(t);
                if stream_exhausted && held > 0 && pv.vs(sid) != pv.acked_initial {
                    v.push(("C03.stream-window-leaked".into(), if pv.vs(sid) < pv.acked_initial { "short".into() } else { "over".into() }, format!("stream {}: the peer used up the stream's window, the application read and released everything ({} octets); the peer now sees a stream window of {}, the acknowledged initial window is {}", sid, held, pv.vs(sid), pv.acked_initial)));
                }
            }
        }
        // 2. a fresh carrier stream whose window is larger than the connection window, so that the peer can use the whole
        //    connection window in one go while the application reads but releases nothing (no threshold effects)
        if t.goaway_sent().is_some() {
            t.panics.extend(panics);
            return v;
        }
        t.catch_up();
        if peer_view(t).acked_initial < 70_000 {
            if let Conn::Server(c) = &mut t.conn {
                let _ = guarded(&mut panics, "set_initial_window_size", || c.set_initial_window_size(70_000));
            }
            t.conn_flag.wake_by_ref_pub();
            t.drive(100);
            t.peer_ack_settings();
            t.drive(100);
            t.catch_up();
            if peer_view(t).acked_initial < 70_000 {
                t.panics.extend(panics);
                return v; // could not raise the window (connection ending)
            }
        }
        let sid = 7;
        t.peer_request(sid, "/carrier", false);
        t.drive(100);
        if !t.accepted.iter().any(|a| a.sid == sid) {
            // refused (concurrency) or connection gone: nothing to measure with
            t.panics.extend(panics);
            return v;
        }
        let mut held = 0usize;
        let mut rounds = 0;
        loop {
            t.catch_up();
            let pv = peer_view(t);
            let n = pv.v0().min(pv.vs(sid)).min(16384);
            if n <= 0 || rounds > 20 || !t.conn_alive() {
                break;
            }
            t.peer_send(&wf::data(sid, &vec![0xcc; n as usize], false));
            t.drive(100);
            // read without releasing
            if let Some(a) = t.accepted.iter_mut().find(|a| a.sid == sid) {
                if let Some(b) = a.body.as_mut() {
                    loop {
                        let flag2 = Flag::new(false);
                        let wk2 = waker_of(&flag2);
                        let mut cx2 = Context::from_waker(&wk2);
                        match guarded(&mut panics, "poll_data", || b.poll_data(&mut cx2)) {
                            Some(Poll::Ready(Some(Ok(d)))) => held += d.len(),
                            _ => break,
                        }
                    }
                }
            }
            rounds += 1;
        }
        t.catch_up();
        let exhausted = peer_view(t).v0() == 0;
        // 3. everything is released at once; after quiescence the windows are back at their configured sizes
        if let Some(a) = t.accepted.iter_mut().find(|a| a.sid == sid) {
            if let Some(b) = a.body.as_mut() {
                let _ = guarded(&mut panics, "release_capacity", || b.flow_control().release_capacity(held));
            }
        }
        drain(t, w, &mut panics);
        t.drive(300);
        t.catch_up();
        if t.conn_alive() && exhausted {
            let pv = peer_view(t);
            if pv.v0() != target.max(65535) {
                v.push(("C03.connection-window-leaked".into(), if pv.v0() < target { "short".into() } else { "over".into() }, format!("after the peer exhausted the connection window and the application released everything, the peer sees {} octets of connection window; configured {}", pv.v0(), target.max(65535))));
            }
            if pv.vs(sid) != pv.acked_initial {
                v.push(("C03.stream-window-leaked".into(), "carrier".into(), format!("stream {}: after using and releasing {} octets, the peer sees a stream window of {}; the acknowledged initial window is {}", sid, held, pv.vs(sid), pv.acked_initial)));
            }
        }
        t.panics.extend(panics);
        v
    }

    fn digest_extra(&self, t: &T2, w: &World) -> String {
        let pv = peer_view(t);
        let mut s = format!("v0={} acked_init={} targets={:?} initials={:?} unacked={:?}", pv.v0(), pv.acked_initial, w.targets.last(), w.initials.last(), t.mon.unacked_settings);
        for st in &w.streams {
            let a = t.accepted.iter().find(|a| a.sid == st.sid);
            s.push_str(&format!(
                "|{}:open={} eos={} rst={} held={} orphaned={} vs={} body={} respond={} rst_sent={} credited_minus_received={}",
                st.sid,
                st.opened,
                st.peer_eos,
                st.peer_rst,
                st.held,
                st.orphaned,
                pv.vs(st.sid),
                a.map(|a| a.body.is_some()).unwrap_or(false),
                a.map(|a| a.respond.is_some()).unwrap_or(false),
                !t.rst_sent(st.sid).is_empty(),
                pv.u.get(&st.sid).copied().unwrap_or(0) - pv.r.get(&st.sid).copied().unwrap_or(0)
            ));
        }
        s.push_str(&format!("|goaway={:?}|u0-r0={}", t.goaway_sent(), pv.u0 - pv.r0));
        s
    }

    fn teardown(&self, t: T2, _w: World) -> Vec<String> {
        t.finish()
    }

    fn counters(&self, t: &T2, _w: &World) -> Vec<(&'static str, u64)> {
        let pv = peer_view(t);
        vec![("window_updates_conn_octets", pv.u0 as u64), ("data_octets_received", pv.r0 as u64)]
    }
}

/// X3: **write-buffer fill sweep**. With the transport blocked the codec's write buffer is filled, octet by octet, to every
/// level around the point where it stops accepting frames; then two streams and the connection owe the peer a WINDOW_UPDATE.
/// Whatever "codec full, come back later" path the updates take, after the transport opens every window must be back.
pub fn fill_sweep_one(vectored: bool, fill: usize, verbose: bool) -> Vec<(String, String, String)> {
    let mut v = vec![];
    let mut sb = server::Builder::new();
    sb.initial_window_size(20_000);
    let cfg = T2Cfg { role: Side::Server, peer_settings: vec![], client: None, server: Some(sb), policy: IoPolicy { vectored, ..IoPolicy::default() } };
    let mut t = T2::new(&cfg, vec![]);
    let mut panics = vec![];
    for sid in [1u32, 3, 5] {
        t.peer_request(sid, "/f", false);
    }
    t.drive(100);
    t.peer_ack_settings();
    t.drive(100);
    // the peer uses 12 000 of the 20 000 octets on streams 3 and 5; the application reads and holds them
    let flag = Flag::new(false);
    let wk = waker_of(&flag);
    let mut cx = Context::from_waker(&wk);
    for sid in [3u32, 5] {
        t.peer_send(&wf::data(sid, &vec![0xaa; 12_000], false));
    }
    t.drive(100);
    let mut held = BTreeMap::new();
    for sid in [3u32, 5] {
        if let Some(b) = accepted_mut(&mut t, sid).and_then(|a| a.body.as_mut()) {
            let mut n = 0usize;
            loop {
                match guarded(&mut panics, "poll_data", || b.poll_data(&mut cx)) {
                    Some(Poll::Ready(Some(Ok(d)))) => n += d.len(),
                    _ => break,
                }
            }
            held.insert(sid, n);
        }
    }
    // transport blocked: a response on stream 1 fills the write buffer with `fill` octets of inline DATA frames
    t.sh.lock().unwrap().set_write_blocked(Side::Server, true);
    let chunk = if vectored { 250 } else { 1000 };
    if let Some(a) = accepted_mut(&mut t, 1) {
        if let Some(mut r) = a.respond.take() {
            if let Some(Ok(mut ss)) = guarded(&mut panics, "send_response", || r.send_response(simple_response(200), false)) {
                let mut left = fill;
                while left > 0 {
                    // every DATA frame costs 9 octets of head
                    let take = left.min(chunk + 9);
                    if take <= 9 {
                        break;
                    }
                    let _ = guarded(&mut panics, "send_data", || ss.send_data(bytes::Bytes::from(vec![0x55u8; take - 9]), false));
                    left -= take;
                }
                a.send = Some(ss);
            }
        }
    }
    t.drive(100);
    // now the releases: two stream-level updates and one for the connection become due while the buffer is that full
    for sid in [3u32, 5] {
        let n = held.get(&sid).copied().unwrap_or(0);
        if let Some(b) = accepted_mut(&mut t, sid).and_then(|a| a.body.as_mut()) {
            let _ = guarded(&mut panics, "release_capacity", || b.flow_control().release_capacity(n));
        }
    }
    t.drive(100);
    t.sh.lock().unwrap().set_write_blocked(Side::Server, false);
    {
        let w = t.sh.lock().unwrap().blocked_writers[Side::Server.idx()].take();
        if let Some(w) = w {
            w.wake();
        }
    }
    t.conn_flag.wake_by_ref_pub();
    t.drive(300);
    t.catch_up();
    let pv = peer_view(&t);
    for sid in [3u32, 5] {
        if held.get(&sid).copied().unwrap_or(0) == 12_000 && pv.vs(sid) != pv.acked_initial && t.conn_alive() {
            v.push(("C03.stream-window-leaked".to_string(), "fill-sweep".into(), format!("write buffer filled with {} octets (vectored {}): the application released all 12000 octets of stream {}, the transport has opened again and everything is quiescent, yet the peer sees a window of {} instead of {}", fill, vectored, sid, pv.vs(sid), pv.acked_initial)));
        }
    }
    if t.conn_alive() && pv.v0() < 65535 - 24_000 / 2 {
        v.push(("C03.connection-window-leaked".into(), "fill-sweep".into(), format!("write buffer filled with {} octets (vectored {}): 24000 octets were released, the peer sees a connection window of {}", fill, vectored, pv.v0())));
    }
    if verbose {
        println!("fill {} vectored {}: peer view conn {} stream3 {} stream5 {} (initial {})\n{}", fill, vectored, pv.v0(), pv.vs(3), pv.vs(5), pv.acked_initial, t.mon.transcript().lines().rev().take(12).collect::<Vec<_>>().into_iter().rev().collect::<Vec<_>>().join("\n"));
    }
    t.panics.extend(panics);
    for p in t.finish() {
        v.push(("C03.panic".into(), "fill-sweep".into(), format!("fill {} vectored {}: panic {}", fill, vectored, p.lines().next().unwrap_or(""))));
    }
    v
}

pub fn fill_sweep(out: &mut Outcome, vios: &mut VioSet, quick: bool) {
    // the buffer holds 16384 octets and stops accepting frames when fewer than 1033 (vectored I/O: 265) are free; the sweep
    // covers every fill level from well below to beyond that point (head octets of the response HEADERS frame shift the
    // exact position by a few octets, which the range absorbs)
    let mut jobs: Vec<(bool, usize)> = vec![];
    let pad = if quick { 120 } else { 700 };
    for fill in (16384 - 1033 - pad)..=(16384 - 1033 + 40) {
        jobs.push((false, fill));
    }
    for fill in (16384 - 265 - pad)..=(16384 - 265 + 40) {
        jobs.push((true, fill));
    }
    let found = std::sync::Mutex::new(vec![]);
    par_for(jobs.len(), |i| {
        let vs = fill_sweep_one(jobs[i].0, jobs[i].1, false);
        if !vs.is_empty() {
            found.lock().unwrap().push((jobs[i], vs));
        }
    });
    for ((vectored, fill), vs) in found.into_inner().unwrap() {
        for (rule, sig, what) in vs {
            vios.add(Violation { rule, signature: sig, what, replay: json!({"harness": "c03.fill", "vectored": vectored, "fill": fill}) });
        }
    }
    out.harness("write-buffer-fill-sweep", json!({"cases": jobs.len(), "fill_levels": format!("{}..={} (non-vectored), {}..={} (vectored)", 16384 - 1033 - pad, 16384 - 1033 + 40, 16384 - 265 - pad, 16384 - 265 + 40)}));
    out.add_count("evaluations", jobs.len() as u64);
    out.add_count("traces_validated_against_impl", jobs.len() as u64);
}

pub fn run(ctx: &Ctx) -> Outcome {
    let mut out = Outcome::default();
    let quick = ctx.tier.is_quick();
    let m = ReceiverModel::new(if quick { "receiver-q" } else { "receiver-t" }, quick);
    let rep = search(ctx, &m, "C03", if quick { 7 } else { 12 }, ctx.tier.budget_s() * 0.8, true);
    // one stream whose DATA violates its declared content-length (stream errors on frames that are flow-controlled all the same)
    let m2 = ReceiverModel::new_variant(if quick { "receiver-cl-q" } else { "receiver-cl-t" }, quick, true);
    let rep2 = search(ctx, &m2, "C03", if quick { 7 } else { 11 }, ctx.tier.budget_s(), true);
    fill_outcome(&mut out, &[(m.name, &rep), (m2.name, &rep2)]);
    out.set("exhaustive", json!(false));
    out.set("alphabet", json!(m.events.iter().map(|e| format!("{:?}", e)).collect::<Vec<_>>()));
    out.set("rule", json!("X2 on T2: breadth-first search (iterative deepening, canonical-digest de-duplication) over the real server receiving on up to 3 streams from a scripted peer that stays inside the windows it sees: DATA {1,16384 (+0,7)} plain / padded / END_STREAM, RST_STREAM, SETTINGS ACK timing; application poll_data (holding what it read), release all / one octet, drop RecvStream, drop all handles, send_reset, respond, set_target_window_size up/down, set_initial_window_size up/down. Invariant in every state: peer-view windows never above the largest configured size, no octet credited twice. Epilogue from every new state: release everything, let the peer exhaust the connection window through a stream that is still read, release that too, quiesce - the connection window must be back at its target and the carrier stream at the acknowledged initial window"));
    out.add_sample(json!({"harness": format!("x2.{}", m.name), "depth": 3, "choices": [1, 3, 9]}));
    out.assume("stream whose RecvStream was dropped while it stays open: only the connection window is required to return (scope decision in DESIGN.md 3/C03)");
    out.guard_nonzero("data octets received", out.coverage.get("mechanism_counters").and_then(|m| m.get("data_octets_received")).and_then(|v| v.as_u64()).unwrap_or(0));
    let mut vs = VioSet::default();
    vs.merge(rep.agg.vios);
    vs.merge(rep2.agg.vios);
    fill_sweep(&mut out, &mut vs, quick);
    out.violations = vs.into_vec();
    out
}

pub fn replay(v: &serde_json::Value) -> Option<bool> {
    let h = v["harness"].as_str().unwrap_or("");
    if h == "c03.fill" {
        let vs = fill_sweep_one(v["vectored"].as_bool().unwrap_or(false), v["fill"].as_u64().unwrap_or(0) as usize, true);
        for (r, _, w) in &vs {
            println!("RULE VIOLATED: {} {}", r, w);
        }
        return Some(!vs.is_empty());
    }
    for quick in [true, false] {
        let m = ReceiverModel::new(if quick { "receiver-q" } else { "receiver-t" }, quick);
        if h == format!("x2.{}", m.name) {
            return Some(replay_model(&m, "C03", v));
        }
        let m2 = ReceiverModel::new_variant(if quick { "receiver-cl-q" } else { "receiver-cl-t" }, quick, true);
        if h == format!("x2.{}", m2.name) {
            return Some(replay_model(&m2, "C03", v));
        }
    }
    None
}
