//! C09 — protocol violations are detected and contained; legal traffic is never penalised (T2, X3 over state x event).
//! Also provides the state / event catalogues reused by C08.

use crate::common::*;
use crate::sim::*;
use crate::t2::*;
use bytes::Bytes;
use h2::{client, server, Reason};
use h2wire::frame::{self as wf, Defect, Parsed, RawFrame};
use serde_json::{json, Value};
use std::collections::BTreeMap;
use std::sync::atomic::{AtomicU64, Ordering};
use std::sync::Mutex;
use std::task::{Context, Poll};

// ---------------------------------------------------------------------------------------------
// reference view of the connection, derived from the wire only

#[derive(Clone, Debug, Default)]
pub struct SView {
    pub peer_hdr: bool,
    pub peer_eos: bool,
    pub peer_rst: bool,
    pub subj_hdr: bool,
    pub subj_eos: bool,
    pub subj_rst: bool,
    pub promised_by_peer: bool,
    pub promised_by_subj: bool,
    /// the subject's RST_STREAM was REFUSED_STREAM: the stream never existed for it
    pub subj_refused: bool,
    pub peer_flow: i64,
    pub subj_wu: i64,
    pub peer_wu: i64,
    pub subj_flow: i64,
}

#[derive(Clone, Debug)]
pub struct View {
    pub role: Side,
    pub streams: BTreeMap<u32, SView>,
    pub max_peer_id: u32,
    pub max_subj_id: u32,
    pub peer_block_open: Option<u32>,
    pub goaway_sent: Option<u32>,
    pub goaway_recv: Option<u32>,
    pub push_enabled: bool,
    pub conn_recv_window: i64,
    pub conn_send_window: i64,
    pub subj_iws: i64,
    pub peer_iws: i64,
    pub subj_max_frame: usize,
}

impl View {
    pub fn from_wire(t: &T2) -> View {
        let role = t.role;
        let mut v = View {
            role,
            streams: BTreeMap::new(),
            max_peer_id: 0,
            max_subj_id: 0,
            peer_block_open: None,
            goaway_sent: None,
            goaway_recv: None,
            push_enabled: true,
            conn_recv_window: 65535,
            conn_send_window: 65535,
            subj_iws: 65535,
            peer_iws: 65535,
            subj_max_frame: 16384,
        };
        let subj_parity = |sid: u32| if role == Side::Client { sid % 2 == 1 } else { sid % 2 == 0 };
        for f in &t.mon.frames {
            let from_subj = f.sender == role;
            let Ok(p) = &f.parsed else {
                // a frame with a frame-local defect still uses up its stream identifier
                if !from_subj && matches!(f.raw.ty, wf::ty::HEADERS) && !subj_parity(f.raw.stream()) && f.raw.stream() != 0 {
                    v.max_peer_id = v.max_peer_id.max(f.raw.stream());
                    v.streams.entry(f.raw.stream()).or_default().peer_rst = true;
                }
                continue;
            };
            match p {
                Parsed::Headers { sid, eos, eh, .. } => {
                    let s = v.streams.entry(*sid).or_default();
                    if from_subj {
                        s.subj_hdr = true;
                        s.subj_eos |= *eos;
                        if subj_parity(*sid) {
                            v.max_subj_id = v.max_subj_id.max(*sid);
                        }
                    } else {
                        // an interim (1xx) response is not the response head: DATA may not follow it, another HEADERS may
                        let interim = role == Side::Client
                            && f.block.as_ref().and_then(|b| b.fields.as_ref().ok()).map(|fs| fs.iter().any(|(n, val)| n == b":status" && val.first() == Some(&b'1') && val.len() == 3)).unwrap_or(false);
                        if !interim {
                            s.peer_hdr = true;
                        }
                        s.peer_eos |= *eos;
                        if !subj_parity(*sid) {
                            v.max_peer_id = v.max_peer_id.max(*sid);
                        }
                        v.peer_block_open = if *eh { None } else { Some(*sid) };
                    }
                }
                Parsed::Continuation { eh, .. } => {
                    if !from_subj && *eh {
                        v.peer_block_open = None;
                    }
                }
                Parsed::PushPromise { sid, promised, eh, .. } => {
                    if from_subj {
                        v.streams.entry(*promised).or_default().promised_by_subj = true;
                        v.max_subj_id = v.max_subj_id.max(*promised);
                    } else {
                        v.streams.entry(*promised).or_default().promised_by_peer = true;
                        v.max_peer_id = v.max_peer_id.max(*promised);
                        v.peer_block_open = if *eh { None } else { Some(*sid) };
                    }
                }
                Parsed::Data { sid, eos, .. } => {
                    let len = f.raw.payload.len() as i64;
                    let s = v.streams.entry(*sid).or_default();
                    if from_subj {
                        s.subj_eos |= *eos;
                        s.subj_flow += len;
                        v.conn_send_window -= len;
                    } else {
                        s.peer_eos |= *eos;
                        s.peer_flow += len;
                        v.conn_recv_window -= len;
                    }
                }
                Parsed::RstStream { sid, code } => {
                    let s = v.streams.entry(*sid).or_default();
                    if from_subj {
                        s.subj_rst = true;
                        s.subj_refused |= *code == 7;
                        // a stream identifier the subject has answered with RST_STREAM is used up, also when the peer never
                        // opened it (the reaction to e.g. a self-dependent PRIORITY on an idle stream is unspecified; after
                        // it neither side can treat the identifier as idle any more)
                        if !subj_parity(*sid) {
                            v.max_peer_id = v.max_peer_id.max(*sid);
                        }
                    } else {
                        s.peer_rst = true;
                    }
                }
                Parsed::WindowUpdate { sid, inc } => {
                    if *sid == 0 {
                        if from_subj {
                            v.conn_recv_window += *inc as i64;
                        } else {
                            v.conn_send_window += *inc as i64;
                        }
                    } else {
                        let s = v.streams.entry(*sid).or_default();
                        if from_subj {
                            s.subj_wu += *inc as i64;
                        } else {
                            s.peer_wu += *inc as i64;
                        }
                    }
                }
                Parsed::GoAway { last, .. } => {
                    if from_subj {
                        v.goaway_sent = Some(*last);
                    } else {
                        v.goaway_recv = Some(*last);
                    }
                }
                _ => {}
            }
        }
        // settings in force (acknowledged)
        let subj = &t.mon.acked[role.idx()];
        let peer = &t.mon.acked[role.other().idx()];
        if let Some(x) = subj.get(&wf::setting::INITIAL_WINDOW_SIZE) {
            v.subj_iws = *x as i64;
        }
        if let Some(x) = peer.get(&wf::setting::INITIAL_WINDOW_SIZE) {
            v.peer_iws = *x as i64;
        }
        if let Some(x) = subj.get(&wf::setting::ENABLE_PUSH) {
            v.push_enabled = *x != 0;
        }
        if let Some(x) = subj.get(&wf::setting::MAX_FRAME_SIZE) {
            v.subj_max_frame = *x as usize;
        }
        v
    }
    fn subj_parity(&self, sid: u32) -> bool {
        if self.role == Side::Client {
            sid % 2 == 1
        } else {
            sid % 2 == 0
        }
    }
    pub fn next_peer_id(&self) -> u32 {
        let base = if self.role == Side::Client { 2 } else { 1 };
        if self.max_peer_id == 0 {
            base
        } else {
            self.max_peer_id + 2
        }
    }
}

#[derive(Clone, Copy, Debug, PartialEq, Eq)]
pub enum St {
    /// never used, peer's parity, above everything seen
    IdleNew,
    /// never used but below an identifier the peer has already used (implicitly closed)
    IdleLow,
    /// subject's parity, never opened on the wire by the subject
    IdleOwn,
    ReservedRemote,
    ReservedLocal,
    /// the peer may still send on it
    RecvOpen,
    RecvEnded,
    ResetByPeer,
    ResetBySubject,
}

pub fn state_of(v: &View, sid: u32) -> St {
    match v.streams.get(&sid) {
        None => {
            if v.subj_parity(sid) {
                St::IdleOwn
            } else if sid > v.max_peer_id {
                St::IdleNew
            } else {
                St::IdleLow
            }
        }
        Some(s) => {
            if s.subj_rst {
                St::ResetBySubject
            } else if s.peer_rst {
                St::ResetByPeer
            } else if s.peer_eos {
                St::RecvEnded
            } else if s.promised_by_peer && !s.peer_hdr {
                St::ReservedRemote
            } else if s.promised_by_subj && !s.subj_hdr {
                St::ReservedLocal
            } else if !s.peer_hdr && !s.subj_hdr {
                // only PRIORITY / WINDOW_UPDATE so far
                if v.subj_parity(sid) {
                    St::IdleOwn
                } else if sid > v.max_peer_id {
                    St::IdleNew
                } else {
                    St::IdleLow
                }
            } else {
                St::RecvOpen
            }
        }
    }
}

#[derive(Clone, Debug, PartialEq, Eq)]
pub enum Class {
    /// connection error: GOAWAY with a non-zero code, connection ends
    Conn,
    /// stream error on this stream: RST_STREAM on it, or escalation to a connection error
    Stream(u32),
    /// legal: no error; (carries content for a live stream: bool)
    Ok { content: bool },
    /// RFC leaves it open / versions differ: only "no panic, nothing surfaces"
    Unspecified,
}

#[derive(Clone, Debug, Default)]
pub struct EvAttr {
    /// the header block in this frame is not valid HPACK
    pub bad_hpack: bool,
    /// memory of locally reset streams has expired in this state (RFC allows treating late frames as errors)
    pub reset_forgotten: bool,
    /// the harness knows that the CONTINUATION frames of this event complete a valid header block
    pub block_valid: bool,
}

pub fn classify(v: &View, f: &RawFrame, a: &EvAttr) -> Class {
    let sid = f.stream();
    if f.payload.len() > v.subj_max_frame {
        return Class::Conn;
    }
    if let Some(bs) = v.peer_block_open {
        if !(f.ty == wf::ty::CONTINUATION && sid == bs) {
            return Class::Conn;
        }
    } else if f.ty == wf::ty::CONTINUATION {
        return Class::Conn;
    }
    let parsed = match f.parse() {
        Ok(p) => p,
        Err(Defect::FrameSizeConn) | Err(Defect::ProtocolConn) | Err(Defect::FlowControlConn) => return Class::Conn,
        Err(Defect::FrameSizeStream) | Err(Defect::ProtocolStream) => {
            return match state_of(v, sid) {
                // nothing left to reset (the RFC does not ask for a second RST_STREAM), or not a stream yet
                St::ResetBySubject | St::ResetByPeer | St::RecvEnded | St::IdleLow => Class::Unspecified,
                // a stream that does not exist yet cannot sensibly be reset (PRIORITY does not create it)
                St::IdleNew | St::IdleOwn if f.ty != wf::ty::HEADERS => Class::Unspecified,
                _ => Class::Stream(sid),
            };
        }
    };
    // RFC 9113 6.8: "After sending a GOAWAY frame, the sender can discard frames for streams initiated by the receiver with
    // identifiers higher than the identified last stream" - whatever the subject does with them is its choice
    if let Some(l) = v.goaway_sent {
        if sid != 0 && sid > l && !v.subj_parity(sid) {
            return Class::Unspecified;
        }
    }
    let st = state_of(v, sid);
    let forgotten = a.reset_forgotten && st == St::ResetBySubject;
    match parsed {
        Parsed::Data { .. } => match st {
            // RFC 9113 5.1.1: the first use of a new identifier implicitly closes the lower idle ones: DATA there is STREAM_CLOSED
            St::IdleLow => Class::Stream(sid),
            St::IdleNew | St::IdleOwn => Class::Conn,
            // RFC 9113 5.1 asks for a connection error; the violation is confined to one stream, for which the property
            // demands "at least a RST_STREAM"
            St::ReservedRemote | St::ReservedLocal => Class::Stream(sid),
            St::ResetBySubject => {
                if forgotten {
                    Class::Unspecified
                } else if f.payload.len() as i64 > v.conn_recv_window {
                    Class::Conn
                } else {
                    Class::Ok { content: false }
                }
            }
            St::ResetByPeer | St::RecvEnded => Class::Stream(sid),
            St::RecvOpen => {
                let s = &v.streams[&sid];
                if !s.peer_hdr {
                    // DATA before the response head
                    return Class::Stream(sid);
                }
                let len = f.payload.len() as i64;
                if len == 0 {
                    // zero-length DATA is not flow-controlled: legal even while a window is zero or negative
                    return Class::Ok { content: false };
                }
                if len > v.conn_recv_window {
                    Class::Conn
                } else if len > v.subj_iws + s.subj_wu - s.peer_flow {
                    Class::Stream(sid)
                } else {
                    Class::Ok { content: true }
                }
            }
        },
        Parsed::Headers { eos, eh, .. } => {
            if a.bad_hpack && eh {
                return Class::Conn;
            }
            match st {
                St::IdleNew => {
                    if v.role == Side::Server {
                        if v.goaway_sent.is_some() {
                            Class::Unspecified
                        } else {
                            Class::Ok { content: true }
                        }
                    } else {
                        Class::Conn
                    }
                }
                St::IdleLow | St::IdleOwn => Class::Conn,
                St::ReservedLocal => Class::Stream(sid),
                St::ReservedRemote => Class::Ok { content: true },
                St::RecvOpen => {
                    let s = &v.streams[&sid];
                    if !s.peer_hdr {
                        Class::Ok { content: true }
                    } else if eos {
                        Class::Ok { content: true }
                    } else {
                        Class::Stream(sid)
                    }
                }
                St::RecvEnded | St::ResetByPeer => Class::Stream(sid),
                St::ResetBySubject => {
                    // a refused stream never existed for the subject: late trailers cannot be told from an attempt to reuse
                    // the identifier (RFC 9113 5.1.1 connection error), so either reaction is acceptable
                    if forgotten || v.streams[&sid].subj_refused {
                        Class::Unspecified
                    } else {
                        Class::Ok { content: false }
                    }
                }
            }
        }
        Parsed::Priority { .. } => Class::Ok { content: false },
        Parsed::RstStream { .. } => match st {
            St::IdleNew | St::IdleOwn => Class::Conn,
            _ => Class::Ok { content: false },
        },
        Parsed::Settings { ack, ref params } => {
            if ack {
                Class::Unspecified
            } else {
                // RFC 9113 6.9.2: a change of SETTINGS_INITIAL_WINDOW_SIZE that takes any flow-control window past 2^31-1
                // is a connection error (the subject's send windows: acknowledged initial size + updates - octets sent)
                if let Some((_, n)) = params.iter().rev().find(|(id, _)| *id == wf::setting::INITIAL_WINDOW_SIZE) {
                    let delta = *n as i64 - v.peer_iws;
                    let overflow = v.streams.iter().any(|(id, sv)| {
                        let open_for_sending = (sv.subj_hdr || sv.promised_by_subj || sv.peer_hdr) && !sv.subj_eos && !sv.subj_rst && !sv.peer_rst && *id != 0;
                        open_for_sending && v.peer_iws + sv.peer_wu - sv.subj_flow + delta > 0x7fff_ffff
                    });
                    if overflow {
                        return Class::Conn;
                    }
                }
                Class::Ok { content: false }
            }
        }
        Parsed::Ping { .. } => Class::Ok { content: false },
        Parsed::GoAway { .. } => Class::Unspecified,
        Parsed::WindowUpdate { inc, .. } => {
            if sid == 0 {
                if v.conn_send_window + inc as i64 > 0x7fff_ffff {
                    Class::Conn
                } else {
                    Class::Ok { content: false }
                }
            } else {
                match st {
                    St::IdleNew | St::IdleOwn => Class::Conn,
                    St::IdleLow | St::ResetBySubject | St::ResetByPeer => Class::Ok { content: false },
                    _ => {
                        let s = &v.streams[&sid];
                        if s.subj_eos {
                            // the subject no longer sends on it; nothing to overflow that matters
                            Class::Ok { content: false }
                        } else if v.peer_iws + s.peer_wu - s.subj_flow + inc as i64 > 0x7fff_ffff {
                            Class::Stream(sid)
                        } else {
                            Class::Ok { content: false }
                        }
                    }
                }
            }
        }
        Parsed::PushPromise { promised, eh, .. } => {
            if v.role == Side::Server {
                return Class::Conn;
            }
            if a.bad_hpack && eh {
                return Class::Conn;
            }
            if !v.push_enabled {
                return Class::Conn;
            }
            let parent_ok = match st {
                St::RecvOpen => v.subj_parity(sid) && v.streams[&sid].subj_hdr,
                _ => false,
            };
            if st == St::ResetBySubject {
                // "an endpoint that has sent RST_STREAM on the associated stream MUST handle PUSH_PROMISE frames that might
                // have been created before the RST_STREAM frame is received and processed"
                if promised == 0 || promised % 2 != 0 {
                    return Class::Conn;
                }
                return if forgotten || !v.subj_parity(sid) || promised <= v.max_peer_id { Class::Unspecified } else { Class::Ok { content: false } };
            }
            if !parent_ok {
                return Class::Conn;
            }
            if promised == 0 || promised % 2 != 0 || promised <= v.max_peer_id {
                return Class::Conn;
            }
            if v.goaway_sent.is_some() {
                return Class::Unspecified;
            }
            Class::Ok { content: true }
        }
        Parsed::Continuation { eh, .. } => {
            // whether the completed block decodes is only known to whoever built it
            if eh && !a.block_valid {
                Class::Unspecified
            } else {
                Class::Ok { content: false }
            }
        }
        Parsed::Unknown { .. } => Class::Ok { content: false },
    }
}

// ---------------------------------------------------------------------------------------------
// state catalogue

#[derive(Clone, Debug)]
pub struct StateSpec {
    pub name: &'static str,
    pub role: Side,
    /// a follow-up exchange on a new stream is possible in this state
    pub followup: bool,
    pub expire_now: bool,
    pub max_concurrent_1: bool,
    pub push_disabled: bool,
    /// the client itself advertises SETTINGS_MAX_CONCURRENT_STREAMS = 1 (it limits the streams the server may push)
    pub client_limit_1: bool,
}

const MARK: [u8; 3] = [0xee, 0xee, 0xee];

pub fn cfg_for(s: &StateSpec) -> T2Cfg {
    let mut cb = client::Builder::new();
    let mut sb = server::Builder::new();
    let dur = if s.expire_now { std::time::Duration::from_secs(0) } else { std::time::Duration::from_secs(3600) };
    cb.reset_stream_duration(dur);
    sb.reset_stream_duration(dur);
    if s.push_disabled {
        cb.enable_push(false);
    }
    if s.max_concurrent_1 {
        sb.max_concurrent_streams(1);
    }
    if s.client_limit_1 {
        cb.max_concurrent_streams(1);
    }
    let peer_settings = if s.max_concurrent_1 && s.role == Side::Client { vec![(wf::setting::MAX_CONCURRENT_STREAMS, 1)] } else { vec![] };
    T2Cfg { role: s.role, peer_settings, client: Some(cb), server: Some(sb), policy: IoPolicy::default() }
}

pub fn states() -> Vec<StateSpec> {
    let s = |name: &'static str, role: Side, followup: bool| StateSpec { name, role, followup, expire_now: false, max_concurrent_1: false, push_disabled: false, client_limit_1: false };
    use Side::*;
    vec![
        s("s-fresh", Server, true),
        s("s-open", Server, true),
        s("s-half-closed-remote", Server, true),
        s("s-response-open", Server, true),
        s("s-half-closed-local", Server, true),
        s("s-closed", Server, true),
        s("s-local-reset", Server, true),
        StateSpec { expire_now: true, ..s("s-local-reset-forgotten", Server, true) },
        s("s-remote-reset", Server, true),
        s("s-block-in-progress", Server, false),
        s("s-goaway-sent", Server, false),
        s("s-goaway-received", Server, false),
        s("s-goaway-final", Server, false),
        s("s-two-open", Server, true),
        s("s-open-5", Server, true),
        s("s-pushed", Server, true),
        s("s-settings-in-flight", Server, true),
        StateSpec { max_concurrent_1: true, ..s("s-refused", Server, false) },
        s("s-recv-window-negative", Server, true),
        s("s-conn-window-exhausted", Server, false),
        s("s-trailers-received", Server, true),
        s("c-fresh", Client, true),
        s("c-request-open", Client, true),
        s("c-half-closed-local", Client, true),
        s("c-response-open", Client, true),
        s("c-half-closed-remote", Client, true),
        s("c-closed", Client, true),
        s("c-local-reset", Client, true),
        StateSpec { expire_now: true, ..s("c-local-reset-forgotten", Client, true) },
        s("c-remote-reset", Client, true),
        s("c-block-in-progress", Client, false),
        s("c-goaway-received", Client, false),
        s("c-promised", Client, true),
        StateSpec { max_concurrent_1: true, ..s("c-request-parked", Client, false) },
        s("c-settings-in-flight", Client, true),
        StateSpec { push_disabled: true, ..s("c-push-disabled", Client, true) },
        s("c-send-window-negative", Client, true),
        s("c-conn-window-exhausted", Client, false),
        s("c-interim-received", Client, true),
        // two streams promised, the first of them opened: the client's own limit of one concurrent (pushed) stream is reached
        StateSpec { client_limit_1: true, ..s("c-push-limit-reached", Client, true) },
    ]
}

/// application-side handles kept by a state
#[derive(Default)]
pub struct App {
    pub resp_futs: Vec<(u32, client::ResponseFuture)>,
    pub send_streams: Vec<(u32, h2::SendStream<Bytes>)>,
    pub bodies: Vec<(u32, h2::RecvStream)>,
    pub flag: Option<std::sync::Arc<Flag>>,
    /// client: the push-promise streams of the requests, the pushed responses still awaited, promises received so far
    pub push_streams: Vec<(u32, client::PushPromises)>,
    pub pushed_futs: Vec<(u32, client::PushedResponseFuture)>,
    pub promises_seen: usize,
}

impl App {
    /// drop the handles one at a time (see `t2::safe_drop`)
    pub fn release(self, panics: &mut Vec<String>) {
        for (_, x) in self.resp_futs {
            safe_drop(panics, "ResponseFuture", x);
        }
        for (_, x) in self.send_streams {
            safe_drop(panics, "SendStream", x);
        }
        for (_, x) in self.bodies {
            safe_drop(panics, "RecvStream", x);
        }
        for (_, x) in self.pushed_futs {
            safe_drop(panics, "PushedResponseFuture", x);
        }
        for (_, x) in self.push_streams {
            safe_drop(panics, "PushPromises", x);
        }
    }
}

fn client_request(t: &mut T2, app: &mut App, post: bool) -> Option<u32> {
    let sr = t.send_request.as_mut()?;
    let flag = app.flag.get_or_insert_with(|| Flag::new(false)).clone();
    let w = waker_of(&flag);
    let mut cx = Context::from_waker(&w);
    let mut panics = vec![];
    let r = guarded(&mut panics, "send_request", || {
        match sr.poll_ready(&mut cx) {
            Poll::Ready(Ok(())) => {}
            _ => return None,
        }
        sr.send_request(simple_request("/x", post), !post).ok()
    });
    t.panics.extend(panics);
    let (mut rf, ss) = r??;
    let sid = rf.stream_id().as_u32();
    app.push_streams.push((sid, rf.push_promises()));
    app.resp_futs.push((sid, rf));
    app.send_streams.push((sid, ss));
    Some(sid)
}

fn server_respond(t: &mut T2, sid: u32, eos: bool) {
    let mut panics = vec![];
    if let Some(a) = t.accepted.iter_mut().find(|a| a.sid == sid) {
        if let Some(r) = a.respond.as_mut() {
            let res = guarded(&mut panics, "send_response", || r.send_response(simple_response(200), eos));
            if let Some(Ok(ss)) = res {
                a.send = Some(ss);
            }
        }
    }
    t.panics.extend(panics);
}

/// Bring a freshly handshaken T2 into the named state. Returns the application handles.
pub fn enter(t: &mut T2, s: &StateSpec) -> App {
    let mut app = App::default();
    let d = 40;
    match s.name {
        "s-fresh" | "c-fresh" | "c-push-disabled" if s.name != "c-push-disabled" => {}
        "s-open" => {
            t.peer_request(1, "/a", false);
            t.drive(d);
        }
        "s-half-closed-remote" => {
            t.peer_request(1, "/a", true);
            t.drive(d);
        }
        "s-response-open" => {
            t.peer_request(1, "/a", false);
            t.drive(d);
            server_respond(t, 1, false);
            t.drive(d);
        }
        "s-half-closed-local" => {
            t.peer_request(1, "/a", false);
            t.drive(d);
            server_respond(t, 1, true);
            t.drive(d);
        }
        "s-closed" => {
            t.peer_request(1, "/a", true);
            t.drive(d);
            server_respond(t, 1, true);
            t.drive(d);
        }
        "s-local-reset" | "s-local-reset-forgotten" => {
            t.peer_request(1, "/a", false);
            t.drive(d);
            if let Some(a) = t.accepted.iter_mut().find(|a| a.sid == 1) {
                if let Some(r) = a.respond.as_mut() {
                    r.send_reset(Reason::CANCEL);
                }
            }
            t.drive(d);
            if s.expire_now {
                std::thread::sleep(std::time::Duration::from_micros(50));
                t.conn_flag.wake_by_ref_pub();
                t.drive(d);
            }
        }
        "s-remote-reset" => {
            t.peer_request(1, "/a", false);
            t.drive(d);
            t.peer_send(&wf::rst_stream(1, 8));
            t.drive(d);
        }
        "s-block-in-progress" => {
            let b = T2::block(&[(":method", "GET"), (":scheme", "http"), (":authority", "h.example"), (":path", "/a")]);
            t.peer_send(&wf::headers(1, &b[..5], true, false));
            t.drive(d);
        }
        "s-goaway-sent" => {
            t.peer_request(1, "/a", false);
            t.drive(d);
            if let Conn::Server(c) = &mut t.conn {
                c.graceful_shutdown();
            }
            t.conn_flag.wake_by_ref_pub();
            t.drive(d);
        }
        "s-goaway-final" => {
            // graceful shutdown completed its handshake: GOAWAY(2^31-1), PING, acknowledgement, GOAWAY(1); stream 1 still open
            t.peer_request(1, "/a", false);
            t.drive(d);
            if let Conn::Server(c) = &mut t.conn {
                c.graceful_shutdown();
            }
            t.conn_flag.wake_by_ref_pub();
            t.drive(d);
            let pings: Vec<[u8; 8]> = t.subject_frames().iter().filter_map(|f| if let Ok(Parsed::Ping { ack: false, payload }) = &f.parsed { Some(*payload) } else { None }).collect();
            for p in pings {
                t.peer_send(&wf::ping(p, true));
            }
            t.drive(d);
        }
        "s-goaway-received" => {
            t.peer_request(1, "/a", false);
            t.drive(d);
            t.peer_send(&wf::goaway(1, 0, b""));
            t.drive(d);
        }
        "s-two-open" => {
            t.peer_request(1, "/a", false);
            t.peer_request(3, "/b", false);
            t.drive(d);
        }
        "s-open-5" => {
            t.peer_request(5, "/a", false);
            t.drive(d);
        }
        "s-pushed" => {
            t.peer_request(1, "/a", true);
            t.drive(d);
            let mut panics = vec![];
            if let Some(a) = t.accepted.iter_mut().find(|a| a.sid == 1) {
                if let Some(r) = a.respond.as_mut() {
                    let _ = guarded(&mut panics, "push_request", || r.push_request(simple_request("/pushed", false)).map(|p| std::mem::forget(p)));
                }
            }
            t.panics.extend(panics);
            t.drive(d);
        }
        "s-settings-in-flight" => {
            t.peer_request(1, "/a", false);
            t.drive(d);
            if let Conn::Server(c) = &mut t.conn {
                let _ = c.set_initial_window_size(1000);
            }
            t.conn_flag.wake_by_ref_pub();
            t.drive(d);
        }
        "s-refused" => {
            t.peer_request(1, "/a", false);
            t.drive(d);
            t.peer_request(3, "/b", false);
            t.drive(d);
        }
        "c-request-open" => {
            client_request(t, &mut app, true);
            t.drive(d);
        }
        "s-recv-window-negative" => {
            // the peer has used part of the stream window, then the application lowers the initial window to 0 and the peer
            // acknowledges: the stream's receive window is negative
            t.peer_request(1, "/a", false);
            t.drive(d);
            t.peer_send(&wf::data(1, &[0x11; 100], false));
            t.drive(d);
            if let Conn::Server(c) = &mut t.conn {
                let _ = c.set_initial_window_size(0);
            }
            t.conn_flag.wake_by_ref_pub();
            t.drive(d);
            t.peer_ack_settings();
            t.drive(d);
        }
        "s-conn-window-exhausted" => {
            // the peer has used the whole connection window (65535 octets over three streams, nothing read or released)
            for sid in [1u32, 3, 5] {
                t.peer_request(sid, "/a", false);
            }
            t.drive(d);
            t.peer_send(&wf::data(1, &vec![0x11; 16384], false));
            t.peer_send(&wf::data(1, &vec![0x11; 16384], false));
            t.peer_send(&wf::data(3, &vec![0x11; 16384], false));
            t.peer_send(&wf::data(3, &vec![0x11; 16383], false));
            t.drive(d);
        }
        "s-trailers-received" => {
            // request complete: head, data, trailers with END_STREAM; response not yet started; plus a second open stream
            t.peer_request(1, "/a", false);
            t.peer_send(&wf::data(1, b"abc", false));
            t.peer_send(&wf::headers(1, &T2::block(&[("x-trailer", "t")]), true, true));
            t.peer_request(3, "/b", false);
            t.drive(d);
        }
        "c-conn-window-exhausted" => {
            client_request(t, &mut app, false);
            client_request(t, &mut app, false);
            t.drive(d);
            t.peer_response(1, "200", false);
            t.peer_response(3, "200", false);
            t.peer_send(&wf::data(1, &vec![0x11; 16384], false));
            t.peer_send(&wf::data(1, &vec![0x11; 16384], false));
            t.peer_send(&wf::data(3, &vec![0x11; 16384], false));
            t.peer_send(&wf::data(3, &vec![0x11; 16383], false));
            t.drive(d);
        }
        "c-interim-received" => {
            client_request(t, &mut app, false);
            t.drive(d);
            t.peer_response(1, "103", false);
            t.drive(d);
        }
        "c-send-window-negative" => {
            // the client has sent part of a body, then the peer lowers INITIAL_WINDOW_SIZE to 0: the send window is negative
            client_request(t, &mut app, true);
            t.drive(d);
            if let Some((_, ss)) = app.send_streams.first_mut() {
                let _ = ss.send_data(Bytes::from(vec![0x22; 100]), false);
            }
            t.drive(d);
            t.peer_send(&wf::settings(&[(wf::setting::INITIAL_WINDOW_SIZE, 0)]));
            t.drive(d);
        }
        "c-half-closed-local" => {
            client_request(t, &mut app, false);
            t.drive(d);
        }
        "c-response-open" => {
            client_request(t, &mut app, true);
            t.drive(d);
            t.peer_response(1, "200", false);
            t.drive(d);
        }
        "c-half-closed-remote" => {
            client_request(t, &mut app, true);
            t.drive(d);
            t.peer_response(1, "200", true);
            t.drive(d);
        }
        "c-closed" => {
            client_request(t, &mut app, false);
            t.drive(d);
            t.peer_response(1, "200", true);
            t.drive(d);
        }
        "c-local-reset" | "c-local-reset-forgotten" => {
            client_request(t, &mut app, true);
            t.drive(d);
            if let Some((_, ss)) = app.send_streams.first_mut() {
                ss.send_reset(Reason::CANCEL);
            }
            t.drive(d);
            if s.expire_now {
                std::thread::sleep(std::time::Duration::from_micros(50));
                t.conn_flag.wake_by_ref_pub();
                t.drive(d);
            }
        }
        "c-remote-reset" => {
            client_request(t, &mut app, true);
            t.drive(d);
            t.peer_send(&wf::rst_stream(1, 8));
            t.drive(d);
        }
        "c-block-in-progress" => {
            client_request(t, &mut app, false);
            t.drive(d);
            let b = T2::block(&[(":status", "200")]);
            t.peer_send(&wf::headers(1, &b[..2], true, false));
            t.drive(d);
        }
        "c-goaway-received" => {
            client_request(t, &mut app, true);
            t.drive(d);
            t.peer_send(&wf::goaway(1, 0, b""));
            t.drive(d);
        }
        "c-promised" => {
            client_request(t, &mut app, false);
            t.drive(d);
            let b = T2::block(&[(":method", "GET"), (":scheme", "http"), (":authority", "h.example"), (":path", "/pushed")]);
            t.peer_send(&wf::push_promise(1, 2, &b, true));
            t.drive(d);
        }
        "c-push-limit-reached" => {
            client_request(t, &mut app, false);
            t.drive(d);
            let b = T2::block(&[(":method", "GET"), (":scheme", "http"), (":authority", "h.example"), (":path", "/pushed")]);
            t.peer_send(&wf::push_promise(1, 2, &b, true));
            t.peer_send(&wf::push_promise(1, 4, &b, true));
            t.peer_response(2, "200", false);
            t.drive(d);
        }
        "c-request-parked" => {
            client_request(t, &mut app, true);
            t.drive(d);
            // second request: gets an identifier but stays parked behind MAX_CONCURRENT_STREAMS = 1
            client_request(t, &mut app, true);
            t.drive(d);
        }
        "c-settings-in-flight" => {
            client_request(t, &mut app, true);
            t.drive(d);
            if let Conn::Client(c) = &mut t.conn {
                let _ = c.set_initial_window_size(1000);
            }
            t.conn_flag.wake_by_ref_pub();
            t.drive(d);
        }
        _ => {}
    }
    app
}

// ---------------------------------------------------------------------------------------------
// event catalogue

#[derive(Clone)]
pub struct Event {
    pub label: String,
    pub frames: Vec<RawFrame>,
    pub attr: EvAttr,
}

pub fn events_for(v: &View, s: &StateSpec) -> Vec<Event> {
    let mut out: Vec<Event> = vec![];
    let mut add = |label: &str, frames: Vec<RawFrame>| out.push(Event { label: label.to_string(), frames, attr: EvAttr { bad_hpack: false, reset_forgotten: s.expire_now, block_valid: true } });
    let server = v.role == Side::Server;
    // primary stream of the state and assorted identifiers
    let prim: u32 = if s.name == "s-open-5" { 5 } else if s.name == "c-request-parked" { 3 } else { 1 };
    let idle_peer = v.next_peer_id() + 2;
    let new_peer = v.next_peer_id();
    let own_idle = if server { v.max_subj_id.max(2) + 8 } else { v.max_subj_id + 8 };
    let req = T2::block(&[(":method", "GET"), (":scheme", "http"), (":authority", "h.example"), (":path", "/n")]);
    let resp = T2::block(&[(":status", "200")]);
    let trailers = T2::block(&[("x-trailer", "t")]);
    let head_block = if server { req.clone() } else { resp.clone() };
    let mut sids: Vec<(String, u32)> = vec![("prim".to_string(), prim), ("idle-peer".to_string(), idle_peer), ("own-idle".to_string(), own_idle)];
    // every other stream the history of this state has touched (refused, second open, promised ...)
    for (&other, _) in v.streams.iter().filter(|(&k, _)| k != prim).take(3) {
        sids.push((format!("other{}", other), other));
    }
    for (sl, sid) in &sids {
        let sid = *sid;
        add(&format!("DATA({})", sl), vec![wf::data(sid, &MARK, false)]);
        add(&format!("DATA-eos({})", sl), vec![wf::data(sid, &MARK, true)]);
        add(&format!("RST_STREAM({})", sl), vec![wf::rst_stream(sid, 8)]);
        add(&format!("WINDOW_UPDATE({})", sl), vec![wf::window_update(sid, 1)]);
        add(&format!("WINDOW_UPDATE-0({})", sl), vec![wf::window_update(sid, 0)]);
        add(&format!("PRIORITY({})", sl), vec![wf::priority(sid, false, 0, 0)]);
        add(&format!("HEADERS-eos({})", sl), vec![wf::headers(sid, if sid == prim && v.streams.get(&sid).map(|x| x.peer_hdr).unwrap_or(false) { &trailers } else { &head_block }, true, true)]);
        add(&format!("HEADERS({})", sl), vec![wf::headers(sid, if sid == prim && v.streams.get(&sid).map(|x| x.peer_hdr).unwrap_or(false) { &trailers } else { &head_block }, false, true)]);
        add(&format!("UNKNOWN-TYPE({})", sl), vec![RawFrame::new(0x20, 0xff, sid, vec![1, 2, 3])]);
    }
    add("DATA-empty(prim)", vec![wf::data(prim, &[], false)]);
    add("DATA-padded-255(prim)", vec![wf::data_padded(prim, &[], 255, false)]);
    add("DATA-pad-too-long(prim)", vec![RawFrame::new(wf::ty::DATA, wf::flag::PADDED, prim, vec![5, 1, 2, 3])]);
    // every Pad Length around the end of a five-octet payload (pad field + marker + 3): 0..=3 legal, 4 = all the rest, >= 5 too long
    for k in 0u8..=6 {
        add(&format!("DATA-pad{}-of-5(prim)", k), vec![RawFrame::new(wf::ty::DATA, wf::flag::PADDED, prim, vec![k, 0xee, 0, 0, 0])]);
    }
    // HEADERS opening a new stream, padded, with priority: Pad Length around the end of the payload
    {
        let nid = v.next_peer_id();
        if !server {
            // (a client subject receives no request HEADERS; responses are covered by the prim variants above)
        } else {
            // three octets of padding: legal; a Pad Length that fits the payload but not what is left for the field block
            // after the priority fields (RFC 9113 6.2: PROTOCOL_ERROR), by one octet and by all five
            for (label, pad) in [("exact", 3usize), ("into-priority-by-1", head_block.len() + 3 + 1), ("into-priority-by-5", head_block.len() + 3 + 5)] {
                if pad > 255 {
                    continue;
                }
                let mut payload = vec![pad as u8, 0, 0, 0, 0, 15];
                payload.extend(&head_block);
                payload.extend([0u8; 3]);
                add(&format!("HEADERS-padded-priority-{}(new)", label), vec![RawFrame::new(wf::ty::HEADERS, wf::flag::PADDED | wf::flag::PRIORITY | wf::flag::END_HEADERS | wf::flag::END_STREAM, nid, payload)]);
            }
        }
    }
    add("DATA(0)", vec![wf::data(0, &MARK, false)]);
    add("DATA-over-stream-window(prim)", vec![wf::data(prim, &vec![0x11; 16384], false), wf::data(prim, &vec![0x11; 16384], false), wf::data(prim, &vec![0x11; 16384], false), wf::data(prim, &vec![0xee; 16384], false)]);
    add("DATA-unknown-flags(prim)", vec![RawFrame::new(wf::ty::DATA, 0x2 | 0x4 | 0x10 | 0x40, prim, MARK.to_vec())]);
    add("HEADERS(new-peer)", vec![wf::headers(new_peer, &head_block, true, true)]);
    add("HEADERS(0)", vec![wf::headers(0, &head_block, true, true)]);
    add("HEADERS-self-dependency(new-peer)", vec![wf::headers_full(new_peer, &head_block, true, true, None, Some((false, new_peer, 10)))]);
    add("HEADERS-padded-priority(new-peer)", vec![wf::headers_full(new_peer, &head_block, true, true, Some(9), Some((true, 0, 255)))]);
    {
        let mut e = Event { label: "HEADERS-bad-hpack(new-peer)".into(), frames: vec![wf::headers(new_peer, &[0x80], true, true)], attr: EvAttr { bad_hpack: true, reset_forgotten: s.expire_now, block_valid: false } };
        out.push(e.clone());
        e.label = "HEADERS-bad-hpack(prim)".into();
        e.frames = vec![wf::headers(prim, &[0x80], true, true)];
        out.push(e);
    }
    let mut add = |label: &str, frames: Vec<RawFrame>| out.push(Event { label: label.to_string(), frames, attr: EvAttr { bad_hpack: false, reset_forgotten: s.expire_now, block_valid: !label.contains("stray") } });
    add("HEADERS+DATA-inside-block(new-peer)", vec![wf::headers(new_peer, &head_block[..3], true, false), wf::data(prim, &MARK, false)]);
    add("HEADERS+CONTINUATION-other-stream", vec![wf::headers(new_peer, &head_block[..3], true, false), wf::continuation(new_peer + 2, &head_block[3..], true)]);
    add("HEADERS+empty-CONTINUATION+CONTINUATION(new-peer)", vec![wf::headers(new_peer, &head_block[..3], true, false), wf::continuation(new_peer, &[], false), wf::continuation(new_peer, &head_block[3..], true)]);
    add("HEADERS+UNKNOWN-inside-block", vec![wf::headers(new_peer, &head_block[..3], true, false), RawFrame::new(0x20, 0, 0, vec![])]);
    add("CONTINUATION-stray(prim)", vec![wf::continuation(prim, &[], true)]);
    add("PRIORITY(0)", vec![wf::priority(0, false, 1, 1)]);
    add("PRIORITY-len4(prim)", vec![RawFrame::new(wf::ty::PRIORITY, 0, prim, vec![0, 0, 0, 0])]);
    add("PRIORITY-self(prim)", vec![wf::priority(prim, false, prim, 1)]);
    add("RST_STREAM(0)", vec![wf::rst_stream(0, 8)]);
    add("RST_STREAM-len3(prim)", vec![RawFrame::new(wf::ty::RST_STREAM, 0, prim, vec![0, 0, 8])]);
    add("SETTINGS-empty", vec![wf::settings(&[])]);
    add("SETTINGS-unknown-id", vec![wf::settings(&[(0x99, 7), (0xffff, 0xffff_ffff)])]);
    add("SETTINGS(sid=1)", vec![RawFrame::new(wf::ty::SETTINGS, 0, 1, vec![])]);
    add("SETTINGS-len5", vec![RawFrame::new(wf::ty::SETTINGS, 0, 0, vec![0, 4, 0, 0, 1])]);
    add("SETTINGS-enable-push-2", vec![wf::settings(&[(2, 2)])]);
    add("SETTINGS-window-2^31", vec![wf::settings(&[(4, 0x8000_0000)])]);
    add("SETTINGS-max-frame-100", vec![wf::settings(&[(5, 100)])]);
    add("SETTINGS-ack-with-payload", vec![RawFrame::new(wf::ty::SETTINGS, wf::flag::ACK, 0, vec![0, 4, 0, 0, 0, 1])]);
    add("SETTINGS-window-0-then-65535", vec![wf::settings(&[(4, 0)]), wf::settings(&[(4, 65535)])]);
    add("PING", vec![wf::ping([1, 2, 3, 4, 5, 6, 7, 8], false)]);
    add("PING-ack-unsolicited", vec![wf::ping([9; 8], true)]);
    add("PING(sid=1)", vec![RawFrame::new(wf::ty::PING, 0, 1, vec![0; 8])]);
    add("PING-len7", vec![RawFrame::new(wf::ty::PING, 0, 0, vec![0; 7])]);
    add("GOAWAY(sid=1)", vec![RawFrame::new(wf::ty::GOAWAY, 0, 1, vec![0, 0, 0, 0, 0, 0, 0, 0])]);
    add("GOAWAY-len7", vec![RawFrame::new(wf::ty::GOAWAY, 0, 0, vec![0; 7])]);
    add("WINDOW_UPDATE(0)", vec![wf::window_update(0, 1)]);
    add("WINDOW_UPDATE-0(0)", vec![wf::window_update(0, 0)]);
    add("WINDOW_UPDATE-overflow(0)", vec![wf::window_update(0, 0x7fff_ffff)]);
    add("WINDOW_UPDATE-overflow(prim)", vec![wf::window_update(prim, 0x7fff_ffff)]);
    // exactly up to the maximum window (legal) and one octet beyond (overflow)
    {
        let room0 = 0x7fff_ffffi64 - v.conn_send_window;
        if room0 > 0 && room0 < 0x7fff_ffff {
            add("WINDOW_UPDATE-to-max(0)", vec![wf::window_update(0, room0 as u32)]);
            add("WINDOW_UPDATE-to-max+1(0)", vec![wf::window_update(0, room0 as u32 + 1)]);
        }
        if let Some(sv) = v.streams.get(&prim) {
            let room = 0x7fff_ffffi64 - (v.peer_iws + sv.peer_wu - sv.subj_flow);
            if room > 0 && room < 0x7fff_ffff {
                add("WINDOW_UPDATE-to-max(prim)", vec![wf::window_update(prim, room as u32)]);
                add("WINDOW_UPDATE-to-max+1(prim)", vec![wf::window_update(prim, room as u32 + 1)]);
            }
        }
    }
    add("WINDOW_UPDATE-len3(0)", vec![RawFrame::new(wf::ty::WINDOW_UPDATE, 0, 0, vec![0, 0, 1])]);
    add("WINDOW_UPDATE-reserved-bit(0)", vec![RawFrame::new(wf::ty::WINDOW_UPDATE, 0, 0, vec![0x80, 0, 0, 1])]);
    add("UNKNOWN-TYPE(0)", vec![RawFrame::new(0xfe, 0, 0, vec![0; 40])]);
    add("FRAME-TOO-LARGE(prim)", vec![wf::data(prim, &vec![0xee; 16385], false)]);
    // push
    add("PUSH_PROMISE(prim->even)", vec![wf::push_promise(prim, v.max_peer_id.max(if server { 1 } else { 0 }) / 2 * 2 + 2, &req, true)]);
    add("PUSH_PROMISE(prim->odd)", vec![wf::push_promise(prim, 99, &req, true)]);
    add("PUSH_PROMISE(own-idle->even)", vec![wf::push_promise(own_idle, v.max_peer_id / 2 * 2 + 2, &req, true)]);
    add("PUSH_PROMISE-empty-fragment+CONTINUATION(prim)", vec![wf::push_promise(prim, v.max_peer_id / 2 * 2 + 2, &[], false), wf::continuation(prim, &req, true)]);
    add("PUSH_PROMISE(0)", vec![wf::push_promise(0, 2, &req, true)]);
    add("PUSH_PROMISE(prim->even)+HEADERS(promised)", vec![wf::push_promise(prim, v.max_peer_id / 2 * 2 + 2, &req, true), wf::headers(v.max_peer_id / 2 * 2 + 2, &resp, true, true)]);
    if v.max_peer_id >= 2 && !server {
        add("PUSH_PROMISE(prim->reused-id)", vec![wf::push_promise(prim, 2, &req, true)]);
    }
    if v.max_peer_id >= 5 && server {
        add("HEADERS(lower-unused-id)", vec![wf::headers(3, &head_block, true, true)]);
        add("DATA(lower-unused-id)", vec![wf::data(3, &MARK, false)]);
        add("RST_STREAM(lower-unused-id)", vec![wf::rst_stream(3, 8)]);
        add("WINDOW_UPDATE(lower-unused-id)", vec![wf::window_update(3, 1)]);
    }
    if server {
        add("HEADERS(even-id)", vec![wf::headers(own_idle, &head_block, true, true)]);
    }
    out
}

// ---------------------------------------------------------------------------------------------
// running one (state, event) pair

pub struct PairResult {
    pub vios: Vec<(String, String, String)>,
    pub class: String,
    pub transitions: u64,
    pub obs: u64,
}

fn app_saw_marker(t: &mut T2, app: &mut App) -> Option<String> {
    // anything the application can now read that carries the marker payload / an unexpected new message
    let flag = Flag::new(false);
    let w = waker_of(&flag);
    let mut cx = Context::from_waker(&w);
    let mut seen = None;
    let mut panics = vec![];
    for a in t.accepted.iter_mut() {
        if let Some(b) = a.body.as_mut() {
            for _ in 0..4 {
                match guarded(&mut panics, "poll_data", || b.poll_data(&mut cx)) {
                    Some(Poll::Ready(Some(Ok(d)))) => {
                        if d.iter().any(|&x| x == 0xee) {
                            seen = Some(format!("server body of stream {} delivered {} marker octets", a.sid, d.len()));
                        }
                    }
                    _ => break,
                }
            }
        }
    }
    // promises, pushed responses and their bodies
    for (_, pp) in app.push_streams.iter_mut() {
        for _ in 0..4 {
            match guarded(&mut panics, "poll_push_promise", || pp.poll_push_promise(&mut cx)) {
                Some(Poll::Ready(Some(Ok(p)))) => {
                    let (_req, prf) = p.into_parts();
                    app.promises_seen += 1;
                    app.pushed_futs.push((prf.stream_id().as_u32(), prf));
                }
                _ => break,
            }
        }
    }
    let mut k = 0;
    while k < app.pushed_futs.len() {
        let sid = app.pushed_futs[k].0;
        match guarded(&mut panics, "poll pushed response", || std::pin::Pin::new(&mut app.pushed_futs[k].1).poll_fut(&mut cx)) {
            Some(Poll::Ready(Ok(resp))) => {
                let (_, f) = app.pushed_futs.remove(k);
                safe_drop(&mut panics, "PushedResponseFuture", f);
                app.bodies.push((sid, resp.into_body()));
            }
            Some(Poll::Ready(Err(_))) => {
                let (_, f) = app.pushed_futs.remove(k);
                safe_drop(&mut panics, "PushedResponseFuture", f);
            }
            _ => k += 1,
        }
    }
    for (sid, rf) in app.resp_futs.iter_mut() {
        if app.bodies.iter().any(|(s, _)| s == sid) {
            continue;
        }
        match guarded(&mut panics, "poll response", || std::pin::Pin::new(rf).poll_fut(&mut cx)) {
            Some(Poll::Ready(Ok(resp))) => app.bodies.push((*sid, resp.into_body())),
            _ => {}
        }
    }
    for (sid, b) in app.bodies.iter_mut() {
        for _ in 0..4 {
            match guarded(&mut panics, "poll_data", || b.poll_data(&mut cx)) {
                Some(Poll::Ready(Some(Ok(d)))) => {
                    if d.iter().any(|&x| x == 0xee) {
                        seen = Some(format!("client body of stream {} delivered {} marker octets", sid, d.len()));
                    }
                }
                _ => break,
            }
        }
    }
    t.panics.extend(panics);
    seen
}

trait PollFut {
    type Out;
    fn poll_fut(self, cx: &mut Context<'_>) -> Poll<Self::Out>;
}
impl<'a, F: std::future::Future + Unpin> PollFut for std::pin::Pin<&'a mut F> {
    type Out = F::Output;
    fn poll_fut(self, cx: &mut Context<'_>) -> Poll<F::Output> {
        std::future::Future::poll(self, cx)
    }
}

/// A legal exchange on a fresh stream; returns None if it completes, else what went wrong.
pub fn followup(t: &mut T2, app: &mut App) -> Option<String> {
    t.catch_up();
    let v = View::from_wire(t);
    match t.role {
        Side::Server => {
            let sid = v.next_peer_id();
            let before = t.accepted.len();
            t.peer_request(sid, "/followup", true);
            t.drive(60);
            if t.accepted.len() != before + 1 || t.accepted.last().map(|a| a.sid) != Some(sid) {
                return Some(format!("a new request on stream {} was not handed to the application (connection: {:?})", sid, t.conn_result));
            }
            server_respond(t, sid, true);
            t.drive(60);
            let ok = t.subject_frames().iter().any(|f| matches!(&f.parsed, Ok(Parsed::Headers { sid: s, eos: true, .. }) if *s == sid));
            if !ok {
                return Some(format!("the response on stream {} never reached the wire", sid));
            }
            None
        }
        Side::Client => {
            let Some(sid) = client_request(t, app, false) else {
                return Some(format!("send_request failed (connection: {:?})", t.conn_result));
            };
            t.drive(60);
            let sent = t.subject_frames().iter().any(|f| matches!(&f.parsed, Ok(Parsed::Headers { sid: s, .. }) if *s == sid));
            if !sent {
                return Some(format!("the request on stream {} never reached the wire", sid));
            }
            t.peer_response(sid, "200", true);
            t.drive(60);
            let flag = Flag::new(false);
            let w = waker_of(&flag);
            let mut cx = Context::from_waker(&w);
            let (_, rf) = app.resp_futs.iter_mut().find(|(s, _)| *s == sid).unwrap();
            match std::future::Future::poll(std::pin::Pin::new(rf), &mut cx) {
                Poll::Ready(Ok(r)) if r.status() == 200 => None,
                Poll::Ready(Ok(r)) => Some(format!("follow-up response has status {}", r.status())),
                Poll::Ready(Err(e)) => Some(format!("follow-up response failed: {}", crate::scen::err_text(&e))),
                Poll::Pending => Some("follow-up response never arrived".into()),
            }
        }
    }
}

pub fn run_pair(s: &StateSpec, ev_label: &str, verbose: bool) -> Option<PairResult> {
    run_chain(s, &[], ev_label, verbose)
}

/// `prefix` events are injected first (each judged on its own in the run where it is the last event); they only serve to
/// reach further states. The chain is abandoned (None) when a prefix event ends the connection or draws a GOAWAY.
pub fn run_chain(s: &StateSpec, prefix: &[String], ev_label: &str, verbose: bool) -> Option<PairResult> {
    let cfg = cfg_for(s);
    let mut t = T2::new(&cfg, vec![]);
    let mut app = enter(&mut t, s);
    t.catch_up();
    for pl in prefix {
        let v0 = View::from_wire(&t);
        let evs = events_for(&v0, s);
        let pe = evs.iter().find(|e| &e.label == pl).cloned();
        let ok = match &pe {
            Some(pe) => {
                for f in &pe.frames {
                    t.peer_send(f);
                }
                let goaways_before = t.subject_frames().iter().filter(|f| f.raw.ty == wf::ty::GOAWAY).count();
                let q = t.drive(200);
                t.catch_up();
                let goaways_after = t.subject_frames().iter().filter(|f| f.raw.ty == wf::ty::GOAWAY).count();
                q && t.conn_result.is_none() && goaways_after == goaways_before && t.panics.is_empty()
            }
            None => false,
        };
        let _ = app_saw_marker(&mut t, &mut app);
        if verbose {
            println!("prefix event {} -> {}", pl, if ok { "connection continues" } else { "chain ends here" });
        }
        if !ok {
            let mut p = std::mem::take(&mut t.panics);
            app.release(&mut p);
            t.panics = p;
            let _ = t.finish();
            return None;
        }
    }
    let view = View::from_wire(&t);
    let evs = events_for(&view, s);
    let ev = evs.iter().find(|e| e.label == ev_label)?.clone();
    // classification of the event = classification of its first frame that is not plainly Ok, evaluated on the evolving view
    let frames_before = t.subject_frames().len();
    let accepted_before = t.accepted.len();
    let _ = app_saw_marker(&mut t, &mut app); // drain what the state itself delivered
    let promises_before = app.promises_seen;
    let mut class = Class::Ok { content: false };
    let mut v2 = view.clone();
    for f in &ev.frames {
        let c = classify(&v2, f, &ev.attr);
        if verbose {
            println!("  frame {} -> {:?} (stream state {:?})", f.short(), c, state_of(&v2, f.stream()));
        }
        match (&class, &c) {
            (Class::Ok { .. }, Class::Ok { content }) => class = Class::Ok { content: *content || matches!(class, Class::Ok { content: true }) },
            (Class::Ok { .. }, other) => {
                class = other.clone();
            }
            _ => {}
        }
        if !matches!(class, Class::Ok { .. }) {
            // later frames of the event are sent anyway (the peer does not know yet)
        }
        // evolve the view as the wire would
        t.peer_send(f);
        t.catch_up();
        v2 = View::from_wire(&t);
    }
    let quiesced = t.drive(200);
    t.catch_up();
    let new_frames: Vec<_> = t.subject_frames()[frames_before..].iter().map(|f| (*f).clone()).collect();
    let goaway = new_frames.iter().find_map(|f| if let Ok(Parsed::GoAway { code, last, .. }) = &f.parsed { Some((*last, *code)) } else { None });
    let rsts: Vec<(u32, u32)> = new_frames.iter().filter_map(|f| if let Ok(Parsed::RstStream { sid, code }) = &f.parsed { Some((*sid, *code)) } else { None }).collect();
    let marker = app_saw_marker(&mut t, &mut app);
    let new_accepts = t.accepted.len() - accepted_before + (app.promises_seen - promises_before);
    if verbose {
        println!("state {} + event {} => class {:?}", s.name, ev.label, class);
        println!("--- wire transcript\n{}", t.mon.transcript());
        println!("connection result: {:?}; new GOAWAY {:?}; new RST_STREAM {:?}; marker seen by app: {:?}; new accepts: {}", t.conn_result, goaway, rsts, marker, new_accepts);
    }
    let mut vios = vec![];
    let cname = match &class {
        Class::Conn => "conn",
        Class::Stream(_) => "stream",
        Class::Ok { .. } => "ok",
        Class::Unspecified => "unspecified",
    };
    let key = if prefix.is_empty() { format!("{}+{}", s.name, ev.label) } else { format!("{}+{}+{}", s.name, prefix.join("+"), ev.label) };
    if !quiesced {
        vios.push(("C09.no-quiescence".to_string(), key.clone(), "the connection task kept waking itself".to_string()));
    }
    match &class {
        Class::Conn => {
            match goaway {
                Some((_, code)) if code != 0 => {}
                Some((_, 0)) if view.goaway_sent.is_some() => {
                    vios.push(("C09.violation-not-detected".into(), key.clone(), format!("{}: connection-level violation {} answered only by GOAWAY(NO_ERROR)", s.name, ev.label)));
                }
                _ => vios.push(("C09.violation-not-detected".into(), key.clone(), format!("in state {} the frame(s) {} are a connection error per RFC 9113, but no GOAWAY with an error code was sent (new frames: {:?}, connection: {:?})", s.name, ev.label, new_frames.iter().map(|f| f.raw.short()).collect::<Vec<_>>(), t.conn_result))),
            }
            if let Some(m) = &marker {
                vios.push(("C09.illegal-frame-surfaced".into(), key.clone(), format!("{} / {}: {}", s.name, ev.label, m)));
            }
            if new_accepts > 0 && ev.frames.iter().all(|f| !matches!(classify(&view, f, &ev.attr), Class::Ok { .. })) {
                vios.push(("C09.illegal-frame-surfaced".into(), key.clone(), format!("{} / {}: a new request was handed to the application", s.name, ev.label)));
            }
        }
        Class::Stream(sid) => {
            let answered = rsts.iter().any(|(s2, _)| s2 == sid) || matches!(goaway, Some((_, c)) if c != 0);
            if !answered {
                vios.push(("C09.violation-not-detected".into(), key.clone(), format!("in state {} the frame(s) {} are a stream error on {} per RFC 9113, but neither RST_STREAM({}) nor GOAWAY was sent (new frames: {:?})", s.name, ev.label, sid, sid, new_frames.iter().map(|f| f.raw.short()).collect::<Vec<_>>())));
            }
            if let Some(m) = &marker {
                vios.push(("C09.illegal-frame-surfaced".into(), key.clone(), format!("{} / {}: {}", s.name, ev.label, m)));
            }
            if goaway.is_none() && s.followup && t.conn_result.is_none() {
                if let Some(why) = followup(&mut t, &mut app) {
                    vios.push(("C09.other-streams-disturbed".into(), key.clone(), format!("after the stream error {} / {}: {}", s.name, ev.label, why)));
                }
            }
        }
        Class::Ok { content } => {
            if let Some((_, code)) = goaway {
                if code != 0 || (view.goaway_sent.is_none() && view.goaway_recv.is_none()) {
                    vios.push(("C09.legal-traffic-penalised".into(), key.clone(), format!("in state {} the frame(s) {} are permitted by RFC 9113, but the endpoint sent GOAWAY(code {}) (connection: {:?})", s.name, ev.label, code, t.conn_result)));
                }
            }
            let promised: Vec<u32> = ev.frames.iter().filter_map(|f| if let Ok(Parsed::PushPromise { promised, .. }) = f.parse() { Some(promised) } else { None }).collect();
            for (rs, code) in &rsts {
                // REFUSED_STREAM for a new stream beyond the concurrency limit / after GOAWAY is not a penalty
                if *code == 7 {
                    continue;
                }
                // declining a stream the peer has just promised (RFC 9113 6.6 / 8.4.2) is the receiver's right
                if promised.contains(rs) {
                    continue;
                }
                // answering late frames on a stream we have already reset with another RST_STREAM on that same stream is
                // stream-scoped and explicitly allowed ("MAY ... treat frames that arrive after this time as being in error")
                if ev.frames.iter().all(|f| f.stream() == *rs) && matches!(state_of(&view, *rs), St::ResetBySubject) {
                    continue;
                }
                vios.push(("C09.legal-traffic-penalised".into(), key.clone(), format!("in state {} the frame(s) {} are permitted by RFC 9113, but the endpoint sent RST_STREAM({}, code {})", s.name, ev.label, rs, code)));
            }
            if *content && goaway.is_none() && rsts.is_empty() {
                // (the marker must be in the data proper, not in the padding)
                let is_data = ev.frames.iter().any(|f| matches!(f.parse(), Ok(Parsed::Data { ref data, .. }) if data.iter().any(|&b| b == 0xee)));
                if is_data && marker.is_none() && ev.frames.len() == 1 {
                    vios.push(("C09.legal-content-lost".into(), key.clone(), format!("{} / {}: the DATA payload was not delivered to the application", s.name, ev.label)));
                }
                // ... and nothing but the data proper: the chunk that carries the marker is as long as the frame's data
                // (Pad Length octet and padding stripped, whatever the Pad Length - also 0)
                if let (true, Some(m), 1) = (is_data, &marker, ev.frames.len()) {
                    let want = ev.frames.iter().find_map(|f| if let Ok(Parsed::Data { data, .. }) = f.parse() { Some(data.len()) } else { None }).unwrap_or(0);
                    let got: Option<usize> = m.split(" delivered ").nth(1).and_then(|x| x.split(' ').next()).and_then(|x| x.parse().ok());
                    if let Some(got) = got {
                        if got != want {
                            vios.push(("C09.legal-content-altered".into(), key.clone(), format!("{} / {}: the frame carries {} octets of data, the application was handed a chunk of {} octets", s.name, ev.label, want, got)));
                        }
                    }
                }
            }
            if goaway.is_none() && s.followup && t.conn_result.is_none() {
                if let Some(why) = followup(&mut t, &mut app) {
                    vios.push(("C09.legal-traffic-penalised".into(), key.clone(), format!("after the legal {} / {}: {}", s.name, ev.label, why)));
                }
            }
        }
        Class::Unspecified => {}
    }
    let transitions = t.events;
    let obs = fnv64(format!("{:?}|{:?}|{:?}|{:?}", goaway, rsts, marker, t.conn_result).as_bytes());
    let leftover = {
        let mut p = std::mem::take(&mut t.panics);
        app.release(&mut p);
        t.panics = p;
        t.finish()
    };
    if !leftover.is_empty() {
        // a panic aborts the reaction; what was (not) observed afterwards is a consequence of it
        vios.clear();
    }
    for p in leftover {
        let first = p.lines().next().unwrap_or("").to_string();
        vios.push(("C09.panic".into(), key.clone(), format!("{} / {}: panic: {}", s.name, ev.label, first)));
    }
    if verbose {
        for (r, _, w) in &vios {
            println!("RULE VIOLATED: {} {}", r, w);
        }
    }
    Some(PairResult { vios, class: cname.to_string(), transitions, obs })
}

/// labels of the events that exist after `prefix` (None: the prefix ends the connection)
pub fn labels_after(s: &StateSpec, prefix: &[String]) -> Option<Vec<String>> {
    let cfg = cfg_for(s);
    let mut t = T2::new(&cfg, vec![]);
    let mut app = enter(&mut t, s);
    t.catch_up();
    let mut alive = true;
    for pl in prefix {
        let v0 = View::from_wire(&t);
        let evs = events_for(&v0, s);
        match evs.iter().find(|e| &e.label == pl) {
            Some(pe) => {
                for f in &pe.frames {
                    t.peer_send(f);
                }
                let goaways_before = t.subject_frames().iter().filter(|f| f.raw.ty == wf::ty::GOAWAY).count();
                let q = t.drive(200);
                t.catch_up();
                let goaways_after = t.subject_frames().iter().filter(|f| f.raw.ty == wf::ty::GOAWAY).count();
                if !(q && t.conn_result.is_none() && goaways_after == goaways_before && t.panics.is_empty()) {
                    alive = false;
                }
            }
            None => alive = false,
        }
        let _ = app_saw_marker(&mut t, &mut app);
        if !alive {
            break;
        }
    }
    let out = if alive {
        let v = View::from_wire(&t);
        Some(events_for(&v, s).into_iter().map(|e| e.label).collect())
    } else {
        None
    };
    let mut p = std::mem::take(&mut t.panics);
    app.release(&mut p);
    t.panics = p;
    let _ = t.finish();
    out
}

const QUICK_CORE_STATES: [&str; 12] = ["s-open", "s-half-closed-remote", "s-response-open", "s-local-reset", "s-goaway-final", "s-two-open", "c-request-open", "c-response-open", "c-promised", "c-local-reset", "c-goaway-received", "c-interim-received"];

pub fn is_boundary_label(l: &str) -> bool {
    l.contains("-pad") && l.contains("-of-5") || l.contains("to-max") || l.contains("padded-priority")
}

pub fn all_pairs() -> Vec<(StateSpec, String)> {
    let mut pairs = vec![];
    for s in states() {
        let cfg = cfg_for(&s);
        let mut t = T2::new(&cfg, vec![]);
        let app = enter(&mut t, &s);
        t.catch_up();
        let view = View::from_wire(&t);
        for e in events_for(&view, &s) {
            pairs.push((s.clone(), e.label));
        }
        let mut t = t;
        let mut p = std::mem::take(&mut t.panics);
        app.release(&mut p);
        t.panics = p;
        let _ = t.finish();
    }
    pairs
}

pub fn run(ctx: &Ctx) -> Outcome {
    let mut out = Outcome::default();
    let pairs = all_pairs();
    let vios = Mutex::new(VioSet::default());
    let classes: Mutex<BTreeMap<String, u64>> = Mutex::new(BTreeMap::new());
    let transitions = AtomicU64::new(0);
    let obs = Mutex::new(std::collections::HashSet::new());
    let usable_prefix: Mutex<Vec<(StateSpec, Vec<String>)>> = Mutex::new(vec![]);
    par_for(pairs.len(), |i| {
        let (s, label) = &pairs[i];
        if let Some(r) = run_pair(s, label, false) {
            // only events with a defined outcome (legal, or a stream error answered on that stream) lead to states in
            // which the RFC still says what must happen next
            if r.class == "ok" || r.class == "stream" {
                usable_prefix.lock().unwrap().push((s.clone(), vec![label.clone()]));
            }
            transitions.fetch_add(r.transitions, Ordering::Relaxed);
            *classes.lock().unwrap().entry(r.class.clone()).or_insert(0) += 1;
            obs.lock().unwrap().insert((r.obs, r.class.clone()));
            let mut vs = vios.lock().unwrap();
            for (rule, sig, what) in r.vios {
                vs.add(Violation { rule, signature: sig, what, replay: json!({"harness": "c09.pair", "state": s.name, "event": label}) });
            }
        }
    });
    // chains: every event again after every event that leaves the connection in service (quick: one prefix event,
    // thorough: two), i.e. the state catalogue is extended by everything one / two further peer events can reach
    let max_prefix = if ctx.tier.is_quick() { 2 } else { 3 };
    let chains_run = AtomicU64::new(0);
    let chains_abandoned = AtomicU64::new(0);
    let cut = std::sync::atomic::AtomicBool::new(false);
    let mut chain_levels = vec![];
    let mut frontier: Vec<(StateSpec, Vec<String>)> = usable_prefix.into_inner().unwrap();
    frontier.sort_by(|a, b| (a.0.name.clone(), a.1.clone()).cmp(&(b.0.name.clone(), b.1.clone())));
    for level in 1..=max_prefix {
        let next: Mutex<Vec<(StateSpec, Vec<String>)>> = Mutex::new(vec![]);
        let before = chains_run.load(Ordering::Relaxed);
        par_for(frontier.len(), |i| {
            // this check may use 1.3 x the common budget (52 s in the quick tier): level 2 needs about 40 s on 16 idle cores
            if ctx.elapsed() > if ctx.tier.is_quick() { ctx.hard_cap_s() } else { ctx.tier.budget_s() * 1.3 } {
                cut.store(true, Ordering::Relaxed);
                return;
            }
            let (s, prefix) = &frontier[i];
            // quick tier: the second prefix level only for a fixed core of twelve states (all states in the thorough tier)
            if ctx.tier.is_quick() && level >= 2 && !QUICK_CORE_STATES.contains(&s.name) {
                return;
            }
            let Some(labels) = labels_after(s, prefix) else {
                chains_abandoned.fetch_add(1, Ordering::Relaxed);
                return;
            };
            let mut local_classes: BTreeMap<String, u64> = BTreeMap::new();
            let mut local_obs = vec![];
            let mut local_next = vec![];
            for l in &labels {
                // the boundary sweeps (Pad Length values, window exactly at / beyond its maximum) are judged alone and after
                // one prefix event; behind two prefix events only the core catalogue runs in the quick tier
                if ctx.tier.is_quick() && level >= 2 && is_boundary_label(l) {
                    continue;
                }
                let mut last_class = String::new();
                if let Some(r) = run_chain(s, prefix, l, false) {
                    last_class = r.class.clone();
                    chains_run.fetch_add(1, Ordering::Relaxed);
                    transitions.fetch_add(r.transitions, Ordering::Relaxed);
                    *local_classes.entry(r.class.clone()).or_insert(0) += 1;
                    local_obs.push((r.obs, r.class.clone()));
                    if !r.vios.is_empty() {
                        let mut vs = vios.lock().unwrap();
                        for (rule, sig, what) in r.vios {
                            vs.add(Violation { rule, signature: sig, what, replay: json!({"harness": "c09.pair", "state": s.name, "prefix": prefix, "event": l}) });
                        }
                    }
                }
                if level < max_prefix && (last_class == "ok" || last_class == "stream") && !(ctx.tier.is_quick() && is_boundary_label(l)) {
                    let mut p2 = prefix.clone();
                    p2.push(l.clone());
                    local_next.push((s.clone(), p2));
                }
            }
            {
                let mut c = classes.lock().unwrap();
                for (k, n) in local_classes {
                    *c.entry(k).or_insert(0) += n;
                }
            }
            obs.lock().unwrap().extend(local_obs);
            if !local_next.is_empty() {
                next.lock().unwrap().extend(local_next);
            }
        });
        chain_levels.push(json!({"prefix_events": level, "chains": chains_run.load(Ordering::Relaxed) - before, "complete": !cut.load(Ordering::Relaxed)}));
        if cut.load(Ordering::Relaxed) {
            break;
        }
        frontier = next.into_inner().unwrap();
    }
    let classes = classes.into_inner().unwrap();
    let total = pairs.len() as u64 + chains_run.load(Ordering::Relaxed);
    out.harness("state-x-event", json!({"states": states().len(), "pairs": pairs.len(), "by_reference_class": classes}));
    out.harness("state-x-event-chains", json!({"levels": chain_levels, "prefixes_that_end_the_connection": chains_abandoned.load(Ordering::Relaxed)}));
    out.set("evaluations", json!(total));
    out.set("states", json!(total));
    out.set("transitions", json!(transitions.load(Ordering::Relaxed)));
    out.set("traces_validated_against_impl", json!(total));
    out.set("distinct_nontrivial", json!(obs.lock().unwrap().len()));
    out.set("exhaustive", json!(!cut.load(Ordering::Relaxed)));
    out.set("rule", json!("X3 on T2: every (state, event) pair of the catalogues, and every event again after every one preceding event and, for twelve core states (thorough: all states, and three events as far as the budget allows; the evidence says which level completed), after every two preceding events that are legal or plain stream errors and leave the connection in service: the real endpoint (either role) is brought into each of 32 stream / connection states by a legal history, then one event (1-4 raw frames built with the independent serializer: every frame type on the primary stream, an idle peer stream, an idle own stream, stream 0, malformed sizes, flow-control overflows, header-block interleavings, push promises ...) is injected; the RFC 9113 reference classification (connection error / stream error / legal / unspecified), computed from the wire history alone, decides what must be observed: GOAWAY with a code, RST_STREAM or GOAWAY, or no penalty + content delivered + a follow-up exchange completes; nothing of an illegal frame may surface. distinct_nontrivial = distinct (reaction, class) observations"));
    out.add_sample(json!({"harness": "c09.pair", "state": "s-open", "event": "DATA(prim)"}));
    out.add_sample(json!({"harness": "c09.pair", "state": "c-request-parked", "event": "PUSH_PROMISE(prim->even)"}));
    out.guard_nonzero("pairs classified conn", classes.get("conn").copied().unwrap_or(0));
    out.guard_nonzero("pairs classified stream", classes.get("stream").copied().unwrap_or(0));
    out.guard_nonzero("pairs classified ok", classes.get("ok").copied().unwrap_or(0));
    out.assume("error codes are not compared (the property says 'an error code'); where RFC 7540 and RFC 9113 differ or say MAY/SHOULD the reference answers 'unspecified' and only 'no panic, nothing surfaces' is required");
    out.assume("frames after END_STREAM on a fully closed stream are classified 'stream error or stricter' although RFC 9113 5.1 asks for a connection error (both satisfy the property statement)");
    out.violations = vios.into_inner().unwrap().into_vec();
    out
}

pub fn replay(v: &Value) -> bool {
    let sname = v["state"].as_str().unwrap_or("");
    let label = v["event"].as_str().unwrap_or("");
    let Some(s) = states().into_iter().find(|s| s.name == sname) else {
        println!("unknown state {}", sname);
        return false;
    };
    let prefix: Vec<String> = v["prefix"].as_array().map(|a| a.iter().filter_map(|x| x.as_str().map(|s| s.to_string())).collect()).unwrap_or_default();
    match run_chain(&s, &prefix, label, true) {
        Some(r) => !r.vios.is_empty(),
        None => {
            println!("event {} does not exist in state {}", label, sname);
            false
        }
    }
}
