//! C17 (X3): every 32-bit error code through the real RST_STREAM / GOAWAY encode, parse and `h2::Error` mapping.

use crate::common::*;
use bytes::{Bytes, BytesMut};
use h2::frame::{GoAway, Head, Reason, Reset, StreamId};
use h2::proto::{Error as PErr, Initiator};
use h2wire::frame as wf;
use serde_json::json;
use std::sync::atomic::{AtomicU64, Ordering};
use std::sync::Mutex;

fn check_code(c: u32) -> Option<String> {
    // encode with h2, parse with the reference
    let mut buf = BytesMut::with_capacity(32);
    Reset::new(StreamId::from(5), Reason::from(c)).encode(&mut buf);
    match wf::parse_all(&buf, false).0.first().map(|f| f.parse()) {
        Some(Ok(wf::Parsed::RstStream { sid: 5, code })) if code == c => {}
        other => return Some(format!("RST_STREAM({:#x}) encodes to {} which the RFC parser reads as {:?}", c, hex(&buf), other)),
    }
    buf.clear();
    GoAway::with_debug_data(StreamId::from(7), Reason::from(c), Bytes::from_static(b"dbg")).encode(&mut buf);
    match wf::parse_all(&buf, false).0.first().map(|f| f.parse()) {
        Some(Ok(wf::Parsed::GoAway { last: 7, code, debug })) if code == c && debug == b"dbg" => {}
        other => return Some(format!("GOAWAY({:#x}) encodes to {} which the RFC parser reads as {:?}", c, hex(&buf), other)),
    }
    // bytes from the reference serializer, parsed by h2, surfaced through h2::Error
    let raw = wf::rst_stream(9, c).encode();
    let head = Head::parse(&raw);
    let r = match Reset::load(head, &raw[9..]) {
        Ok(r) => r,
        Err(e) => return Some(format!("RST_STREAM({:#x}) is rejected by Reset::load: {:?}", c, e)),
    };
    if u32::from(r.reason()) != c {
        return Some(format!("RST_STREAM({:#x}) parses to reason {:#x}", c, u32::from(r.reason())));
    }
    let e: h2::Error = PErr::Reset(r.stream_id(), r.reason(), Initiator::Remote).into();
    if e.reason().map(u32::from) != Some(c) || !e.is_remote() || !e.is_reset() || e.is_go_away() || e.is_io() || e.is_library() {
        return Some(format!("remote RST_STREAM({:#x}) surfaces as {:?}", c, e));
    }
    let raw = wf::goaway(3, c, b"why").encode();
    let g = match GoAway::load(&raw[9..]) {
        Ok(g) => g,
        Err(e) => return Some(format!("GOAWAY({:#x}) is rejected by GoAway::load: {:?}", c, e)),
    };
    if u32::from(g.reason()) != c || g.debug_data().as_ref() != b"why" || u32::from(g.last_stream_id()) != 3 {
        return Some(format!("GOAWAY({:#x}) parses to reason {:#x} debug {:?}", c, u32::from(g.reason()), g.debug_data()));
    }
    let e: h2::Error = PErr::GoAway(g.debug_data().clone(), g.reason(), Initiator::Remote).into();
    if e.reason().map(u32::from) != Some(c) || !e.is_remote() || !e.is_go_away() || e.is_reset() {
        return Some(format!("remote GOAWAY({:#x}) surfaces as {:?}", c, e));
    }
    // the same code chosen by the local user keeps its origin
    let e: h2::Error = PErr::Reset(StreamId::from(1), Reason::from(c), Initiator::User).into();
    if e.reason().map(u32::from) != Some(c) || e.is_remote() || e.is_library() {
        return Some(format!("user reset({:#x}) surfaces as {:?}", c, e));
    }
    let e: h2::Error = PErr::Reset(StreamId::from(1), Reason::from(c), Initiator::Library).into();
    if e.reason().map(u32::from) != Some(c) || e.is_remote() || !e.is_library() {
        return Some(format!("library reset({:#x}) surfaces as {:?}", c, e));
    }
    None
}

pub fn code_round_trip(ctx: &Ctx) -> (u64, Vec<Violation>) {
    let bad: Mutex<Vec<Violation>> = Mutex::new(vec![]);
    let n = AtomicU64::new(0);
    let report = |c: u32, what: String| {
        let mut b = bad.lock().unwrap();
        if b.len() < 20 {
            b.push(Violation { rule: "C17.code-plumbing".into(), signature: what.split('(').next().unwrap_or("").to_string(), what, replay: json!({"harness": "c17.code", "case": {"code": c}}) });
        }
    };
    let full = !ctx.tier.is_quick() && ctx.remaining() > 400.0;
    if full {
        par_for(65536, |hi| {
            let mut k = 0u64;
            for lo in 0..65536u32 {
                let c = ((hi as u32) << 16) | lo;
                if let Some(w) = check_code(c) {
                    report(c, w);
                }
                k += 1;
            }
            n.fetch_add(k, Ordering::Relaxed);
        });
    } else {
        par_for(64, |part| {
            let mut k = 0u64;
            for i in (part * 1024)..((part + 1) * 1024) {
                for c in [i as u32, (i as u32) << 16, ((i as u32) << 16) | 0xffff, 0xffff_0000 | i as u32] {
                    if let Some(w) = check_code(c) {
                        report(c, w);
                    }
                    k += 1;
                }
            }
            n.fetch_add(k, Ordering::Relaxed);
        });
    }
    (n.load(Ordering::Relaxed), bad.into_inner().unwrap())
}

pub fn replay(v: &serde_json::Value) -> bool {
    let c = v["case"]["code"].as_u64().unwrap() as u32;
    match check_code(c) {
        Some(w) => {
            println!("RULE VIOLATED: C17.code-plumbing {}", w);
            true
        }
        None => {
            println!("code {:#x} round-trips", c);
            false
        }
    }
}
