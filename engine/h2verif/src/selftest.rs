//! Validation of the reference components before any check may run. A failure here is a machinery error.

use h2wire::hpack as rh;
use serde_json::Value;

pub fn run() -> i32 {
    let mut failures = 0;
    match rh::validate_huffman_table() {
        Ok(()) => println!("selftest: Huffman table is a complete canonical prefix code (Kraft sum = 1)"),
        Err(e) => {
            println!("selftest FAILED: Huffman table: {}", e);
            failures += 1;
        }
    }
    match rh::self_test_appendix_c() {
        Ok(()) => println!("selftest: RFC 7541 Appendix C examples decode as printed"),
        Err(e) => {
            println!("selftest FAILED: Appendix C: {}", e);
            failures += 1;
        }
    }
    // Huffman round trip on all single bytes and all pairs
    for a in 0..=255u8 {
        for b in 0..=255u8 {
            let s = [a, b];
            if rh::huff_decode(&rh::huff_encode(&s)).as_deref() != Ok(&s[..]) {
                println!("selftest FAILED: huffman round trip {:?}", s);
                failures += 1;
            }
        }
    }
    // third-party stories
    let root = "/repo/fixtures/hpack";
    let mut stories = 0;
    let mut cases = 0;
    if let Ok(rd) = std::fs::read_dir(root) {
        let mut dirs: Vec<_> = rd.filter_map(|e| e.ok()).filter(|e| e.path().is_dir()).collect();
        dirs.sort_by_key(|e| e.path());
        for d in dirs {
            let name = d.file_name().to_string_lossy().to_string();
            if name == "raw-data" || name == "util" {
                continue;
            }
            let mut files: Vec<_> = std::fs::read_dir(d.path()).unwrap().filter_map(|e| e.ok()).map(|e| e.path()).collect();
            files.sort();
            for f in files {
                if f.extension().map(|e| e != "json").unwrap_or(true) {
                    continue;
                }
                let v: Value = match serde_json::from_str(&std::fs::read_to_string(&f).unwrap()) {
                    Ok(v) => v,
                    Err(_) => continue,
                };
                stories += 1;
                let mut dec = rh::RefDecoder::new(4096);
                for c in v["cases"].as_array().cloned().unwrap_or_default() {
                    if let Some(n) = c.get("header_table_size").and_then(|x| x.as_u64()) {
                        dec.set_limit(n as usize);
                    }
                    let wire = crate::common::unhex(c["wire"].as_str().unwrap_or(""));
                    let want: Vec<(Vec<u8>, Vec<u8>)> = c["headers"]
                        .as_array()
                        .unwrap()
                        .iter()
                        .map(|h| {
                            let (k, v) = h.as_object().unwrap().iter().next().unwrap();
                            (k.as_bytes().to_vec(), v.as_str().unwrap().as_bytes().to_vec())
                        })
                        .collect();
                    cases += 1;
                    match dec.decode_block(&wire) {
                        Ok(b) if b.fields == want => {}
                        other => {
                            println!("selftest FAILED: {} case {}: {:?}", f.display(), c["seqno"], other.map(|b| b.fields.len()));
                            failures += 1;
                            break;
                        }
                    }
                }
            }
        }
    }
    println!("selftest: {} third-party HPACK stories, {} header blocks decoded by the reference as recorded", stories, cases);
    if stories == 0 {
        println!("selftest FAILED: no stories found under {}", root);
        failures += 1;
    }
    if failures == 0 {
        println!("selftest OK");
        0
    } else {
        2
    }
}
