//! C15 — GOAWAY / shutdown: monotone last-stream-id, in-flight streams finish, the rest fail (X2 on T2, both roles).

use crate::common::*;
use crate::sim::*;
use crate::t2::*;
use crate::x2::*;
use bytes::Bytes;
use h2::{client, server};
use h2wire::frame::{self as wf, Parsed};
use serde_json::json;
use std::future::Future;
use std::pin::Pin;
use std::task::{Context, Poll};

fn goaways_sent(t: &T2) -> Vec<(usize, u32, u32)> {
    // (index among the subject's frames, last stream id, code)
    t.subject_frames().iter().enumerate().filter_map(|(i, f)| if let Ok(Parsed::GoAway { last, code, .. }) = &f.parsed { Some((i, *last, *code)) } else { None }).collect()
}

// ---------------------------------------------------------------------------------------------
// server subject

#[derive(Clone, Debug)]
pub enum SEv {
    Graceful,
    Abrupt(u32),
    RespondEos(usize),
    Push(usize),
    DropHandles(usize),
    PeerOpenNew,
    PeerPingAck,
    /// PING acknowledgement with a payload nobody asked for (legal, to be ignored) - e.g. a late ack of a user ping
    PeerStrayPingAck,
    /// WINDOW_UPDATE on the stream the peer opened last (possibly one the subject ignores because it is above the cut-off)
    PeerWuOnLast,
    PeerDataEos(usize),
    PeerGoAway(u32, u32),
    /// (blocked variant) WINDOW_UPDATE that lets the rest of a response body through
    PeerWu(usize),
    Drive,
}

pub struct SWorld {
    pub opened: Vec<u32>,
    pub peer_done: Vec<bool>,
    pub graceful: bool,
    pub abrupt: Option<u32>,
    pub peer_goaway: Option<(u32, u32)>,
    pub peer_goaway_processed: bool,
    /// highest peer stream handed to the application as of the previous state
    pub max_accepted_before: u32,
    pub goaways_seen: usize,
    pub push_ok_after_goaway: Vec<u32>,
    pub pings_acked: usize,
    pub stray_acks: usize,
    pub wu_on_last: bool,
}

pub struct ServerShutdown {
    pub events: Vec<SEv>,
    pub name: &'static str,
    /// the peer advertises a stream window of 1000 and responses carry a 2 KiB body: a shutdown with responses that are
    /// finished by the application but held back by flow control
    pub blocked: bool,
}

impl ServerShutdown {
    pub fn new(name: &'static str, quick: bool) -> ServerShutdown {
        Self::new_variant(name, quick, false)
    }
    pub fn new_variant(name: &'static str, quick: bool, blocked: bool) -> ServerShutdown {
        let mut ev = vec![SEv::Graceful, SEv::Abrupt(2), SEv::PeerOpenNew, SEv::PeerPingAck, SEv::PeerStrayPingAck, SEv::PeerWuOnLast, SEv::Drive];
        for k in 0..2 {
            ev.push(SEv::RespondEos(k));
            ev.push(SEv::Push(k));
            ev.push(SEv::PeerDataEos(k));
            if !quick {
                ev.push(SEv::DropHandles(k));
            }
            if blocked {
                ev.push(SEv::PeerWu(k));
            }
        }
        for (last, code) in if quick { vec![(1u32, 0u32), (0x7fff_ffff, 0)] } else { vec![(0, 0), (1, 0), (3, 2), (0x7fff_ffff, 0)] } {
            ev.push(SEv::PeerGoAway(last, code));
        }
        if !quick {
            ev.push(SEv::Abrupt(0xdead_beef));
        }
        ServerShutdown { events: ev, name, blocked }
    }
}

impl Model for ServerShutdown {
    type World = SWorld;
    fn name(&self) -> &'static str {
        self.name
    }
    fn cfg(&self) -> T2Cfg {
        let peer_settings = if self.blocked { vec![(wf::setting::INITIAL_WINDOW_SIZE, 1000)] } else { vec![] };
        T2Cfg { role: Side::Server, peer_settings, client: None, server: Some(server::Builder::new()), policy: IoPolicy::default() }
    }
    fn init(&self, t: &mut T2) -> SWorld {
        t.peer_request(1, "/a", false);
        t.peer_request(3, "/b", false);
        t.drive(50);
        SWorld { opened: vec![1, 3], peer_done: vec![false, false], graceful: false, abrupt: None, peer_goaway: None, peer_goaway_processed: false, max_accepted_before: 3, goaways_seen: 0, push_ok_after_goaway: vec![], pings_acked: 0, stray_acks: 0, wu_on_last: false }
    }
    fn n_events(&self) -> usize {
        self.events.len()
    }
    fn event_name(&self, e: usize) -> String {
        format!("{:?}", self.events[e])
    }
    fn enabled(&self, t: &T2, w: &SWorld, e: usize) -> bool {
        if !t.conn_alive() {
            return false;
        }
        let acc = |k: usize| t.accepted.iter().find(|a| a.sid == w.opened[k]);
        match &self.events[e] {
            SEv::Graceful => !w.graceful && w.abrupt.is_none(),
            SEv::Abrupt(_) => w.abrupt.is_none(),
            SEv::RespondEos(k) | SEv::Push(k) => acc(*k).map(|a| a.respond.is_some()).unwrap_or(false),
            SEv::DropHandles(k) => acc(*k).map(|a| a.respond.is_some() || a.body.is_some()).unwrap_or(false),
            SEv::PeerOpenNew => w.opened.len() < 4 && w.peer_goaway.is_none(),
            SEv::PeerPingAck => {
                let pings = t.subject_frames().iter().filter(|f| matches!(&f.parsed, Ok(Parsed::Ping { ack: false, .. }))).count();
                pings > w.pings_acked
            }
            SEv::PeerStrayPingAck => w.stray_acks < 1,
            SEv::PeerWuOnLast => w.opened.len() > 2 && !w.wu_on_last,
            SEv::PeerDataEos(k) => !w.peer_done[*k] && t.rst_sent(w.opened[*k]).is_empty(),
            SEv::PeerWu(k) => t.subject_frames().iter().any(|f| f.raw.stream() == w.opened[*k] && f.raw.ty == wf::ty::DATA) && !t.mon.frames.iter().any(|f| f.sender != t.role && f.raw.stream() == w.opened[*k] && f.raw.ty == wf::ty::WINDOW_UPDATE),
            SEv::PeerGoAway(last, _) => w.peer_goaway.map(|(l, _)| *last <= l).unwrap_or(true) && w.peer_goaway.map(|(l, _)| l != *last).unwrap_or(true),
            SEv::Drive => true,
        }
    }
    fn apply(&self, t: &mut T2, w: &mut SWorld, e: usize) {
        let mut panics = vec![];
        w.max_accepted_before = t.accepted.iter().map(|a| a.sid).max().unwrap_or(0);
        match self.events[e].clone() {
            SEv::Graceful => {
                if let Conn::Server(c) = &mut t.conn {
                    guarded(&mut panics, "graceful_shutdown", || c.graceful_shutdown());
                }
                t.conn_flag.wake_by_ref_pub();
                w.graceful = true;
            }
            SEv::Abrupt(code) => {
                if let Conn::Server(c) = &mut t.conn {
                    guarded(&mut panics, "abrupt_shutdown", || c.abrupt_shutdown(h2::Reason::from(code)));
                }
                t.conn_flag.wake_by_ref_pub();
                w.abrupt = Some(code);
            }
            SEv::RespondEos(k) => {
                let sid = w.opened[k];
                if let Some(a) = t.accepted.iter_mut().find(|a| a.sid == sid) {
                    if let Some(mut r) = a.respond.take() {
                        if self.blocked {
                            if let Some(Ok(mut ss)) = guarded(&mut panics, "send_response", || r.send_response(simple_response(200), false)) {
                                let _ = guarded(&mut panics, "send_data", || ss.send_data(bytes::Bytes::from(vec![0x42u8; 2048]), true));
                                safe_drop(&mut panics, "SendStream", Some(ss));
                            }
                        } else {
                            let _ = guarded(&mut panics, "send_response", || r.send_response(simple_response(200), true).map(drop));
                        }
                    }
                }
            }
            SEv::PeerWu(k) => t.peer_send(&wf::window_update(w.opened[k], 5000)),
            SEv::Push(k) => {
                let sid = w.opened[k];
                let processed = w.peer_goaway_processed;
                if let Some(a) = t.accepted.iter_mut().find(|a| a.sid == sid) {
                    if let Some(r) = a.respond.as_mut() {
                        match guarded(&mut panics, "push_request", || r.push_request(simple_request("/pushed", false))) {
                            Some(Ok(p)) => {
                                if processed {
                                    w.push_ok_after_goaway.push(p.stream_id().as_u32());
                                }
                                safe_drop(&mut panics, "SendPushedResponse", Some(p));
                            }
                            _ => {}
                        }
                    }
                }
            }
            SEv::DropHandles(k) => {
                let sid = w.opened[k];
                if let Some(a) = t.accepted.iter_mut().find(|a| a.sid == sid) {
                    safe_drop(&mut panics, "RecvStream", a.body.take());
                    safe_drop(&mut panics, "SendResponse", a.respond.take());
                }
            }
            SEv::PeerOpenNew => {
                let sid = 1 + 2 * w.opened.len() as u32;
                t.peer_request(sid, "/n", true);
                w.opened.push(sid);
                w.peer_done.push(true);
            }
            SEv::PeerPingAck => {
                let pings: Vec<[u8; 8]> = t.subject_frames().iter().filter_map(|f| if let Ok(Parsed::Ping { ack: false, payload }) = &f.parsed { Some(*payload) } else { None }).collect();
                t.peer_send(&wf::ping(pings[w.pings_acked], true));
                w.pings_acked += 1;
            }
            SEv::PeerStrayPingAck => {
                t.peer_send(&wf::ping([9; 8], true));
                w.stray_acks += 1;
            }
            SEv::PeerWuOnLast => {
                t.peer_send(&wf::window_update(*w.opened.last().unwrap(), 10));
                w.wu_on_last = true;
            }
            SEv::PeerDataEos(k) => {
                t.peer_send(&wf::data(w.opened[k], b"end", true));
                w.peer_done[k] = true;
            }
            SEv::PeerGoAway(last, code) => {
                t.peer_send(&wf::goaway(last, code, b"dbg"));
                w.peer_goaway = Some((last, code));
            }
            SEv::Drive => {
                t.drive(200);
                if w.peer_goaway.is_some() {
                    w.peer_goaway_processed = true;
                }
            }
        }
        t.panics.extend(panics);
        t.catch_up();
    }
    fn invariant(&self, t: &mut T2, w: &mut SWorld) -> V3 {
        let mut v = vec![];
        t.catch_up();
        let gs = goaways_sent(t);
        // monotone
        for p in gs.windows(2) {
            if p[1].1 > p[0].1 {
                v.push(("C15.last-stream-id-increased".to_string(), "server".into(), format!("the server sent GOAWAY(last={}) after GOAWAY(last={})", p[1].1, p[0].1)));
            }
        }
        // never below a stream already handed to the application (as of the state before this event)
        for g in gs.iter().skip(w.goaways_seen) {
            if g.1 < w.max_accepted_before && g.2 == 0 {
                v.push(("C15.last-stream-id-below-accepted".into(), "server".into(), format!("GOAWAY(last={}, NO_ERROR) although stream {} had already been returned by accept()", g.1, w.max_accepted_before)));
            }
        }
        w.goaways_seen = gs.len();
        // after GOAWAY(L): peer streams above L are neither surfaced nor answered (except flow control)
        if let Some(&(gi, l, _)) = gs.iter().find(|g| g.1 < 0x7fff_ffff) {
            for a in &t.accepted {
                if a.sid > l && a.sid > w.max_accepted_before {
                    v.push(("C15.stream-above-goaway-surfaced".into(), "server".into(), format!("stream {} was handed to the application after GOAWAY(last={})", a.sid, l)));
                }
            }
            for (i, f) in t.subject_frames().iter().enumerate() {
                if i > gi && f.raw.stream() > l && f.raw.stream() % 2 == 1 && matches!(f.raw.ty, wf::ty::HEADERS | wf::ty::DATA | wf::ty::RST_STREAM | wf::ty::PUSH_PROMISE) {
                    v.push(("C15.stream-above-goaway-answered".into(), wf::type_name(f.raw.ty).into(), format!("after GOAWAY(last={}) the server sent {} on stream {}", l, wf::type_name(f.raw.ty), f.raw.stream())));
                }
            }
        }
        // nothing the (legal) peer of this model sends turns the shutdown into a connection error: streams at or below the
        // cut-off are to run to completion
        if w.abrupt.is_none() {
            if let Some(g) = gs.iter().find(|g| g.2 != 0) {
                v.push(("C15.shutdown-turned-into-error".into(), format!("code{}", g.2), format!("the peer sent only legal frames, yet the server sent GOAWAY(last={}, code {}) - in-flight streams are cut off", g.1, g.2)));
            }
        }
        // after a GOAWAY from the peer has been processed no new push is started
        if let Some(sid) = w.push_ok_after_goaway.first() {
            v.push(("C15.push-after-goaway-received".into(), "push_request".into(), format!("push_request returned Ok (promised stream {}) after the peer's GOAWAY had been received and processed", sid)));
            w.push_ok_after_goaway.clear();
        }
        if w.peer_goaway_processed {
            // position of the first subject frame written after the GOAWAY was consumed is not known exactly; PUSH_PROMISE
            // frames for promises made after processing are flagged through push_ok_after_goaway above
        }
        v
    }
    fn epilogue(&self, t: &mut T2, w: &mut SWorld) -> V3 {
        let mut v = vec![];
        if !t.conn_alive() {
            return v;
        }
        let mut panics = vec![];
        t.drive(300);
        if w.abrupt.is_some() || w.peer_goaway.is_some() || !w.graceful {
            // abrupt: GOAWAY with the user's code is on the wire (or the connection had already ended otherwise)
            if let Some(code) = w.abrupt {
                t.catch_up();
                if !goaways_sent(t).iter().any(|g| g.2 == code) && t.conn_result.as_deref() != Some("ok") {
                    v.push(("C15.abrupt-shutdown-code".into(), "missing".into(), format!("abrupt_shutdown({}) was called but no GOAWAY carries that code: {:?} (connection {:?})", code, goaways_sent(t), t.conn_result)));
                }
            }
            return v;
        }
        // graceful shutdown runs to completion: the peer acknowledges the PING, finishes its requests, the application responds
        for _ in 0..3 {
            let pings: Vec<[u8; 8]> = t.subject_frames().iter().filter_map(|f| if let Ok(Parsed::Ping { ack: false, payload }) = &f.parsed { Some(*payload) } else { None }).collect();
            while w.pings_acked < pings.len() {
                t.peer_send(&wf::ping(pings[w.pings_acked], true));
                w.pings_acked += 1;
            }
            t.drive(300);
        }
        t.catch_up();
        let gs = goaways_sent(t);
        let final_last = gs.iter().map(|g| g.1).min();
        for k in 0..w.opened.len() {
            let sid = w.opened[k];
            if !w.peer_done[k] && t.rst_sent(sid).is_empty() && Some(sid) <= final_last {
                t.peer_send(&wf::data(sid, b"end", true));
                w.peer_done[k] = true;
            }
        }
        t.drive(300);
        for a in t.accepted.iter_mut() {
            if let Some(mut r) = a.respond.take() {
                let _ = guarded(&mut panics, "send_response", || r.send_response(simple_response(200), true).map(drop));
            }
            safe_drop(&mut panics, "RecvStream", a.body.take());
            safe_drop(&mut panics, "SendStream", a.send.take());
        }
        t.drive(300);
        if self.blocked {
            // the peer lets every held-back response body through
            for k in 0..w.opened.len() {
                let sid = w.opened[k];
                let had = t.mon.frames.iter().any(|f| f.sender != t.role && f.raw.stream() == sid && f.raw.ty == wf::ty::WINDOW_UPDATE);
                if !had && Some(sid) <= final_last && t.rst_sent(sid).is_empty() {
                    t.peer_send(&wf::window_update(sid, 5000));
                }
            }
            t.drive(300);
        }
        t.catch_up();
        t.panics.extend(panics);
        if !t.panics.is_empty() {
            return v;
        }
        let gs = goaways_sent(t);
        if gs.first().map(|g| g.1) != Some(0x7fff_ffff) {
            v.push(("C15.graceful-sequence".into(), "first-goaway".into(), format!("graceful shutdown did not start with GOAWAY(2^31-1): {:?}", gs)));
        }
        if gs.len() < 2 {
            v.push(("C15.graceful-sequence".into(), "second-goaway".into(), format!("after the PING acknowledgement no second GOAWAY with the last processed stream was sent: {:?}", gs)));
        } else {
            let max_acc = t.accepted.iter().map(|a| a.sid).max().unwrap_or(0);
            if gs[1].1 < max_acc.min(w.max_accepted_before) {
                v.push(("C15.last-stream-id-below-accepted".into(), "graceful".into(), format!("second GOAWAY has last={} but stream {} was handed to the application", gs[1].1, max_acc)));
            }
        }
        // every accepted stream got its response
        for a in &t.accepted {
            let answered = t.subject_frames().iter().any(|f| f.raw.stream() == a.sid && matches!(&f.parsed, Ok(Parsed::Headers { eos: true, .. }) | Ok(Parsed::Data { eos: true, .. }) | Ok(Parsed::RstStream { .. })));
            if !answered {
                v.push(("C15.in-flight-stream-not-finished".into(), "server".into(), format!("stream {} was accepted before the shutdown but its response never reached the wire", a.sid)));
            }
        }
        if t.conn_result.as_deref() != Some("ok") {
            v.push(("C15.graceful-shutdown-not-completed".into(), format!("{:?}", t.conn_result.is_some()), format!("all streams have finished but the connection future has not returned Ok(()): {:?}", t.conn_result)));
        } else if !t.mon.events.iter().any(|e| matches!(e, crate::monitor::WireEv::Shutdown(s) if *s == t.role)) {
            v.push(("C15.graceful-shutdown-not-completed".into(), "no-transport-shutdown".into(), "the connection completed without shutting the transport down".into()));
        }
        v
    }
    fn digest_extra(&self, t: &T2, w: &SWorld) -> String {
        format!(
            "opened={:?} done={:?} graceful={} abrupt={:?} peer_goaway={:?}/{} acked={}/{}/{} goaways={:?} acc={:?}",
            w.opened,
            w.peer_done,
            w.graceful,
            w.abrupt,
            w.peer_goaway,
            w.peer_goaway_processed,
            w.pings_acked,
            w.stray_acks,
            w.wu_on_last,
            goaways_sent(t).iter().map(|g| (g.1, g.2)).collect::<Vec<_>>(),
            t.accepted.iter().map(|a| (a.sid, a.respond.is_some(), a.body.is_some())).collect::<Vec<_>>()
        )
    }
    fn teardown(&self, t: T2, _w: SWorld) -> Vec<String> {
        t.finish()
    }
    fn counters(&self, t: &T2, _w: &SWorld) -> Vec<(&'static str, u64)> {
        vec![("goaways_sent", goaways_sent(t).len() as u64)]
    }
}

// ---------------------------------------------------------------------------------------------
// client subject

#[derive(Clone, Debug)]
pub enum CEv {
    PeerGoAway(u32, u32, bool),
    PeerRespondEos(usize),
    PeerEof,
    NewRequest,
    PollReady,
    PollResponse(usize),
    /// (parked variant) the application cancels request k: send_reset(CANCEL) / drops both handles
    Cancel(usize),
    DropAll(usize),
    Drive,
}

pub struct CReq {
    pub sid: u32,
    pub rf: Option<client::ResponseFuture>,
    pub ss: Option<h2::SendStream<Bytes>>,
    pub result: Option<Result<u16, String>>,
    pub created_after_goaway: bool,
    /// the application itself cancelled the request (reset or dropped its handles): what its handles report is its own doing
    pub cancelled: bool,
}

pub struct CWorld {
    pub sr: Option<client::SendRequest<Bytes>>,
    pub reqs: Vec<CReq>,
    pub goaways: Vec<(u32, u32, bool)>,
    pub processed: bool,
    pub new_request_ok_after_goaway: bool,
    pub ready_ok_after_goaway: bool,
    pub frames_at_processing: usize,
}

pub struct ClientGoaway {
    pub events: Vec<CEv>,
    pub name: &'static str,
    /// the peer allows one concurrent stream: the second request is parked when the GOAWAY arrives, and the application may
    /// cancel it before or after
    pub parked: bool,
}

impl ClientGoaway {
    pub fn new(name: &'static str, quick: bool) -> ClientGoaway {
        Self::new_variant(name, quick, false)
    }
    pub fn new_variant(name: &'static str, quick: bool, parked: bool) -> ClientGoaway {
        let mut ev = vec![];
        let menu: Vec<(u32, u32, bool)> = if quick { vec![(1, 0, false), (3, 2, true), (0, 0xdead_beef, true)] } else { vec![(0, 0, false), (1, 0, false), (1, 2, true), (3, 0, true), (5, 0xdead_beef, true), (0x7fff_ffff, 0, false), (0, 0xdead_beef, true)] };
        for (l, c, d) in menu {
            ev.push(CEv::PeerGoAway(l, c, d));
        }
        for k in 0..3 {
            ev.push(CEv::PeerRespondEos(k));
            ev.push(CEv::PollResponse(k));
        }
        if parked {
            for k in 0..2 {
                ev.push(CEv::Cancel(k));
                ev.push(CEv::DropAll(k));
            }
        }
        ev.extend([CEv::PeerEof, CEv::NewRequest, CEv::PollReady, CEv::Drive]);
        ClientGoaway { events: ev, name, parked }
    }
}

fn describe(e: &h2::Error) -> String {
    format!("{}|{:?}", crate::scen::err_text(e), e)
}

impl Model for ClientGoaway {
    type World = CWorld;
    fn name(&self) -> &'static str {
        self.name
    }
    fn cfg(&self) -> T2Cfg {
        let peer_settings = if self.parked { vec![(wf::setting::MAX_CONCURRENT_STREAMS, 1)] } else { vec![] };
        T2Cfg { role: Side::Client, peer_settings, client: Some(client::Builder::new()), server: None, policy: IoPolicy::default() }
    }
    fn init(&self, t: &mut T2) -> CWorld {
        let mut sr = t.send_request.take().unwrap();
        let f = Flag::new(false);
        let wk = waker_of(&f);
        let mut cx = Context::from_waker(&wk);
        let mut reqs = vec![];
        if self.parked {
            // the peer's limit of 1 is known before the first request
            t.drive(50);
        }
        for _ in 0..2 {
            if self.parked {
                t.drive(50);
            }
            let _ = sr.poll_ready(&mut cx);
            let (rf, ss) = sr.send_request(simple_request("/g", false), true).expect("send_request");
            reqs.push(CReq { sid: rf.stream_id().as_u32(), rf: Some(rf), ss: Some(ss), result: None, created_after_goaway: false, cancelled: false });
        }
        t.drive(50);
        CWorld { sr: Some(sr), reqs, goaways: vec![], processed: false, new_request_ok_after_goaway: false, ready_ok_after_goaway: false, frames_at_processing: 0 }
    }
    fn n_events(&self) -> usize {
        self.events.len()
    }
    fn event_name(&self, e: usize) -> String {
        format!("{:?}", self.events[e])
    }
    fn enabled(&self, t: &T2, w: &CWorld, e: usize) -> bool {
        match &self.events[e] {
            // the peer never raises its last-stream-id (that reaction is unspecified), at most two GOAWAYs
            CEv::PeerGoAway(l, _, _) => t.conn_alive() && w.goaways.len() < 2 && w.goaways.last().map(|g| *l <= g.0).unwrap_or(true),
            CEv::PeerRespondEos(k) => {
                t.conn_alive()
                    && w.reqs.get(*k).map(|r| t.subject_frames().iter().any(|f| matches!(&f.parsed, Ok(Parsed::Headers { sid, .. }) if *sid == r.sid)) && !t.mon.frames.iter().any(|f| f.sender != t.role && f.raw.stream() == r.sid) && w.goaways.last().map(|g| r.sid <= g.0).unwrap_or(true)).unwrap_or(false)
            }
            CEv::PeerEof => t.conn_alive() && !w.goaways.is_empty() && !t.sh.lock().unwrap().pipes[t.role.other().idx()].closed,
            CEv::NewRequest => w.sr.is_some() && w.reqs.len() < 3,
            CEv::PollReady => w.sr.is_some(),
            CEv::PollResponse(k) => w.reqs.get(*k).map(|r| r.rf.is_some()).unwrap_or(false),
            CEv::Cancel(k) => w.reqs.get(*k).map(|r| r.ss.is_some()).unwrap_or(false),
            CEv::DropAll(k) => w.reqs.get(*k).map(|r| r.ss.is_some() || r.rf.is_some()).unwrap_or(false),
            CEv::Drive => t.conn_alive(),
        }
    }
    fn apply(&self, t: &mut T2, w: &mut CWorld, e: usize) {
        let mut panics = vec![];
        let f = Flag::new(false);
        let wk = waker_of(&f);
        let mut cx = Context::from_waker(&wk);
        match self.events[e].clone() {
            CEv::PeerGoAway(l, c, d) => {
                t.peer_send(&wf::goaway(l, c, if d { b"peer-debug-data" } else { b"" }));
                w.goaways.push((l, c, d));
            }
            CEv::PeerRespondEos(k) => t.peer_response(w.reqs[k].sid, "200", true),
            CEv::PeerEof => t.peer_eof(),
            CEv::NewRequest => {
                let sr = w.sr.as_mut().unwrap();
                let ready = guarded(&mut panics, "poll_ready", || sr.poll_ready(&mut cx));
                if let Some(Poll::Ready(Ok(()))) = ready {
                    if let Some(Ok((rf, ss))) = guarded(&mut panics, "send_request", || sr.send_request(simple_request("/late", false), true)) {
                        if w.processed {
                            w.new_request_ok_after_goaway = true;
                        }
                        w.reqs.push(CReq { sid: rf.stream_id().as_u32(), rf: Some(rf), ss: Some(ss), result: None, created_after_goaway: w.processed, cancelled: false });
                    }
                }
            }
            CEv::PollReady => {
                let sr = w.sr.as_mut().unwrap();
                if let Some(Poll::Ready(Ok(()))) = guarded(&mut panics, "poll_ready", || sr.poll_ready(&mut cx)) {
                    if w.processed {
                        w.ready_ok_after_goaway = true;
                    }
                }
            }
            CEv::PollResponse(k) => {
                let r = &mut w.reqs[k];
                let rf = r.rf.as_mut().unwrap();
                match guarded(&mut panics, "poll response", || Pin::new(rf).poll(&mut cx)) {
                    Some(Poll::Ready(Ok(resp))) => {
                        r.result = Some(Ok(resp.status().as_u16()));
                        safe_drop(&mut panics, "ResponseFuture", r.rf.take());
                    }
                    Some(Poll::Ready(Err(e))) => {
                        r.result = Some(Err(describe(&e)));
                        safe_drop(&mut panics, "ResponseFuture", r.rf.take());
                    }
                    _ => {}
                }
            }
            CEv::Cancel(k) => {
                let r = &mut w.reqs[k];
                if let Some(mut ss) = r.ss.take() {
                    guarded(&mut panics, "send_reset", || ss.send_reset(h2::Reason::CANCEL));
                    safe_drop(&mut panics, "SendStream", Some(ss));
                }
                r.cancelled = true;
            }
            CEv::DropAll(k) => {
                let r = &mut w.reqs[k];
                r.cancelled = true;
                safe_drop(&mut panics, "SendStream", r.ss.take());
                safe_drop(&mut panics, "ResponseFuture", r.rf.take());
            }
            CEv::Drive => {
                t.drive(200);
                if !w.goaways.is_empty() && !w.processed {
                    w.processed = true;
                    w.frames_at_processing = t.subject_frames().len();
                }
            }
        }
        t.panics.extend(panics);
        t.catch_up();
    }
    fn invariant(&self, t: &mut T2, w: &mut CWorld) -> V3 {
        let mut v = vec![];
        if w.new_request_ok_after_goaway {
            v.push(("C15.new-stream-after-goaway-received".to_string(), "send_request".into(), "send_request returned Ok after the peer's GOAWAY had been received and processed".into()));
            w.new_request_ok_after_goaway = false;
        }
        if w.ready_ok_after_goaway {
            v.push(("C15.new-stream-after-goaway-received".into(), "poll_ready".into(), "poll_ready returned Ready(Ok) after the peer's GOAWAY had been received and processed".into()));
            w.ready_ok_after_goaway = false;
        }
        if w.processed {
            // no stream is opened on the wire after the GOAWAY was processed, whenever its request was made: a request
            // parked behind the concurrency limit stays unsent (also one the application has cancelled meanwhile)
            let l = w.goaways.first().map(|g| g.0).unwrap_or(0x7fff_ffff);
            let fr = t.subject_frames();
            for (i, f) in fr.iter().enumerate() {
                if i >= w.frames_at_processing {
                    if let Ok(Parsed::Headers { sid, .. }) = &f.parsed {
                        let first = !fr[..i].iter().any(|g| g.raw.stream() == *sid && g.raw.ty == wf::ty::HEADERS);
                        if first && *sid > l {
                            v.push(("C15.new-stream-after-goaway-received".into(), "wire-parked".into(), format!("stream {} was opened on the wire after the peer's GOAWAY(last={}) had been processed", sid, l)));
                        }
                    }
                }
            }
            // no stream created after the GOAWAY was processed appears on the wire
            for r in w.reqs.iter().filter(|r| r.created_after_goaway) {
                if t.subject_frames().iter().any(|f| matches!(&f.parsed, Ok(Parsed::Headers { sid, .. }) if *sid == r.sid)) {
                    v.push(("C15.new-stream-after-goaway-received".into(), "wire".into(), format!("HEADERS for stream {} were written after the peer's GOAWAY had been processed", r.sid)));
                }
            }
        }
        // results seen so far
        if let Some(&(l, _, _)) = w.goaways.last() {
            for r in &w.reqs {
                match &r.result {
                    Some(Err(txt)) if w.processed && r.sid > l && !r.created_after_goaway && !r.cancelled => {
                        // must carry the reason and debug data of one of the peer's GOAWAYs that cut this stream off,
                        // origin remote, kind goaway
                        let head = txt.split('|').next().unwrap_or("");
                        let cands: Vec<&(u32, u32, bool)> = w.goaways.iter().filter(|g| r.sid > g.0).collect();
                        let code_ok: Vec<&&(u32, u32, bool)> = cands.iter().filter(|g| head == format!("remote:goaway:{}", g.1)).collect();
                        if code_ok.is_empty() {
                            v.push(("C15.stream-above-goaway-wrong-error".to_string(), head.chars().filter(|c| !c.is_ascii_digit()).collect(), format!("stream {} (above the peer's last-stream-id {}) failed with {}, expected origin remote / GOAWAY / code of {:?}", r.sid, l, head, cands)));
                        } else if !code_ok.iter().any(|g| g.2 == txt.contains("peer-debug-data")) {
                            v.push(("C15.debug-data-lost".into(), "stream".into(), format!("stream {} failed with the peer's GOAWAY but the error does not carry its debug data: {} (GOAWAYs {:?})", r.sid, txt, cands)));
                        }
                    }
                    Some(Ok(_)) if r.sid > l && w.processed && !r.created_after_goaway && t.mon.frames.iter().all(|f| !(f.sender != t.role && f.raw.stream() == r.sid)) => {
                        v.push(("C15.stream-above-goaway-completed".into(), "ok".into(), format!("stream {} is above the peer's last-stream-id {} and was never answered, yet its response future returned Ok", r.sid, l)));
                    }
                    _ => {}
                }
            }
        }
        v
    }
    fn epilogue(&self, t: &mut T2, w: &mut CWorld) -> V3 {
        let mut v = vec![];
        let mut panics = vec![];
        let Some(&(l, code, dbg)) = w.goaways.last() else { return v };
        if !t.conn_alive() && t.conn_result.is_none() {
            return v;
        }
        t.drive(300);
        if !w.processed {
            w.processed = true;
            w.frames_at_processing = t.subject_frames().len();
        }
        // streams at or below the last-stream-id run to completion, the others fail with the peer's reason
        let f = Flag::new(false);
        let wk = waker_of(&f);
        let mut cx = Context::from_waker(&wk);
        let eof = t.sh.lock().unwrap().pipes[t.role.other().idx()].closed;
        // (a parked request at or below the cut-off may reach the wire only once an earlier stream has finished: repeat)
        for _round in 0..3 {
            for k in 0..w.reqs.len() {
                let sid = w.reqs[k].sid;
                let on_wire = t.subject_frames().iter().any(|f| matches!(&f.parsed, Ok(Parsed::Headers { sid: s, .. }) if *s == sid));
                let answered = t.mon.frames.iter().any(|f| f.sender != t.role && f.raw.stream() == sid);
                if sid <= l && on_wire && !answered && t.conn_alive() && !eof && t.rst_sent(sid).is_empty() {
                    t.peer_response(sid, "200", true);
                }
            }
            t.drive(300);
        }
        for r in w.reqs.iter_mut() {
            if let Some(rf) = r.rf.as_mut() {
                match guarded(&mut panics, "poll response", || Pin::new(rf).poll(&mut cx)) {
                    Some(Poll::Ready(Ok(resp))) => r.result = Some(Ok(resp.status().as_u16())),
                    Some(Poll::Ready(Err(e))) => r.result = Some(Err(describe(&e))),
                    Some(Poll::Pending) => r.result = None,
                    None => {}
                }
            }
        }
        t.panics.extend(panics);
        if !t.panics.is_empty() {
            return v;
        }
        v.extend(self.invariant(t, w));
        for r in &w.reqs {
            if r.created_after_goaway || r.cancelled {
                continue;
            }
            let answered = t.mon.frames.iter().any(|f| f.sender != t.role && f.raw.stream() == r.sid);
            match &r.result {
                None => v.push(("C15.handle-unresolved-after-goaway".into(), if r.sid > l { "above".into() } else { "below".into() }, format!("after GOAWAY(last={}) and quiescence the response future of stream {} is still pending (answered by the peer: {})", l, r.sid, answered))),
                Some(Err(txt)) if r.sid <= l && answered && !eof => v.push(("C15.in-flight-stream-failed".into(), txt.split('|').next().unwrap_or("").chars().filter(|c| !c.is_ascii_digit()).collect(), format!("stream {} is at or below the peer's last-stream-id {} and was answered, yet it failed with {}", r.sid, l, txt.split('|').next().unwrap_or("")))),
                _ => {}
            }
        }
        // the connection's own result reports the peer's error code and debug data
        if code != 0 {
            if eof {
                t.drive(100);
            }
            if let Some(res) = &t.conn_result {
                let matching: Vec<&(u32, u32, bool)> = w.goaways.iter().filter(|g| res.contains(&format!("remote:goaway:{}", g.1))).collect();
                if matching.is_empty() {
                    v.push(("C15.connection-result".into(), res.chars().filter(|c| !c.is_ascii_digit()).collect(), format!("the peer sent GOAWAY(code {}), the connection future returned {}", code, res)));
                } else if !matching.iter().any(|g| g.2 == t.conn_err_debug.as_deref().unwrap_or("").contains("peer-debug-data")) {
                    v.push(("C15.debug-data-lost".into(), "connection".into(), format!("the connection future's error does not carry the peer's debug data: {:?} (GOAWAYs {:?})", t.conn_err_debug, w.goaways)));
                }
            }
        }
        let _ = dbg;
        v
    }
    fn digest_extra(&self, t: &T2, w: &CWorld) -> String {
        format!(
            "goaways={:?} processed={} sr={} reqs={:?}",
            w.goaways,
            w.processed,
            w.sr.is_some(),
            w.reqs.iter().map(|r| (r.sid, r.rf.is_some(), r.result.as_ref().map(|x| x.as_ref().map(|s| *s).map_err(|e| e.split('|').next().unwrap_or("").to_string())), r.created_after_goaway, t.mon.frames.iter().filter(|f| f.sender != t.role && f.raw.stream() == r.sid).count())).collect::<Vec<_>>()
        )
    }
    fn teardown(&self, mut t: T2, w: CWorld) -> Vec<String> {
        let mut panics = std::mem::take(&mut t.panics);
        for r in w.reqs {
            safe_drop(&mut panics, "ResponseFuture", r.rf);
            safe_drop(&mut panics, "SendStream", r.ss);
        }
        safe_drop(&mut panics, "SendRequest", w.sr);
        t.panics = panics;
        t.finish()
    }
    fn counters(&self, _t: &T2, w: &CWorld) -> Vec<(&'static str, u64)> {
        vec![("peer_goaways", w.goaways.len() as u64), ("streams_failed", w.reqs.iter().filter(|r| matches!(r.result, Some(Err(_)))).count() as u64)]
    }
}

// ---------------------------------------------------------------------------------------------
// T1 half: real client <-> real server, shutdown requested while streams are in every state, every schedule / chunking with
// <= k deviations

use crate::c01::{check_fidelity, full_policy, run_t1_property, sequence, Item, T1Harness};
use crate::scen::{Cfg, Dir, Ev as LEv, MsgSpec, RecvMode, Scenario, StreamSpec, T1};

fn judge_c15_t1(h: &T1Harness, t: &mut T1, end: RunEnd) -> V3 {
    let mut v = vec![];
    if end == RunEnd::Horizon {
        v.push(("C15.no-quiescence".to_string(), "horizon".into(), "the exchange did not quiesce after the shutdown".into()));
        return v;
    }
    let log = t.log.snapshot();
    // (1) per sender: last-stream-ids never increase
    for side in [Side::Client, Side::Server] {
        let ids: Vec<u32> = t.mon.frames.iter().filter(|f| f.sender == side).filter_map(|f| if let Ok(Parsed::GoAway { last, .. }) = &f.parsed { Some(*last) } else { None }).collect();
        if ids.windows(2).any(|w| w[1] > w[0]) {
            v.push(("C15.last-stream-id-increased".into(), side.name().into(), format!("{} sent GOAWAY frames with last-stream-ids {:?}", side.name(), ids)));
        }
    }
    // the server's final cut-off
    let server_goaways: Vec<(u32, u32)> = t.mon.frames.iter().filter(|f| f.sender == Side::Server).filter_map(|f| if let Ok(Parsed::GoAway { last, code, .. }) = &f.parsed { Some((*last, *code)) } else { None }).collect();
    let Some(&(l, code)) = server_goaways.last() else { return v };
    let sid_of = |k: usize| log.iter().find_map(|r| if r.side == Side::Client && r.k == k && r.dir == Dir::Req && r.submitted { if let LEv::StreamId(s) = r.ev { Some(s) } else { None } } else { None });
    for k in 0..h.sc.streams.len() {
        let accepted = log.iter().any(|r| r.side == Side::Server && r.k == k && r.dir == Dir::Req && !r.submitted && matches!(r.ev, LEv::Head(_)));
        let Some(sid) = sid_of(k) else {
            // never got an identifier: no new stream after the GOAWAY - the attempt fails with the peer's reason (a hang
            // is C07's business)
            let e = log.iter().find_map(|r| if r.side == Side::Client && r.k == k && r.dir == Dir::Req && r.submitted { if let LEv::Err(e) = &r.ev { Some(e.clone()) } else { None } } else { None });
            if let Some(e) = e {
                let ok = server_goaways.iter().any(|g| e.contains(&format!("remote:goaway:{}", g.1))) || (code != 0 && e.contains("io:"));
                if !ok {
                    v.push(("C15.new-stream-wrong-error".into(), e.chars().filter(|c| !c.is_ascii_digit()).collect(), format!("request #{} could not be started after the server's GOAWAY(code {}); it failed with '{}' instead of the peer's reason", k, code, e)));
                }
            }
            continue;
        };
        // (2) never below a stream handed to the application
        if accepted && sid > l && code == 0 {
            v.push(("C15.last-stream-id-below-accepted".into(), "t1".into(), format!("the server's final GOAWAY has last-stream-id {} but stream {} (#{}) had been handed to its application", l, sid, k)));
        }
        let resp = sequence(&log, Side::Client, k, &Dir::Resp, false);
        let resp_err = log.iter().find_map(|r| if r.side == Side::Client && r.k == k && r.dir == Dir::Resp && !r.submitted { if let LEv::Err(e) = &r.ev { Some(e.clone()) } else { None } } else { None });
        if sid > l {
            // (3) above the cut-off: not processed; the client's handle fails with the peer's reason
            if accepted && code == 0 {
                // covered by (2)
            }
            if resp.iter().any(|i| matches!(i, Item::Head(_))) && !accepted {
                v.push(("C15.stream-above-goaway-completed".into(), "t1".into(), format!("stream {} (#{}) is above the server's last-stream-id {} and was never handed to its application, yet the client got a response", sid, k, l)));
            }
            match &resp_err {
                Some(e) if e.contains(&format!("remote:goaway:{}", code)) || (server_goaways.len() > 1 && server_goaways.iter().any(|g| e.contains(&format!("remote:goaway:{}", g.1)))) => {}
                Some(e) if code != 0 && (e.contains("io:") || e.contains("remote:reset")) => {}
                Some(e) => v.push(("C15.stream-above-goaway-wrong-error".into(), e.chars().filter(|c| !c.is_ascii_digit()).collect(), format!("stream {} (#{}) above the last-stream-id {} failed with {}, expected the peer's GOAWAY reason (code {})", sid, k, l, e, code))),
                None => {
                    if !resp.iter().any(|i| matches!(i, Item::Head(_))) {
                        v.push(("C15.handle-unresolved-after-goaway".into(), "above".into(), format!("stream {} (#{}) above the last-stream-id {}: the response future neither failed nor completed", sid, k, l)));
                    }
                }
            }
        } else if code == 0 && accepted {
            // (4) at or below the cut-off of a graceful shutdown: runs to completion (both directions)
            let f = check_fidelity(&Scenario { name: String::new(), cfg: h.sc.cfg.clone(), streams: h.sc.streams.clone() }, &log, &t.mon, true, true);
            for (rule, sig, what) in f.vios {
                if what.contains(&format!("stream #{} ", k)) {
                    v.push(("C15.in-flight-stream-not-finished".into(), format!("{}:{}", rule, sig), format!("graceful shutdown, stream {} (#{}) is at or below the last-stream-id {}: {}", sid, k, l, what)));
                }
            }
        }
    }
    // (5) both connection futures complete; after a graceful shutdown with NO_ERROR both report success
    for c in ["connC", "connS"] {
        if !t.exec.is_done(c) {
            v.push(("C15.graceful-shutdown-not-completed".into(), c.into(), format!("{} has not completed after GOAWAY(last {}, code {})", c, l, code)));
        }
    }
    let conn_result = |side: Side| log.iter().rev().find_map(|r| if r.side == side && r.k == usize::MAX { if let LEv::Err(e) = &r.ev { if e.starts_with("conn:") { Some(e.clone()) } else { None } } else { None } } else { None });
    if let Some(r) = conn_result(Side::Client) {
        if code != 0 && !r.contains(&format!("remote:goaway:{}", code)) && !r.contains("io:") {
            v.push(("C15.connection-result".into(), r.chars().filter(|c| !c.is_ascii_digit()).collect(), format!("the server sent GOAWAY(code {}), the client's connection future returned '{}'", code, r)));
        }
        if code == 0 && r != "conn: ok" {
            v.push(("C15.connection-result".into(), r.chars().filter(|c| !c.is_ascii_digit()).collect(), format!("graceful shutdown (NO_ERROR), the client's connection future returned '{}'", r)));
        }
    }
    v
}

pub fn c15_t1_scenarios() -> Vec<Scenario> {
    let m = |c: &[usize]| MsgSpec::simple(c);
    let mk = |name: &str, cfg: Cfg, streams: Vec<StreamSpec>| Scenario { name: name.to_string(), cfg, streams };
    vec![
        // shutdown after the first accept, two more requests race the GOAWAY
        mk("graceful-after-1-of-3", Cfg { graceful_after: Some(1), ..Cfg::default() }, vec![StreamSpec::new(m(&[3, 3]), m(&[3])), StreamSpec::new(m(&[2]), m(&[2])), StreamSpec::new(m(&[]), m(&[1]))]),
        mk("graceful-after-2-of-3-late-readers", Cfg { graceful_after: Some(2), ..Cfg::default() }, vec![StreamSpec { c_recv: RecvMode::Late, s_recv: RecvMode::Late, ..StreamSpec::new(m(&[5]), m(&[5, 5])) }, StreamSpec::new(m(&[]), m(&[2])), StreamSpec::new(m(&[4]), m(&[]))]),
        mk("graceful-with-parked-request", Cfg { graceful_after: Some(1), s_max_concurrent: Some(1), c_initial_max_send_streams: Some(1), ..Cfg::default() }, vec![StreamSpec::new(m(&[3]), m(&[3])), StreamSpec::new(m(&[]), m(&[2]))]),
        mk("graceful-window7", Cfg { graceful_after: Some(1), c_stream_window: Some(7), s_stream_window: Some(7), ..Cfg::default() }, vec![StreamSpec::new(m(&[20]), m(&[16])), StreamSpec::new(m(&[]), m(&[2]))]),
        // requests that start late: around the first GOAWAY, around the final one, after it
        mk("graceful-late-requests", Cfg { graceful_after: Some(1), ..Cfg::default() }, vec![StreamSpec::new(m(&[3]), m(&[3])), StreamSpec { c_start_delay: 4, ..StreamSpec::new(m(&[]), m(&[2])) }, StreamSpec { c_start_delay: 9, ..StreamSpec::new(m(&[2]), m(&[1])) }]),
        mk("graceful-very-late-request", Cfg { graceful_after: Some(1), keep_send_request: true, ..Cfg::default() }, vec![StreamSpec { s_recv: RecvMode::Late, ..StreamSpec::new(m(&[3, 3]), m(&[3])) }, StreamSpec { c_start_delay: 16, ..StreamSpec::new(m(&[]), m(&[2])) }]),
        mk("abrupt-late-request", Cfg { abrupt_after: Some((1, 2)), ..Cfg::default() }, vec![StreamSpec::new(m(&[3]), m(&[3])), StreamSpec { c_start_delay: 5, ..StreamSpec::new(m(&[]), m(&[2])) }]),
        mk("abrupt-after-1-of-3", Cfg { abrupt_after: Some((1, 2)), ..Cfg::default() }, vec![StreamSpec::new(m(&[3, 3]), m(&[3])), StreamSpec::new(m(&[2]), m(&[2])), StreamSpec::new(m(&[]), m(&[1]))]),
        mk("abrupt-code-0xdeadbeef", Cfg { abrupt_after: Some((2, 0xdead_beef)), ..Cfg::default() }, vec![StreamSpec::new(m(&[3]), m(&[3])), StreamSpec::new(m(&[]), m(&[2]))]),
    ]
}

pub fn replay_t1(v: &serde_json::Value) -> bool {
    let name = v["scenario_name"].as_str().unwrap_or("");
    let scs = c15_t1_scenarios();
    let mut v2 = v.clone();
    if let Some(i) = scs.iter().position(|s| s.name == name) {
        v2["scenario"] = json!(i);
    }
    crate::c01::replay(&v2, &scs, "C15", judge_c15_t1, full_policy())
}

pub fn run(ctx: &Ctx) -> Outcome {
    let mut out = with_budget_scale(0.62, || run_x2(ctx));
    let max_dev = if ctx.tier.is_quick() { 2 } else { 3 };
    let mut t1 = run_t1_property(ctx, "C15", &c15_t1_scenarios(), judge_c15_t1, max_dev, full_policy(), &[]);
    t1.coverage.remove("mechanism_counters");
    t1.coverage.remove("samples");
    t1.coverage.remove("rule");
    out.absorb(t1);
    {
        let mut vs = VioSet::default();
        for x in std::mem::take(&mut out.violations) {
            vs.add(x);
        }
        crate::fill::sweep(&mut out, &mut vs, ctx.tier.is_quick(), "C15");
        out.violations = vs.into_vec();
    }
    out.assume("T1 half: shutdown is requested by the server application right after its n-th accept; the moment relative to everything else varies with the explored schedules and chunkings");
    out
}

fn run_x2(ctx: &Ctx) -> Outcome {
    let mut out = Outcome::default();
    let quick = ctx.tier.is_quick();
    let budget = ctx.tier.budget_s();
    let m1 = ServerShutdown::new(if quick { "server-shutdown-q" } else { "server-shutdown-t" }, quick);
    let m2 = ClientGoaway::new(if quick { "client-goaway-q" } else { "client-goaway-t" }, quick);
    let maxd = if quick { 8 } else { 11 };
    let m3 = ServerShutdown::new_variant(if quick { "server-shutdown-blocked-q" } else { "server-shutdown-blocked-t" }, quick, true);
    // quick: explicit, machine-independent depths
    let (d1, d2, d3, d4) = if quick { (6, 8, 6, 7) } else { (maxd, maxd, maxd, maxd) };
    let r1 = search(ctx, &m1, "C15", d1, budget * 0.45, true);
    let r2 = search(ctx, &m2, "C15", d2, budget * 0.8, true);
    let r3 = search(ctx, &m3, "C15", d3, budget * 1.1, true);
    let m4 = ClientGoaway::new_variant(if quick { "client-goaway-parked-q" } else { "client-goaway-parked-t" }, quick, true);
    let r4 = search(ctx, &m4, "C15", d4, budget * 1.3, true);
    fill_outcome(&mut out, &[(m1.name, &r1), (m2.name, &r2), (m3.name, &r3), (m4.name, &r4)]);
    out.set("exhaustive", json!(false));
    out.set("alphabet", json!({"server": m1.events.iter().map(|e| format!("{:?}", e)).collect::<Vec<_>>(), "client": m2.events.iter().map(|e| format!("{:?}", e)).collect::<Vec<_>>()}));
    out.set("rule", json!("X2 on T2, both roles. Real server with two accepted streams: graceful_shutdown, abrupt_shutdown(code), respond, push_request, drop handles; peer opens new streams racing the GOAWAY, acknowledges the shutdown PING early / late, ends its requests, sends its own GOAWAY (last 0 / 1 / 3 / 2^31-1, codes 0 / 2). Invariants: emitted last-stream-ids never increase and are never below a stream already returned by accept(); after GOAWAY(L) streams above L are neither surfaced nor answered; push_request fails once the peer's GOAWAY has been processed. Epilogue: graceful shutdown = GOAWAY(2^31-1), PING, after its ACK GOAWAY(last processed), accepted streams answered, transport shut down, Ok(()). Real client with two requests in flight: peer GOAWAY (last 0 / 1 / 3 / 5 / 2^31-1, codes 0 / 2 / 0xdeadbeef, with / without debug data, up to two, never increasing), responses, EOF, new requests, poll_ready. Invariants: no send_request / poll_ready success and no new HEADERS after the GOAWAY was processed; streams above L fail with origin remote / kind GOAWAY / the peer's code and debug data. Epilogue: streams <= L complete, nothing stays pending, the connection result carries the peer's code. T1 half (harness t1-scenarios): real client <-> real server, the server application calls graceful_shutdown / abrupt_shutdown(code) after its n-th accept while further requests race the GOAWAY (also parked behind the concurrency limit, with 7-octet windows, late readers); every execution with <= 2 (thorough 3) deviations in schedule, partial writes / reads at structural offsets and spurious Pendings; the same rules judged from the wire and both API logs"));
    out.add_sample(json!({"harness": format!("x2.{}", m1.name), "depth": 3, "choices": [1, 4, 5]}));
    let mut vs = VioSet::default();
    vs.merge(r1.agg.vios);
    vs.merge(r2.agg.vios);
    vs.merge(r3.agg.vios);
    vs.merge(r4.agg.vios);
    out.violations = vs.into_vec();
    out.guard_nonzero("goaways sent", out.coverage.get("mechanism_counters").and_then(|m| m.get("goaways_sent")).and_then(|v| v.as_u64()).unwrap_or(0));
    out.guard_nonzero("streams failed by peer goaway", out.coverage.get("mechanism_counters").and_then(|m| m.get("streams_failed")).and_then(|v| v.as_u64()).unwrap_or(0));
    out
}

/// C17's clause "a GOAWAY from the peer surfaces on every handle of the affected streams with the peer's exact code, origin
/// and debug data" is decided by the client model above; C17 runs it (depth 6) and takes over the rules that express it.
pub fn goaway_surfacing_for_c17(ctx: &Ctx, out: &mut Outcome, vios: &mut VioSet) {
    let quick = ctx.tier.is_quick();
    let m = ClientGoaway::new(if quick { "client-goaway-q" } else { "client-goaway-t" }, quick);
    let deadline = ctx.elapsed() + if quick { 6.0 } else { 120.0 };
    let rep = search(ctx, &m, "C15", if quick { 6 } else { 8 }, deadline, true);
    out.harness("peer-goaway-surfacing (client model of C15)", json!({"completed_depth": rep.completed_depth, "executions": rep.execs, "states": rep.states}));
    out.add_count("evaluations", rep.execs);
    out.add_count("traces_validated_against_impl", rep.execs);
    out.add_count("transitions", rep.transitions);
    for mut x in rep.agg.vios.into_vec() {
        if ["C15.stream-above-goaway-wrong-error", "C15.debug-data-lost", "C15.connection-result"].contains(&x.rule.as_str()) {
            x.rule = x.rule.replace("C15.", "C17.goaway-");
            vios.add(x);
        }
    }
}

pub fn replay(v: &serde_json::Value) -> Option<bool> {
    let h = v["harness"].as_str().unwrap_or("");
    for quick in [true, false] {
        let n1: &'static str = if quick { "server-shutdown-q" } else { "server-shutdown-t" };
        let n2: &'static str = if quick { "client-goaway-q" } else { "client-goaway-t" };
        if h == format!("x2.{}", n1) {
            return Some(replay_model(&ServerShutdown::new(n1, quick), "C15", v));
        }
        let n4: &'static str = if quick { "client-goaway-parked-q" } else { "client-goaway-parked-t" };
        if h == format!("x2.{}", n4) {
            return Some(replay_model(&ClientGoaway::new_variant(n4, quick, true), "C15", v));
        }
        let n3: &'static str = if quick { "server-shutdown-blocked-q" } else { "server-shutdown-blocked-t" };
        if h == format!("x2.{}", n3) {
            return Some(replay_model(&ServerShutdown::new_variant(n3, quick, true), "C15", v));
        }
        if h == format!("x2.{}", n2) {
            return Some(replay_model(&ClientGoaway::new(n2, quick), "C15", v));
        }
    }
    None
}
