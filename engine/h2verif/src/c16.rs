//! Sender-side X2 model on T2 (subject = real client sending on 2 streams, scripted server peer):
//! C16 (the send-capacity API tells the truth) and the explicit-state part of C02 (never exceeds the peer's windows).

use crate::common::*;
use crate::monitor::*;
use crate::sim::*;
use crate::t2::*;
use crate::x2::*;
use bytes::Bytes;
use h2::{client, SendStream};
use h2wire::frame::{self as wf, Parsed};
use serde_json::json;
use std::sync::Arc;
use std::task::{Context, Poll};

#[derive(Clone, Debug)]
pub enum Ev {
    Reserve(usize, usize),
    SendData(usize, usize),
    End(usize),
    Reset(usize),
    DropStream(usize),
    PollCapacity(usize),
    PeerWuConn(u32),
    PeerWuStream(usize, u32),
    PeerSettingsWindow(u32),
    PeerRst(usize),
    Drive,
    DriveBudget(usize),
    DriveBlocked,
}

pub struct StreamW {
    pub sid: u32,
    pub ss: Option<SendStream<Bytes>>,
    pub flag: Arc<Flag>,
    /// poll_capacity returned Pending and nobody has polled since
    pub waiting: bool,
    pub submitted: u64,
    pub requested: usize,
    pub ended: bool,
    pub reset: bool,
    pub peer_reset: bool,
    _rf: Option<client::ResponseFuture>,
}

pub struct World {
    pub streams: Vec<StreamW>,
    pub acct: FlowAcct,
    pub zero_capacity_grants: u64,
    pub capacity_grants: u64,
}

pub struct SenderModel {
    pub events: Vec<Ev>,
    pub max_send_buffer: Option<usize>,
    pub init_stream_window: u32,
    pub name: &'static str,
}

impl SenderModel {
    pub fn new(name: &'static str, quick: bool, max_send_buffer: Option<usize>, init_stream_window: u32) -> SenderModel {
        let mut ev = vec![];
        let sizes_reserve: &[usize] = if quick { &[0, 7, 1_000_000] } else { &[0, 1, 7, 16384, 1_000_000] };
        let sizes_send: &[usize] = if quick { &[0, 7, 70_000] } else { &[0, 1, 7, 16384, 70_000] };
        for s in 0..2 {
            for &n in sizes_reserve {
                ev.push(Ev::Reserve(s, n));
            }
            for &n in sizes_send {
                ev.push(Ev::SendData(s, n));
            }
            ev.push(Ev::PollCapacity(s));
            ev.push(Ev::End(s));
            ev.push(Ev::Reset(s));
            // (quick: the handles of stream 0 only)
            if !quick || s == 0 {
                ev.push(Ev::DropStream(s));
            }
            if !quick {
                ev.push(Ev::PeerRst(s));
            }
        }
        for &inc in if quick { &[7u32, 16384][..] } else { &[1u32, 7, 16384][..] } {
            ev.push(Ev::PeerWuConn(inc));
            ev.push(Ev::PeerWuStream(0, inc));
            if !quick {
                ev.push(Ev::PeerWuStream(1, inc));
            }
        }
        for &w in if quick { &[0u32, 65535][..] } else { &[0u32, 1, 7, 65535][..] } {
            ev.push(Ev::PeerSettingsWindow(w));
        }
        ev.push(Ev::Drive);
        ev.push(Ev::DriveBudget(if quick { 1033 } else { 9 }));
        if !quick {
            ev.push(Ev::DriveBudget(1033));
        }
        ev.push(Ev::DriveBlocked);
        SenderModel { events: ev, max_send_buffer, init_stream_window, name }
    }

    fn wire_bytes(t: &T2, sid: u32) -> u64 {
        t.mon.frames_of(t.role).filter_map(|f| if let Ok(Parsed::Data { sid: s, data, .. }) = &f.parsed { if *s == sid { Some(data.len() as u64) } else { None } } else { None }).sum()
    }
}

impl Model for SenderModel {
    type World = World;
    fn name(&self) -> &'static str {
        self.name
    }
    fn cfg(&self) -> T2Cfg {
        let mut cb = client::Builder::new();
        if let Some(n) = self.max_send_buffer {
            cb.max_send_buffer_size(n);
        }
        T2Cfg { role: Side::Client, peer_settings: vec![(wf::setting::INITIAL_WINDOW_SIZE, self.init_stream_window)], client: Some(cb), server: None, policy: IoPolicy::default() }
    }
    fn init(&self, t: &mut T2) -> World {
        let mut streams = vec![];
        let flag0 = Flag::new(false);
        let w = waker_of(&flag0);
        let mut cx = Context::from_waker(&w);
        for _ in 0..2 {
            let sr = t.send_request.as_mut().unwrap();
            let _ = sr.poll_ready(&mut cx);
            let (rf, ss) = sr.send_request(simple_request("/s", true), false).expect("send_request");
            streams.push(StreamW { sid: rf.stream_id().as_u32(), ss: Some(ss), flag: Flag::new(false), waiting: false, submitted: 0, requested: 0, ended: false, reset: false, peer_reset: false, _rf: Some(rf) });
        }
        t.drive(50);
        let mut acct = FlowAcct::new(Side::Client);
        acct.update(&t.mon);
        World { streams, acct, zero_capacity_grants: 0, capacity_grants: 0 }
    }
    fn n_events(&self) -> usize {
        self.events.len()
    }
    fn event_name(&self, e: usize) -> String {
        format!("{:?}", self.events[e])
    }
    fn enabled(&self, t: &T2, w: &World, e: usize) -> bool {
        let live = |s: usize| w.streams[s].ss.is_some() && !w.streams[s].ended && !w.streams[s].reset;
        match &self.events[e] {
            Ev::Reserve(s, _) | Ev::SendData(s, _) | Ev::End(s) | Ev::Reset(s) => live(*s),
            Ev::PollCapacity(s) => w.streams[*s].ss.is_some(),
            Ev::DropStream(s) => w.streams[*s].ss.is_some(),
            Ev::PeerWuStream(s, _) | Ev::PeerRst(s) => !w.streams[*s].peer_reset,
            Ev::Drive | Ev::DriveBudget(_) | Ev::DriveBlocked => t.conn_alive(),
            _ => t.conn_alive(),
        }
    }
    fn apply(&self, t: &mut T2, w: &mut World, e: usize) {
        let mut panics = vec![];
        match self.events[e].clone() {
            Ev::Reserve(s, n) => {
                let st = &mut w.streams[s];
                st.requested = n;
                let ss = st.ss.as_mut().unwrap();
                guarded(&mut panics, "reserve_capacity", || ss.reserve_capacity(n));
            }
            Ev::SendData(s, n) => {
                let st = &mut w.streams[s];
                let ss = st.ss.as_mut().unwrap();
                let from = st.submitted as usize;
                let data = Bytes::from((from..from + n).map(|i| (i * 7 + s * 31 + 1) as u8).collect::<Vec<u8>>());
                if let Some(Ok(())) = guarded(&mut panics, "send_data", || ss.send_data(data, false)) {
                    st.submitted += n as u64;
                    // h2 lowers the request by what was sent
                    st.requested = st.requested.saturating_sub(n);
                }
            }
            Ev::End(s) => {
                let st = &mut w.streams[s];
                let ss = st.ss.as_mut().unwrap();
                if let Some(Ok(())) = guarded(&mut panics, "send_data(eos)", || ss.send_data(Bytes::new(), true)) {
                    st.ended = true;
                }
                // the owner of the (non-clonable) handle ended the stream itself: it is not waiting any more
                st.waiting = false;
            }
            Ev::Reset(s) => {
                let st = &mut w.streams[s];
                let ss = st.ss.as_mut().unwrap();
                guarded(&mut panics, "send_reset", || ss.send_reset(h2::Reason::CANCEL));
                st.reset = true;
                st.waiting = false;
            }
            Ev::DropStream(s) => {
                let st = &mut w.streams[s];
                let ss = st.ss.take();
                let rf = st._rf.take();
                safe_drop(&mut panics, "SendStream", ss);
                safe_drop(&mut panics, "ResponseFuture", rf);
                st.reset = true;
            }
            Ev::PollCapacity(s) => {
                let st = &mut w.streams[s];
                st.flag.clear();
                let wk = waker_of(&st.flag);
                let mut cx = Context::from_waker(&wk);
                let ss = st.ss.as_mut().unwrap();
                match guarded(&mut panics, "poll_capacity", || ss.poll_capacity(&mut cx)) {
                    Some(Poll::Ready(Some(Ok(n)))) => {
                        st.waiting = false;
                        w.capacity_grants += 1;
                        if n == 0 {
                            w.zero_capacity_grants += 1;
                        }
                    }
                    Some(Poll::Ready(_)) => st.waiting = false,
                    Some(Poll::Pending) => st.waiting = true,
                    None => {}
                }
            }
            Ev::PeerWuConn(inc) => t.peer_send(&wf::window_update(0, inc)),
            Ev::PeerWuStream(s, inc) => {
                let sid = w.streams[s].sid;
                t.peer_send(&wf::window_update(sid, inc));
            }
            Ev::PeerSettingsWindow(v) => t.peer_send(&wf::settings(&[(wf::setting::INITIAL_WINDOW_SIZE, v)])),
            Ev::PeerRst(s) => {
                let sid = w.streams[s].sid;
                t.peer_send(&wf::rst_stream(sid, 8));
                w.streams[s].peer_reset = true;
            }
            Ev::Drive => {
                t.drive(200);
            }
            Ev::DriveBudget(b) => {
                t.sh.lock().unwrap().set_write_budget(t.role, Some(b));
                t.drive(200);
                t.sh.lock().unwrap().set_write_budget(t.role, None);
            }
            Ev::DriveBlocked => {
                t.sh.lock().unwrap().set_write_blocked(t.role, true);
                t.drive(200);
                t.sh.lock().unwrap().set_write_blocked(t.role, false);
            }
        }
        t.panics.extend(panics);
        t.catch_up();
    }

    fn invariant(&self, t: &mut T2, w: &mut World) -> V3 {
        let mut v = vec![];
        t.catch_up();
        w.acct.update(&t.mon);
        for s in w.acct.violations.drain(..) {
            v.push(("C02.window-exceeded".to_string(), if s.contains("connection credit") { "conn".into() } else { "stream".into() }, s));
        }
        if w.zero_capacity_grants > 0 {
            v.push(("C16.poll-capacity-zero".into(), "zero".into(), "poll_capacity returned Ready(Some(Ok(0)))".into()));
            w.zero_capacity_grants = 0;
        }
        // assigned capacity never exceeds what the wire says the peer has granted
        let mut total: i64 = 0;
        for st in &w.streams {
            if st.reset || st.peer_reset {
                continue;
            }
            let Some(ss) = st.ss.as_ref() else { continue };
            let cap = ss.capacity() as i64;
            let queued = st.submitted as i64 - SenderModel::wire_bytes(t, st.sid) as i64;
            total += cap + queued.max(0);
            // SETTINGS the peer has sent but whose ACK is not on the wire yet may or may not have been applied by the subject
            // (h2 applies them when it buffers the ACK): take the most generous reading, the strict one is C02's at DATA time
            let mut credit = w.acct.stream_credit(st.sid);
            for p in t.mon.unacked_settings[t.role.other().idx()].iter() {
                for (k, val) in p {
                    if *k == wf::setting::INITIAL_WINDOW_SIZE {
                        credit = credit.max(*val as i64 + w.acct.stream_delta.get(&st.sid).copied().unwrap_or(0));
                    }
                }
            }
            // queued data may legitimately exceed the window (send_data buffers without limit); capacity itself may not
            if cap > (credit - queued.max(0)).max(0) {
                v.push(("C16.capacity-exceeds-stream-window".into(), "stream".into(), format!("stream {}: capacity() = {} with {} octets still queued, but the peer's stream window leaves {}", st.sid, cap, queued, credit)));
            }
        }
        // conservation inside the endpoint (snapshot hook): the part of the connection window that is not available for
        // assignment is exactly what the streams still in the store hold as assigned, unused capacity - capacity that
        // belongs to nobody can never reach a waiting stream (visible also where capacity() is clipped by the send buffer)
        if let Conn::Client(c) = &t.conn {
            let snap = c.verif_snapshot();
            if let Some(p) = snap.send.find("prioritize: Prioritize") {
                let pr = &snap.send[p..];
                if let (Some(ws), Some(av)) = (crate::c19::num_after(pr, "window_size: Window("), crate::c19::num_after(pr, "available: Window(")) {
                    let mut held: i64 = 0;
                    for st in &snap.streams {
                        if let Some(q) = st.find("send_flow: FlowControl") {
                            let a = crate::c19::num_after(&st[q..], "available: Window(").unwrap_or(0).max(0);
                            held += a;
                        }
                    }
                    if std::env::var("VERIF_C16_DEBUG").is_ok() {
                        eprintln!("C16 debug: ws={} av={} held={} streams={:?}", ws, av, held, snap.streams.iter().map(|x| x.chars().take(400).collect::<String>()).collect::<Vec<_>>());
                    }
                    if ws - av != held && ws >= 0 {
                        v.push(("C16.assigned-capacity-lost".into(), if ws - av > held { "leaked".into() } else { "double".into() }, format!("{} octets of the connection send window ({} of {}) are marked as assigned to streams, but the streams in the store hold {} octets of assigned capacity", ws - av, ws - av, ws, held)));
                    }
                }
            }
        }
        let caps: i64 = w.streams.iter().filter(|s| !s.reset && !s.peer_reset).filter_map(|s| s.ss.as_ref().map(|x| x.capacity() as i64)).sum();
        if caps > 0 && caps > w.acct.conn_credit.max(0) {
            v.push(("C16.capacity-exceeds-connection-window".into(), "conn".into(), format!("capacities of all streams add up to {} but the peer's connection window leaves {} (assigned + queued {})", caps, w.acct.conn_credit, total)));
        }
        v
    }

    fn epilogue(&self, t: &mut T2, w: &mut World) -> V3 {
        let mut v = vec![];
        if !t.conn_alive() {
            return v;
        }
        // strict quiescence first: whoever was woken runs, nobody else
        t.drive(300);
        t.catch_up();
        w.acct.update(&t.mon);
        // D: at quiescence a stream that can send no more (closed, reset) and has nothing buffered does not sit on assigned
        // capacity - nobody else could get it (before the connection has run, a stream scheduled for reset may hold some)
        if let Conn::Client(c) = &t.conn {
            let snap = c.verif_snapshot();
            for st in &snap.streams {
                if let Some(q) = st.find("send_flow: FlowControl") {
                    let a = crate::c19::num_after(&st[q..], "available: Window(").unwrap_or(0).max(0);
                    let closed = st.contains("state: Closed(");
                    let buffered = crate::c19::num_after(st, "buffered_send_data: ").unwrap_or(0);
                    if closed && a > buffered {
                        v.push(("C16.assigned-capacity-lost".into(), "closed-stream".into(), format!("at quiescence a closed stream still holds {} octets of assigned connection window ({} buffered): {}", a, buffered, st.chars().take(140).collect::<String>())));
                    }
                }
            }
        }
        // C: no pending poll_capacity becomes ready on a forced poll (lost wakeup); ended / reset streams have been woken
        for st in w.streams.iter_mut() {
            if !st.waiting || st.ss.is_none() {
                continue;
            }
            let was_woken = st.flag.is_set();
            st.flag.clear();
            let wk = waker_of(&st.flag);
            let mut cx = Context::from_waker(&wk);
            let r = st.ss.as_mut().unwrap().poll_capacity(&mut cx);
            match r {
                Poll::Ready(x) if !was_woken => {
                    v.push((
                        "C16.capacity-waiter-not-woken".into(),
                        match &x {
                            Some(Ok(_)) => "capacity".into(),
                            Some(Err(_)) => "error".into(),
                            None => "none".into(),
                        },
                        format!("stream {}: a task waiting in poll_capacity was not woken although a forced poll now returns {:?}", st.sid, x.map(|r| r.map_err(|e| crate::scen::err_text(&e)))),
                    ));
                    st.waiting = false;
                }
                Poll::Ready(_) => st.waiting = false,
                Poll::Pending => {}
            }
        }
        // B: capacity that is free reaches a stream that asked for more than it holds (unclipped buffer only)
        if self.max_send_buffer.is_none() {
            let assigned: i64 = w.streams.iter().filter(|s| !s.reset && !s.peer_reset).filter_map(|s| s.ss.as_ref().map(|x| x.capacity() as i64 + (s.submitted as i64 - SenderModel::wire_bytes(t, s.sid) as i64).max(0))).sum();
            let free = w.acct.conn_credit - assigned;
            if free > 0 {
                for st in &w.streams {
                    if st.reset || st.peer_reset || st.ended {
                        continue;
                    }
                    let Some(ss) = st.ss.as_ref() else { continue };
                    let cap = ss.capacity() as i64;
                    let queued = (st.submitted as i64 - SenderModel::wire_bytes(t, st.sid) as i64).max(0);
                    let room = w.acct.stream_credit(st.sid) - queued - cap;
                    if (st.requested as i64) > cap && room > 0 {
                        v.push((
                            "C16.free-capacity-not-assigned".into(),
                            "waiting-stream".into(),
                            format!("at quiescence stream {} asked for {} and holds {}; its window allows {} more and {} octets of connection window are unassigned", st.sid, st.requested, cap, room, free),
                        ));
                    }
                }
            }
        }
        // A: the largest reported capacity is really usable without any further grant
        let best = w.streams.iter().enumerate().filter(|(_, s)| !s.reset && !s.peer_reset && !s.ended && s.ss.is_some()).max_by_key(|(_, s)| s.ss.as_ref().unwrap().capacity()).map(|(i, _)| i);
        if let Some(i) = best {
            let c = w.streams[i].ss.as_ref().unwrap().capacity();
            if c > 0 {
                let sid = w.streams[i].sid;
                let before = SenderModel::wire_bytes(t, sid);
                let queued = w.streams[i].submitted - before;
                let data = Bytes::from(vec![0x5a; c]);
                let mut panics = vec![];
                let r = guarded(&mut panics, "send_data", || w.streams[i].ss.as_mut().unwrap().send_data(data, false));
                t.panics.extend(panics);
                if let Some(Ok(())) = r {
                    w.streams[i].submitted += c as u64;
                    t.drive(300);
                    t.catch_up();
                    w.acct.update(&t.mon);
                    for s in w.acct.violations.drain(..) {
                        v.push(("C02.window-exceeded".to_string(), "epilogue".into(), s));
                    }
                    let after = SenderModel::wire_bytes(t, sid);
                    if t.conn_alive() && after < before + queued + c as u64 {
                        v.push((
                            "C16.capacity-not-usable".into(),
                            "stuck".into(),
                            format!("stream {}: capacity() reported {} (with {} octets queued before); after send_data({}) and quiescence only {} of {} octets reached the wire without a further grant", sid, c, queued, c, after - before, queued + c as u64),
                        ));
                    }
                }
            }
        }
        v
    }

    fn digest_extra(&self, t: &T2, w: &World) -> String {
        // monitor state as remaining credit, not running totals
        let mut s = format!("conn={} iws={}", w.acct.conn_credit, w.acct.acked_iws);
        for st in &w.streams {
            let wire = SenderModel::wire_bytes(t, st.sid);
            s.push_str(&format!(
                "|{}:credit={} queued={} req={} ended={} reset={} peer_reset={} handle={} waiting={} woken={} cap={}",
                st.sid,
                w.acct.stream_credit(st.sid),
                st.submitted - wire.min(st.submitted),
                st.requested,
                st.ended,
                st.reset,
                st.peer_reset,
                st.ss.is_some(),
                st.waiting,
                st.flag.is_set(),
                st.ss.as_ref().map(|x| x.capacity()).unwrap_or(0)
            ));
        }
        s.push_str(&format!("|unacked={:?}", t.mon.unacked_settings));
        s
    }

    fn teardown(&self, mut t: T2, w: World) -> Vec<String> {
        let mut panics = std::mem::take(&mut t.panics);
        for st in w.streams {
            safe_drop(&mut panics, "SendStream", st.ss);
            safe_drop(&mut panics, "ResponseFuture", st._rf);
        }
        t.panics = panics;
        t.finish()
    }

    fn counters(&self, _t: &T2, w: &World) -> Vec<(&'static str, u64)> {
        vec![("data_frames", w.acct.data_frames), ("window_limited_frames", w.acct.window_limited_frames), ("negative_window_states", w.acct.negative_window_seen as u64), ("capacity_grants", w.capacity_grants)]
    }
}

pub fn models(quick: bool) -> Vec<SenderModel> {
    if quick {
        vec![SenderModel::new("sender-default-q", quick, None, 65535), SenderModel::new("sender-window7-buffer16-q", quick, Some(16), 7), SenderModel::new("sender-buffer5-q", quick, Some(5), 65535)]
    } else {
        vec![SenderModel::new("sender-default-t", quick, None, 65535), SenderModel::new("sender-window7-buffer16-t", quick, Some(16), 7), SenderModel::new("sender-buffer5-t", quick, Some(5), 65535)]
    }
}

/// C17's clause "a reset or drop discards that stream's unsent data without disturbing other streams" has a side that only the
/// sender's bookkeeping shows: connection window that a cancelled stream had been assigned must come back for the others.
/// The sender model (default configuration; resets and handle drops are in its menu) is run for C17 and its capacity
/// conservation rules are taken over under C17's name.
pub fn capacity_after_cancel_for_c17(ctx: &Ctx, out: &mut Outcome, vios: &mut VioSet) {
    let quick = ctx.tier.is_quick();
    let m = SenderModel::new(if quick { "sender-default-q" } else { "sender-default-t" }, quick, None, 65535);
    let deadline = ctx.elapsed() + if quick { 20.0 } else { 200.0 };
    let rep = search(ctx, &m, "C16", if quick { 4 } else { 6 }, deadline, true);
    out.harness("capacity-after-cancel (sender model of C16)", json!({"completed_depth": rep.completed_depth, "executions": rep.execs, "states": rep.states}));
    out.add_count("evaluations", rep.execs);
    out.add_count("traces_validated_against_impl", rep.execs);
    out.add_count("transitions", rep.transitions);
    for mut x in rep.agg.vios.into_vec() {
        if x.rule == "C16.assigned-capacity-lost" {
            x.rule = "C17.cancelled-stream-keeps-capacity".into();
            vios.add(x);
        }
    }
}

pub fn run(ctx: &Ctx, prop: &'static str) -> Outcome {
    let mut out = Outcome::default();
    let quick = ctx.tier.is_quick();
    let ms = models(quick);
    let budget = ctx.tier.budget_s();
    let mut reps = vec![];
    for (i, m) in ms.iter().enumerate() {
        let deadline = ctx.elapsed() + (budget - ctx.elapsed()) / (ms.len() - i) as f64;
        // quick: explicit, machine-independent depths (C16: 4; as C02's second half: 3)
        let qd = if prop == "C16" { 4 } else { 3 };
        reps.push(search(ctx, m, prop, if quick { qd } else { 10 }, deadline, true));
    }
    let named: Vec<(&str, &X2Report)> = ms.iter().map(|m| m.name).zip(reps.iter()).collect();
    fill_outcome(&mut out, &named);
    out.set("exhaustive", json!(false));
    let mut vs = VioSet::default();
    for r in reps {
        vs.merge(r.agg.vios);
    }
    out.violations = vs.into_vec();
    out.add_sample(json!({"harness": "x2.sender-default-q", "depth": 3, "choices": [1, 30, 5], "note": "choice k>0 = k-th enabled event of the alphabet; 0 = stop and run the epilogue"}));
    out.set("alphabet", json!(ms[0].events.iter().map(|e| format!("{:?}", e)).collect::<Vec<_>>()));
    out.guard_nonzero("data_frames", out.coverage.get("mechanism_counters").and_then(|m| m.get("data_frames")).and_then(|v| v.as_u64()).unwrap_or(0));
    out
}

pub fn replay(v: &serde_json::Value, prop: &'static str) -> Option<bool> {
    let h = v["harness"].as_str().unwrap_or("");
    for quick in [true, false] {
        for m in models(quick) {
            if h == format!("x2.{}", m.name) {
                return Some(replay_model(&m, prop, v));
            }
        }
    }
    None
}
