//! C01 — end-to-end message fidelity under any fragmentation and schedule (T1, X1).
//! Also hosts the shared T1 harness used by several other properties (the oracle is a parameter).

use crate::common::*;
use crate::explore::*;
use crate::monitor::*;
use crate::scen::*;
use crate::sim::*;
use h2wire::frame::Parsed;
use serde_json::{json, Value};
use std::collections::BTreeMap;

// ---------------------------------------------------------------------------------------------
// normalised per-stream, per-direction sequences

#[derive(Clone, Debug, PartialEq, Eq)]
pub enum Item {
    Head(HeadRec),
    Interim(HeadRec),
    PushReq(HeadRec),
    Data(Vec<u8>),
    Trailers(Vec<(String, Vec<u8>)>),
    End,
}

fn canon_fields(f: &[(String, Vec<u8>)]) -> Vec<(String, Vec<u8>)> {
    // HeaderMap equality: per name the ordered list of values; order between different names is not significant
    let mut m: BTreeMap<String, Vec<Vec<u8>>> = BTreeMap::new();
    for (n, v) in f {
        m.entry(n.clone()).or_default().push(v.clone());
    }
    let mut out = vec![];
    for (n, vs) in m {
        for v in vs {
            out.push((n.clone(), v));
        }
    }
    out
}

fn canon_head(h: &HeadRec) -> HeadRec {
    HeadRec { method: h.method.clone(), uri: h.uri.clone(), status: h.status, fields: canon_fields(&h.fields) }
}

pub fn sequence(log: &[LogRec], side: Side, k: usize, dir: &Dir, submitted: bool) -> Vec<Item> {
    let mut out: Vec<Item> = vec![];
    for r in log.iter().filter(|r| r.side == side && r.k == k && &r.dir == dir && r.submitted == submitted) {
        match &r.ev {
            Ev::Head(h) => out.push(Item::Head(canon_head(h))),
            Ev::Interim(h) => out.push(Item::Interim(canon_head(h))),
            Ev::PushReq(h) => out.push(Item::PushReq(canon_head(h))),
            Ev::Data(d) => {
                if d.is_empty() {
                    continue;
                }
                if let Some(Item::Data(prev)) = out.last_mut() {
                    prev.extend_from_slice(d);
                } else {
                    out.push(Item::Data(d.clone()));
                }
            }
            Ev::Trailers(t) => out.push(Item::Trailers(canon_fields(t))),
            Ev::End => out.push(Item::End),
            _ => {}
        }
    }
    out
}

fn item_name(i: &Item) -> String {
    match i {
        Item::Head(h) => format!("head(status={} {} {} fields={})", h.status, h.method, h.uri, h.fields.len()),
        Item::Interim(h) => format!("interim({})", h.status),
        Item::PushReq(h) => format!("push-request({})", h.uri),
        Item::Data(d) => format!("data({} bytes)", d.len()),
        Item::Trailers(_) => "trailers".into(),
        Item::End => "end".into(),
    }
}

/// `r` must be a prefix of `s` (data compared as byte prefix). Returns a description of the first difference.
pub fn prefix_diff(s: &[Item], r: &[Item]) -> Option<String> {
    for (i, ri) in r.iter().enumerate() {
        let Some(si) = s.get(i) else {
            return Some(format!("received {} that was never submitted (position {})", item_name(ri), i));
        };
        match (si, ri) {
            (Item::Data(a), Item::Data(b)) => {
                if b.len() > a.len() {
                    return Some(format!("received {} data bytes, only {} were submitted", b.len(), a.len()));
                }
                if let Some(p) = (0..b.len()).find(|&p| a[p] != b[p]) {
                    return Some(format!("data differs at offset {}: submitted {:#04x}, received {:#04x}", p, a[p], b[p]));
                }
                if b.len() < a.len() && i + 1 < r.len() {
                    return Some(format!("only {} of {} data bytes delivered before {}", b.len(), a.len(), item_name(&r[i + 1])));
                }
            }
            (a, b) if a == b => {}
            (a, b) => return Some(format!("position {}: submitted {}, received {}", i, item_name(a), item_name(b))),
        }
    }
    None
}

pub fn is_complete(s: &[Item], r: &[Item]) -> bool {
    s == r
}

// ---------------------------------------------------------------------------------------------
// the oracle

pub struct Verdicts {
    pub vios: Vec<(String, String, String)>, // rule, signature, what
    pub complete_streams: usize,
    pub incomplete_streams: usize,
}

pub fn pairs(sc: &Scenario) -> Vec<(usize, Dir, Side, Side)> {
    let mut v = vec![];
    for (k, s) in sc.streams.iter().enumerate() {
        v.push((k, Dir::Req, Side::Client, Side::Server));
        v.push((k, Dir::Resp, Side::Server, Side::Client));
        if s.push.is_some() {
            v.push((k, Dir::PushResp, Side::Server, Side::Client));
        }
    }
    v
}

/// which messages must have arrived completely at quiescence
#[derive(Clone, Copy, PartialEq, Debug)]
pub enum Expect {
    /// every message of the scenario
    All,
    /// what the scenario's own script implies on a fault-free transport: both messages of every stream that nobody
    /// cancels (a neighbour's reset does not concern it), and the response of an early-responding server
    PerSpec,
    /// nothing (endings, faults)
    Nothing,
}

impl From<bool> for Expect {
    fn from(b: bool) -> Expect {
        if b {
            Expect::All
        } else {
            Expect::Nothing
        }
    }
}

pub fn check_fidelity(sc: &Scenario, log: &[LogRec], mon: &WireMon, quiescent: bool, expect: impl Into<Expect>) -> Verdicts {
    let expect: Expect = expect.into();
    let mut out = Verdicts { vios: vec![], complete_streams: 0, incomplete_streams: 0 };
    for (k, dir, from, to) in pairs(sc) {
        let expect_complete = match expect {
            Expect::All => true,
            Expect::Nothing => false,
            Expect::PerSpec => match sc.streams[k].cancel {
                Cancel::None => true,
                Cancel::ServerEarlyResponse => dir == Dir::Resp,
                _ => false,
            },
        };
        let s = sequence(log, from, k, &dir, true);
        let r = sequence(log, to, k, &dir, false);
        let tagd = format!("{:?}", dir);
        if let Some(d) = prefix_diff(&s, &r) {
            out.vios.push(("C01.fidelity".into(), format!("{}:{}", tagd, d.split(':').next().unwrap_or("").split('(').next().unwrap_or("").trim()), format!("stream #{} {:?}: {}", k, dir, d)));
            continue;
        }
        let r_end = r.last() == Some(&Item::End);
        let s_end = s.last() == Some(&Item::End);
        if r_end && !is_complete(&s, &r) {
            out.vios.push(("C01.clean-end-too-early".into(), tagd.clone(), format!("stream #{} {:?}: receiver saw a clean end after {} of {} items", k, dir, r.len(), s.len())));
            continue;
        }
        if r_end && !s_end {
            out.vios.push(("C01.clean-end-without-eos".into(), tagd.clone(), format!("stream #{} {:?}: clean end reported but END_STREAM was never submitted", k, dir)));
        }
        // is_end_stream() samples
        let recs: Vec<&LogRec> = log.iter().filter(|x| x.side == to && x.k == k && x.dir == dir && !x.submitted).collect();
        for (i, x) in recs.iter().enumerate() {
            if let Ev::IsEos(true, got) = x.ev {
                if recs[i + 1..].iter().any(|y| matches!(y.ev, Ev::Data(ref d) if !d.is_empty()) || matches!(y.ev, Ev::Trailers(_))) {
                    out.vios.push(("C01.is-end-stream-early".into(), tagd.clone(), format!("stream #{} {:?}: is_end_stream() was true after {} bytes although more content followed", k, dir, got)));
                    break;
                }
            }
        }
        // (not for a stream that the receiving application has itself reset meanwhile: what is_end_stream() says about a
        // stream one has reset is not part of the property; the buffered, complete message is still delivered)
        let receiver_reset_it = log.iter().any(|x| x.side == to && x.k == k && x.submitted && matches!(x.ev, Ev::Reset(_)));
        if r_end && !receiver_reset_it {
            if let Some(x) = recs.iter().rev().find(|x| matches!(x.ev, Ev::IsEos(..))) {
                if let Ev::IsEos(false, _) = x.ev {
                    out.vios.push(("C01.is-end-stream-late".into(), tagd.clone(), format!("stream #{} {:?}: is_end_stream() false after the clean end", k, dir)));
                }
            }
        }
        if is_complete(&s, &r) && s_end {
            out.complete_streams += 1;
        } else {
            out.incomplete_streams += 1;
            if quiescent && expect_complete {
                let missing = if r.len() < s.len() { item_name(&s[r.len().saturating_sub(if matches!(r.last(), Some(Item::Data(_))) { 1 } else { 0 })]) } else { "end".to_string() };
                let errs: Vec<String> = log.iter().filter(|x| x.k == k && matches!(x.ev, Ev::Err(_))).map(|x| format!("{:?}", x.ev)).collect();
                out.vios.push((
                    "C01.incomplete".into(),
                    format!("{}:{}", tagd, missing.split('(').next().unwrap_or("")),
                    format!("stream #{} {:?}: at quiescence only {} of {} submitted items were delivered (next missing: {}); errors seen: {:?}", k, dir, r.len(), s.len(), missing, errs),
                ));
            }
        }
    }
    // same stream: ids agree on both sides
    for k in 0..sc.streams.len() {
        let id = |side: Side, dir: Dir, sub: bool| log.iter().find(|x| x.side == side && x.k == k && x.dir == dir && x.submitted == sub && matches!(x.ev, Ev::StreamId(_))).map(|x| x.ev.clone());
        if let (Some(a), Some(b)) = (id(Side::Client, Dir::Req, true), id(Side::Server, Dir::Req, false)) {
            if a != b {
                out.vios.push(("C01.stream-identity".into(), "req".into(), format!("stream #{}: client used {:?}, server saw {:?}", k, a, b)));
            }
        }
        if let (Some(a), Some(b)) = (id(Side::Server, Dir::PushResp, true), id(Side::Client, Dir::PushResp, false)) {
            if a != b {
                out.vios.push(("C01.stream-identity".into(), "push".into(), format!("stream #{}: server promised {:?}, client saw {:?}", k, a, b)));
            }
        }
    }
    // wire level: header blocks decode with the reference decoder, frames well-formed
    for (side, d) in &mon.wire_defects {
        out.vios.push(("C01.wire".into(), d.split(|c: char| c.is_ascii_digit()).next().unwrap_or("").trim().to_string(), format!("{} output: {}", side.name(), d)));
    }
    // wire level: DATA payload per stream is a prefix of (or equal to) what was submitted on that stream
    for (k, dir, from, _to) in pairs(sc) {
        let sid = log.iter().find(|x| x.k == k && x.dir == dir && matches!(x.ev, Ev::StreamId(_)) && x.side == from).or_else(|| log.iter().find(|x| x.k == k && x.dir == dir && matches!(x.ev, Ev::StreamId(_))));
        let Some(LogRec { ev: Ev::StreamId(sid), .. }) = sid else { continue };
        let mut wire: Vec<u8> = vec![];
        for f in mon.frames_of(from) {
            if let Ok(Parsed::Data { sid: s, data, .. }) = &f.parsed {
                if s == sid {
                    wire.extend_from_slice(data);
                }
            }
        }
        let submitted: Vec<u8> = sequence(log, from, k, &dir, true).into_iter().filter_map(|i| if let Item::Data(d) = i { Some(d) } else { None }).flatten().collect();
        if wire.len() > submitted.len() || wire[..] != submitted[..wire.len()] {
            out.vios.push(("C01.wire-data".into(), format!("{:?}", dir), format!("stream #{} {:?}: DATA octets on the wire are not a prefix of the submitted body ({} on wire, {} submitted)", k, dir, wire.len(), submitted.len())));
        }
    }
    out
}

// ---------------------------------------------------------------------------------------------
// harness

pub fn full_policy() -> [IoPolicy; 2] {
    let p = IoPolicy { short_writes: true, short_reads: true, pending: true, ..IoPolicy::default() };
    [p.clone(), p]
}

pub struct T1Harness<'a> {
    pub prop: &'static str,
    pub sc: &'a Scenario,
    pub sc_index: usize,
    pub pol: [IoPolicy; 2],
    pub judge: fn(&T1Harness, &mut T1, RunEnd) -> Vec<(String, String, String)>,
}

pub fn obs_hash(t: &T1) -> u64 {
    let log = t.log.snapshot();
    let mut h = fnv64(format!("{:?}", log.iter().filter(|r| !matches!(r.ev, Ev::IsEos(..) | Ev::Capacity(_))).map(|r| (r.side, r.k, &r.dir, r.submitted, &r.ev)).collect::<Vec<_>>()).as_bytes());
    for f in &t.mon.frames {
        h = h.wrapping_mul(0x100000001b3) ^ fnv64(&f.raw.encode()) ^ (f.sender.idx() as u64);
    }
    h
}

impl<'a> T1Harness<'a> {
    pub fn execute(&self, prefix: &[u32]) -> (T1, RunEnd) {
        let mut t = T1::new(self.sc, prefix.to_vec(), self.pol.clone());
        let end = t.run(horizon_for(self.sc));
        (t, end)
    }
    pub fn replay_json(&self, choices: &[u32]) -> Value {
        json!({"harness": format!("{}.t1", self.prop.to_lowercase()), "scenario": self.sc_index, "scenario_name": self.sc.name, "choices": choices})
    }
}

pub fn mech_counters(t: &T1) -> Vec<(&'static str, u64)> {
    let s = t.sh.lock().unwrap();
    let mut data_frames = 0u64;
    let mut cont = 0u64;
    let mut hdr_blocks = 0u64;
    let mut non_final_data_with_more = 0u64;
    for f in &t.mon.frames {
        match &f.parsed {
            Ok(Parsed::Data { .. }) => data_frames += 1,
            Ok(Parsed::Continuation { .. }) => cont += 1,
            _ => {}
        }
        if f.block.is_some() {
            hdr_blocks += 1;
        }
    }
    // DATA frames beyond one per submitted chunk = splits (by window, frame size or partial write reclaim)
    let submitted_chunks = t.log.snapshot().iter().filter(|r| r.submitted && matches!(r.ev, Ev::Data(ref d) if !d.is_empty())).count() as u64;
    if data_frames > submitted_chunks {
        non_final_data_with_more = data_frames - submitted_chunks;
    }
    let injected = s.iolog.iter().filter(|e| matches!(e.kind, crate::sim::IoEvKind::Error(_))).count() as u64;
    let dropped = t.log.snapshot().iter().filter(|r| matches!(&r.ev, Ev::Err(x) if x.contains("dropped by the application"))).count() as u64;
    vec![
        ("transport_faults_injected", injected),
        ("connections_dropped_by_app", dropped),
        ("partial_writes", s.partial_writes),
        ("partial_reads", s.partial_reads),
        ("spurious_pendings", s.pendings),
        ("data_frames", data_frames),
        ("data_frames_from_splitting", non_final_data_with_more),
        ("continuation_frames", cont),
        ("header_blocks", hdr_blocks),
    ]
}

impl<'a> Harness for T1Harness<'a> {
    fn run(&self, prefix: &[u32], _seen: &Seen) -> ExecResult {
        let (mut t, end) = self.execute(prefix);
        let mut vs = (self.judge)(self, &mut t, end);
        let (trace, diverged, panics) = {
            let s = t.sh.lock().unwrap();
            (s.chooser.trace.clone(), s.chooser.diverged.clone(), s.panics.clone())
        };
        for p in panics {
            // `Store::drop`'s debug assertion exists only with the `unstable` feature and fires when handles outlive the
            // connection object (a stream parked for a WINDOW_UPDATE nobody will send); not part of any property (DESIGN.md 8)
            if p.contains("self.slab.is_empty()") {
                continue;
            }
            vs.push((format!("{}.panic", self.prop), p.split(':').nth(1).unwrap_or("").trim().chars().take(60).collect(), format!("panic: {}", p)));
        }
        let inv = h2::verif::lock_order::take_local_inversions();
        if inv > 0 {
            vs.push((format!("{}.lock-order", self.prop), "inversion".into(), format!("{} acquisition(s) of h2's internal mutexes out of order (stream state before send buffer, neither twice): two threads doing this can deadlock", inv)));
        }
        let choices: Vec<u32> = trace.iter().map(|p| p.c).collect();
        let violations = vs.into_iter().map(|(rule, signature, what)| Violation { rule, signature, what, replay: self.replay_json(&choices) }).collect();
        let counters = mech_counters(&t);
        let transitions = t.exec.steps + t.sh.lock().unwrap().transport_calls;
        let nontrivial = counters.iter().any(|(k, v)| (*k == "partial_writes" || *k == "partial_reads" || *k == "spurious_pendings") && *v > 0) || choices.iter().any(|&c| c != 0);
        let r = ExecResult { trace, violations, obs_hash: obs_hash(&t), counters, diverged, transitions, nontrivial };
        t.exec.drop_all();
        r
    }
}

fn judge_c01(h: &T1Harness, t: &mut T1, end: RunEnd) -> Vec<(String, String, String)> {
    let log = t.log.snapshot();
    let mut v = check_fidelity(h.sc, &log, &t.mon, end == RunEnd::Quiescent, Expect::PerSpec).vios;
    if end == RunEnd::Horizon {
        v.push(("C01.no-quiescence".into(), "horizon".into(), format!("execution did not quiesce within {} steps", horizon_for(h.sc))));
    }
    v
}

// ---------------------------------------------------------------------------------------------
// scenario catalogue

pub fn scenarios(quick: bool) -> Vec<Scenario> {
    let mut v = vec![];
    let mk = |name: &str, cfg: Cfg, streams: Vec<StreamSpec>| Scenario { name: name.to_string(), cfg, streams };
    let m = |chunks: &[usize]| MsgSpec::simple(chunks);
    // 1. smallest: GET, tiny response body
    v.push(mk("get-small", Cfg::default(), vec![StreamSpec::new(m(&[]), m(&[5]))]));
    // locally configured HPACK table sizes (larger than the default, and none): the peer's encoder follows the advertised
    // size with a size update that the local decoder must expect; two streams so that the dynamic table is used
    for (name, size) in [("header-table-8192", 8192u32), ("header-table-0", 0)] {
        v.push(mk(
            name,
            Cfg { c_header_table_size: Some(size), s_header_table_size: Some(size), ..Cfg::default() },
            vec![StreamSpec::new(MsgSpec { head: HeadKind::Repeated, ..m(&[]) }, MsgSpec { head: HeadKind::Repeated, ..m(&[3]) }), StreamSpec::new(MsgSpec { head: HeadKind::Repeated, ..m(&[2]) }, MsgSpec { head: HeadKind::Repeated, ..m(&[2]) })],
        ));
    }
    // 2. POST with body both ways, trailers both ways
    v.push(mk(
        "post-trailers",
        Cfg::default(),
        vec![StreamSpec::new(MsgSpec { end: EndKind::Trailers, ..m(&[3, 4]) }, MsgSpec { end: EndKind::Trailers, ..m(&[7]) })],
    ));
    // 3. window of 7: DATA split by the stream window, END_STREAM on the last piece
    v.push(mk(
        "window7",
        Cfg { c_stream_window: Some(7), s_stream_window: Some(7), ..Cfg::default() },
        vec![StreamSpec::new(m(&[20]), m(&[16, 1]))],
    ));
    // 4. window 1, capacity API, empty DATA as end
    v.push(mk(
        "window1-capacity",
        Cfg { c_stream_window: Some(1), s_stream_window: Some(1), ..Cfg::default() },
        vec![StreamSpec::new(MsgSpec { use_capacity: true, end: EndKind::EmptyData, ..m(&[3]) }, MsgSpec { use_capacity: true, ..m(&[2]) })],
    ));
    // 5. two concurrent streams, repeated header names, interim responses
    v.push(mk(
        "two-streams-interim",
        Cfg::default(),
        vec![
            StreamSpec::new(MsgSpec { head: HeadKind::Repeated, ..m(&[10]) }, MsgSpec { interim: 2, head: HeadKind::Repeated, ..m(&[10]) }),
            StreamSpec::new(m(&[]), MsgSpec { interim: 1, ..m(&[1]) }),
        ],
    ));
    // 6. 20 KB header: CONTINUATION both ways
    v.push(mk(
        "big-headers",
        Cfg::default(),
        vec![StreamSpec::new(MsgSpec { head: HeadKind::Big20k, ..m(&[]) }, MsgSpec { head: HeadKind::Big20k, ..m(&[3]) })],
    ));
    // 7. body larger than a frame and larger than the send buffer
    v.push(mk(
        "body-40k",
        Cfg { c_max_send_buffer: Some(1024), s_max_send_buffer: Some(16), ..Cfg::default() },
        vec![StreamSpec::new(MsgSpec { use_capacity: true, ..m(&[16385, 1]) }, MsgSpec { use_capacity: true, ..m(&[300]) }), StreamSpec::new(m(&[]), m(&[40000]))],
    ));
    // 8. push
    v.push(mk(
        "push",
        Cfg::default(),
        vec![StreamSpec { push: Some(m(&[6])), ..StreamSpec::new(m(&[]), m(&[2])) }],
    ));
    // 9. late readers with small connection window, three streams
    v.push(mk(
        "three-streams-late",
        Cfg { s_conn_window: Some(65535), c_stream_window: Some(16384), ..Cfg::default() },
        vec![
            StreamSpec { c_recv: RecvMode::Late, s_recv: RecvMode::Late, ..StreamSpec::new(m(&[255, 256]), m(&[1024])) },
            StreamSpec { c_recv: RecvMode::Late, ..StreamSpec::new(m(&[1]), m(&[257, 1023])) },
            StreamSpec::new(m(&[]), MsgSpec { end: EndKind::Trailers, ..m(&[1025]) }),
        ],
    ));
    // 10. vectored transport (chain threshold 256 -> 1024 differs)
    v.push(mk("vectored-300", Cfg { vectored: true, ..Cfg::default() }, vec![StreamSpec::new(m(&[300, 1100]), m(&[255, 257]))]));
    // 11. client reset mid-body: receiver gets a prefix and no clean end
    v.push(mk(
        "client-reset",
        Cfg::default(),
        vec![StreamSpec { cancel: Cancel::ClientReset { after_chunks: 1, code: 8 }, ..StreamSpec::new(m(&[5, 5]), m(&[4])) }, StreamSpec::new(m(&[2]), m(&[2]))],
    ));
    // 12. server reset mid-response
    v.push(mk(
        "server-reset",
        Cfg::default(),
        vec![StreamSpec { cancel: Cancel::ServerReset { after_chunks: 1, code: 2 }, ..StreamSpec::new(m(&[]), m(&[5, 5])) }, StreamSpec::new(m(&[2]), m(&[2]))],
    ));
    // 13. max frame size 16385 on both sides with a 16385+1 body
    v.push(mk(
        "frame16385",
        Cfg { c_max_frame: Some(16385), s_max_frame: Some(16385), ..Cfg::default() },
        vec![StreamSpec::new(m(&[16386]), m(&[16385]))],
    ));
    // 14. concurrency limit 1 with two requests: second parks in pending_open, slot recycled
    v.push(mk(
        "max-concurrent-1",
        Cfg { s_max_concurrent: Some(1), c_initial_max_send_streams: Some(1), ..Cfg::default() },
        vec![StreamSpec::new(m(&[3]), m(&[3])), StreamSpec::new(m(&[4]), m(&[4]))],
    ));
    // 15./16. one stream is reset (by either application) while another stream's large DATA frame sits half written in the
    // codec with a remainder still to come: the bystander's body must arrive complete
    v.push(mk(
        "reset-while-other-stream-in-codec",
        Cfg::default(),
        vec![StreamSpec { cancel: Cancel::ClientReset { after_chunks: 1, code: 8 }, ..StreamSpec::new(m(&[5, 5]), m(&[4])) }, StreamSpec::new(m(&[20000]), m(&[2]))],
    ));
    v.push(mk(
        "server-reset-while-other-stream-in-codec",
        Cfg { vectored: true, ..Cfg::default() },
        vec![StreamSpec { cancel: Cancel::ServerReset { after_chunks: 1, code: 2 }, ..StreamSpec::new(m(&[3]), m(&[5, 5])) }, StreamSpec::new(m(&[2]), m(&[20000]))],
    ));
    // the same with a cheap body: a 2000-octet window cuts a 3000-octet chunk into a chained frame and a remainder
    v.push(mk(
        "reset-while-split-frame-in-codec",
        Cfg { s_stream_window: Some(2000), ..Cfg::default() },
        vec![StreamSpec { cancel: Cancel::ClientReset { after_chunks: 1, code: 8 }, ..StreamSpec::new(m(&[5, 5]), m(&[4])) }, StreamSpec::new(m(&[3000]), m(&[2]))],
    ));
    if !quick {
        v.push(mk(
            "big-headers-40k-window7",
            Cfg { c_stream_window: Some(7), ..Cfg::default() },
            vec![StreamSpec::new(MsgSpec { head: HeadKind::Big40k, ..m(&[9]) }, MsgSpec { head: HeadKind::Big40k, end: EndKind::Trailers, ..m(&[9]) })],
        ));
        v.push(mk(
            "push-window7",
            Cfg { c_stream_window: Some(7), ..Cfg::default() },
            vec![StreamSpec { push: Some(MsgSpec { end: EndKind::Trailers, ..m(&[10]) }), ..StreamSpec::new(m(&[3]), m(&[8])) }],
        ));
    }
    v
}

/// executions a deviation level may have to be started in the quick tier (per scenario)
pub fn quick_level_cap(prop: &str) -> u64 {
    let scale: f64 = std::env::var("VERIF_WORK_SCALE").ok().and_then(|s| s.parse().ok()).unwrap_or(1.0);
    let base = match prop {
        "C01" => 170_000.0,
        "C06" => 140_000.0,
        "C02" => 180_000.0,
        "C07" => 400_000.0,
        "C19" => 70_000.0,
        _ => 120_000.0,
    };
    (base * scale) as u64
}

/// (check, scenario) pairs exempt from the quick work cap
pub const QUICK_FULL_BOUND: &[(&str, &str)] = &[
    // seed C04a: RST_STREAM of a parked request while another stream's 30 KB header block is half written (2 deviations)
    ("C04", "reset-behind-big-headers"),
];

/// relative cost of one execution of a scenario, from its specification alone: the octets it moves (large bodies and
/// header blocks make an execution many times dearer than the number of its choice points suggests)
pub fn scenario_weight(sc: &Scenario) -> f64 {
    let msg = |m: &MsgSpec| -> usize {
        let head = match m.head {
            HeadKind::Tiny => 50,
            HeadKind::Repeated => 300,
            HeadKind::Big20k => 30_000,
            HeadKind::Big40k => 60_000,
        };
        head + m.chunks.iter().sum::<usize>() + 60 * m.interim as usize
    };
    let octets: usize = sc.streams.iter().map(|s| msg(&s.req) + msg(&s.resp) + s.push.as_ref().map(|p| msg(p)).unwrap_or(0)).sum();
    1.0 + octets as f64 / 4000.0
}

pub fn run_t1_property(
    ctx: &Ctx,
    prop: &'static str,
    scs: &[Scenario],
    judge: fn(&T1Harness, &mut T1, RunEnd) -> Vec<(String, String, String)>,
    max_dev: u32,
    pol: [IoPolicy; 2],
    guards: &[&'static str],
) -> Outcome {
    let mut out = Outcome::default();
    let mut total = Agg::default();
    let mut per = vec![];
    let mut all_complete = true;
    let n = scs.len();
    // pass A: every scenario up to min(1, max_dev) deviations; pass B: raise scenarios to max_dev, cheapest first, while the
    // budget allows finishing the level (the explorer itself refuses to start a level it cannot finish).
    let mut reports: Vec<Option<ExploreReport>> = (0..n).map(|_| None).collect();
    // determinism self-check: the default execution of every scenario twice - same observations, same choice points
    for (i, sc) in scs.iter().enumerate() {
        let h = T1Harness { prop, sc, sc_index: i, pol: pol.clone(), judge };
        let a = h.run(&[], &Seen::new(false));
        let b = h.run(&[], &Seen::new(false));
        if a.obs_hash != b.obs_hash || a.trace.len() != b.trace.len() {
            out.machinery_errors.push(format!("scenario {} is not deterministic (two default executions differ)", sc.name));
        }
    }
    // quick tier: one work-bounded exploration per scenario (a level is started iff it has at most `cap` executions - known
    // exactly beforehand), no time-dependent decisions
    let quick_cap: Option<u64> = if ctx.tier.is_quick() { Some(quick_level_cap(prop)) } else { None };
    if let Some(cap) = quick_cap {
        for (i, sc) in scs.iter().enumerate() {
            let left = (ctx.hard_cap_s() - ctx.elapsed()).max(1.0);
            let deadline = std::time::Instant::now() + std::time::Duration::from_secs_f64(left);
            let h = T1Harness { prop, sc, sc_index: i, pol: pol.clone(), judge };
            // a few expensive scenarios are explored to the full bound all the same: a seeded change is known to need it
            let cap_i = if QUICK_FULL_BOUND.contains(&(prop, sc.name.as_str())) { u64::MAX } else { (cap as f64 / scenario_weight(sc)) as u64 };
            reports[i] = Some(explore(&h, &ExploreCfg::work_bounded(max_dev, deadline, false, cap_i)));
        }
    }
    let total_budget = ctx.remaining().max(1.0);
    for (i, sc) in scs.iter().enumerate() {
        if quick_cap.is_some() {
            break;
        }
        let share = (total_budget * 0.35) / n as f64;
        let deadline = std::time::Instant::now() + std::time::Duration::from_secs_f64(share.max(0.5));
        let h = T1Harness { prop, sc, sc_index: i, pol: pol.clone(), judge };
        reports[i] = Some(explore(&h, &ExploreCfg::new(max_dev.min(1), deadline, false)));
    }
    if max_dev > 1 && quick_cap.is_none() {
        let mut order: Vec<usize> = (0..n).collect();
        order.sort_by_key(|&i| {
            let r = reports[i].as_ref().unwrap();
            let l1 = r.execs_per_level.get(1).copied().unwrap_or(0) as f64;
            (l1 * l1 * (r.wall_s / r.agg.execs.max(1) as f64) * 1e6) as u64
        });
        for (pos, &i) in order.iter().enumerate() {
            let left = ctx.remaining();
            if left < 1.0 {
                break;
            }
            if reports[i].as_ref().unwrap().completed_level != Some(1) {
                continue;
            }
            let share = left / (n - pos) as f64 * 1.5;
            let deadline = std::time::Instant::now() + std::time::Duration::from_secs_f64(share.min(left));
            let h = T1Harness { prop, sc: &scs[i], sc_index: i, pol: pol.clone(), judge };
            let rep = explore(&h, &ExploreCfg::new(max_dev, deadline, false));
            // keep the deeper report only if it completed at least what we had (a partial deeper level is reported as partial)
            reports[i] = Some(rep);
        }
    }
    // pass C: whatever budget is left goes, cheapest first, to the scenarios that have not reached the bound yet - each
    // may use all that remains (the explorer still refuses a level it cannot finish)
    if max_dev > 1 && quick_cap.is_none() {
        let mut order: Vec<usize> = (0..n).filter(|&i| reports[i].as_ref().map(|r| r.completed_level.unwrap_or(0) < max_dev && r.completed_level.is_some()).unwrap_or(false)).collect();
        order.sort_by_key(|&i| {
            let r = reports[i].as_ref().unwrap();
            let l = r.execs_per_level.last().copied().unwrap_or(0) as f64;
            (l * l * (r.wall_s / r.agg.execs.max(1) as f64) * 1e6) as u64
        });
        for i in order {
            let left = ctx.remaining();
            if left < 2.0 {
                break;
            }
            let deadline = std::time::Instant::now() + std::time::Duration::from_secs_f64(left);
            let h = T1Harness { prop, sc: &scs[i], sc_index: i, pol: pol.clone(), judge };
            let rep = explore(&h, &ExploreCfg::new(max_dev, deadline, false));
            if rep.completed_level >= reports[i].as_ref().unwrap().completed_level {
                reports[i] = Some(rep);
            }
        }
    }
    for (i, sc) in scs.iter().enumerate() {
        let rep = reports[i].take().unwrap();
        let h = T1Harness { prop, sc, sc_index: i, pol: pol.clone(), judge };
        eprintln!(
            "[{}] scenario {:<24} levels={:?} completed={:?} partial={:?} execs={} distinct_outcomes={} max_points={} vios={} {:.1}s",
            prop,
            sc.name,
            rep.execs_per_level,
            rep.completed_level,
            rep.partial_level,
            rep.agg.execs,
            rep.agg.obs.len(),
            rep.agg.max_trace,
            rep.agg.vios.map.len(),
            rep.wall_s
        );
        if rep.partial_level.is_some() || rep.completed_level != Some(max_dev) {
            all_complete = false;
        }
        per.push(json!({"scenario": sc.name, "execs_per_deviation_level": rep.execs_per_level, "completed_deviation_bound": rep.completed_level, "partial_level": rep.partial_level,
            "distinct_outcomes": rep.agg.obs.len(), "max_choice_points": rep.agg.max_trace, "counters": rep.agg.counters}));
        if !rep.agg.diverged.is_empty() {
            out.machinery_errors.push(format!("replay diverged in scenario {}: {:?}", sc.name, rep.agg.diverged));
        }
        if i == 0 {
            for s in [&rep.agg.sample_short, &rep.agg.sample_long, &rep.agg.sample_dev].into_iter().flatten() {
                out.add_sample(h.replay_json(s));
            }
        }
        total.merge(rep.agg);
    }
    out.harness("t1-scenarios", json!(per));
    out.set("evaluations", json!(total.execs));
    out.set("states", json!(total.obs.len()));
    out.set("transitions", json!(total.transitions));
    out.set("traces_validated_against_impl", json!(total.execs));
    out.set("distinct_nontrivial", json!(total.nontrivial_obs.len()));
    out.set("exhaustive", json!(all_complete));
    out.set("mechanism_counters", json!(total.counters));
    for g in guards {
        out.guard_nonzero(g, total.counters.get(g).copied().unwrap_or(0));
    }
    out.violations = total.vios.into_vec();
    out
}

/// The property's judge over the systematically generated scenarios (`gen.rs`: every pair - thorough: every triple - of
/// scenario dimension values), deviation bound 1 (quick) / 2 (thorough) as far as the remaining budget allows.
pub fn generated_pass(ctx: &Ctx, prop: &'static str, judge: fn(&T1Harness, &mut T1, RunEnd) -> Vec<(String, String, String)>, pol: [IoPolicy; 2]) -> Outcome {
    let quick = ctx.tier.is_quick();
    let t = if quick { 2 } else { 3 };
    let mut scs = crate::gen::generated(t);
    scs.extend(crate::gen::boundary_scenarios(quick));
    let mut o = run_t1_property(ctx, prop, &scs, judge, if quick { 1 } else { 2 }, pol, &[]);
    if let Some(h) = o.coverage.get_mut("harnesses").and_then(|v| v.as_object_mut()) {
        if let Some(x) = h.remove("t1-scenarios") {
            h.insert(format!("t1-generated-scenarios ({}-wise covering array over {:?})", t, crate::gen::dims_description()), x);
        }
    }
    o.coverage.remove("mechanism_counters");
    o.coverage.remove("samples");
    o
}

pub fn run(ctx: &Ctx) -> Outcome {
    let mut out = with_budget_scale(0.85, || run_main(ctx));
    out.absorb(generated_pass(ctx, "C01", judge_c01, full_policy()));
    out
}

fn run_main(ctx: &Ctx) -> Outcome {
    let scs = scenarios(ctx.tier.is_quick());
    // determinism self-check: one representative trace per scenario, twice
    let mut out_err = vec![];
    for (i, sc) in scs.iter().enumerate() {
        let h = T1Harness { prop: "C01", sc, sc_index: i, pol: full_policy(), judge: judge_c01 };
        let a = h.run(&[], &Seen::new(false));
        let b = h.run(&[], &Seen::new(false));
        if a.obs_hash != b.obs_hash || a.trace.len() != b.trace.len() {
            out_err.push(format!("scenario {} is not deterministic", sc.name));
        }
    }
    let max_dev = if ctx.tier.is_quick() { 2 } else { 3 };
    let mut out = run_t1_property(ctx, "C01", &scs, judge_c01, max_dev, full_policy(), &["partial_writes", "partial_reads", "continuation_frames", "data_frames_from_splitting"]);
    out.machinery_errors.extend(out_err);
    out.set("rule", json!("X1: for every scenario all executions with 0, 1, 2, ... deviations from the default schedule / default transport answers are enumerated on the real client and server (a deviation = another runnable task first, a short write or read at a structural offset, a spurious Pending); states = distinct observation hashes (API log + wire bytes); distinct_nontrivial = distinct outcomes among executions with at least one deviation or partial I/O"));
    out.assume("content alphabet: the scenario catalogue in c01.rs (header shapes, body sizes from the boundary set, window / frame-size / buffer configurations)");
    out.assume("executions with more deviations than the completed bound per scenario are not covered");
    out
}

pub fn replay(v: &Value, scs: &[Scenario], prop: &'static str, judge: fn(&T1Harness, &mut T1, RunEnd) -> Vec<(String, String, String)>, pol: [IoPolicy; 2]) -> bool {
    // generated scenarios are identified by their name, which spells the covering-array row
    if let Some(name) = v["scenario_name"].as_str() {
        if let Some(digits) = name.strip_prefix("gen-") {
            let row: Vec<usize> = digits.chars().filter_map(|c| c.to_digit(10).map(|d| d as usize)).collect();
            if row.len() == 13 && !scs.iter().any(|s| s.name == name) {
                let sc = crate::gen::scenario_of(&row);
                let mut v2 = v.clone();
                v2["scenario"] = json!(0);
                v2["scenario_name"] = json!("resolved");
                return replay(&v2, &[sc], prop, judge, pol);
            }
        }
    }
    if let Some(name) = v["scenario_name"].as_str() {
        if !scs.iter().any(|s| s.name == name) {
            if let Some(sc) = crate::gen::boundary_scenarios(false).into_iter().find(|s| s.name == name) {
                let mut v2 = v.clone();
                v2["scenario"] = json!(0);
                return replay(&v2, &[sc], prop, judge, pol);
            }
        }
    }
    let i = v["scenario"].as_u64().unwrap() as usize;
    let choices: Vec<u32> = v["choices"].as_array().unwrap().iter().map(|x| x.as_u64().unwrap() as u32).collect();
    let sc = &scs[i];
    println!("scenario {} = {:#?}", sc.name, sc);
    let h = T1Harness { prop, sc, sc_index: i, pol, judge };
    let (mut t, end) = h.execute(&choices);
    println!("--- run ended: {:?} after {} steps", end, t.exec.steps);
    println!("--- wire transcript\n{}", t.mon.transcript());
    println!("--- API log");
    for r in t.log.snapshot() {
        let ev = match &r.ev {
            Ev::Data(d) => format!("Data({} bytes)", d.len()),
            Ev::Head(h) => format!("Head(status={} {} {} {} fields)", h.status, h.method, h.uri, h.fields.len()),
            e => format!("{:?}", e).chars().take(120).collect(),
        };
        println!("  {:>6} #{} {:?} {} {}", r.side.name(), if r.k == usize::MAX { "-".to_string() } else { r.k.to_string() }, r.dir, if r.submitted { "submit" } else { "recv  " }, ev);
    }
    println!("--- tasks still pending: {:?}", t.exec.pending_tasks().iter().map(|&i| t.exec.tasks[i].name.clone()).collect::<Vec<_>>());
    let first_hash = obs_hash(&t);
    let vs = judge(&h, &mut t, end);
    let s = t.sh.lock().unwrap();
    if let Some(d) = &s.chooser.diverged {
        println!("REPLAY DIVERGED: {}", d);
    }
    for p in &s.panics {
        println!("PANIC: {}", p);
    }
    let np = s.panics.len();
    drop(s);
    for (rule, sig, what) in &vs {
        println!("RULE VIOLATED: {} [{}] {}", rule, sig, what);
    }
    // second run must observe the same
    let (t2, _) = h.execute(&choices);
    if obs_hash(&t2) != first_hash {
        println!("NONDETERMINISM: second replay observed something else");
    }
    !vs.is_empty() || np > 0
}

pub fn replay_c01(v: &Value) -> bool {
    // the scenario index refers to the catalogue of the tier that produced the file; the thorough catalogue is a superset
    replay(v, &scenarios(false), "C01", judge_c01, full_policy())
}
