//! T2 topology: one real h2 endpoint (the subject, either role) <-> a scripted peer that emits bytes built with
//! `h2wire` and whose behaviour is decided by the harness / explorer. Handles of the subject are driven directly
//! (synchronous `poll_*` calls with flag wakers) so that every operation is one event of an alphabet.

use crate::monitor::*;
use crate::scen::err_text;
use crate::sim::*;
use bytes::Bytes;
use h2::{client, server, RecvStream, SendStream};
use h2wire::frame as wf;
use h2wire::hpack as rh;
use http::{Request, Response};
use std::future::Future;
use std::panic::{catch_unwind, AssertUnwindSafe};
use std::pin::Pin;
use std::sync::Arc;
use std::task::{Context, Poll};

pub enum Conn {
    Client(client::Connection<SimIo, Bytes>),
    Server(server::Connection<SimIo, Bytes>),
    /// finished (result recorded) or poisoned by a panic
    Gone,
}

pub struct Accepted {
    pub sid: u32,
    pub req_head: crate::scen::HeadRec,
    pub body: Option<RecvStream>,
    pub respond: Option<server::SendResponse<Bytes>>,
    pub send: Option<SendStream<Bytes>>,
    pub flag: Arc<Flag>,
}

pub struct T2 {
    pub sh: Sh,
    pub mon: WireMon,
    /// which side the real endpoint plays
    pub role: Side,
    pub conn: Conn,
    pub conn_flag: Arc<Flag>,
    pub conn_result: Option<String>,
    /// Debug text of the error the connection future returned (carries GOAWAY debug data)
    pub conn_err_debug: Option<String>,
    pub send_request: Option<client::SendRequest<Bytes>>,
    pub accepted: Vec<Accepted>,
    pub panics: Vec<String>,
    pub conn_polls: u64,
    /// polls of the connection that were caused by a wake issued during its own previous poll with no transport activity
    pub self_wake_run: u64,
    pub max_self_wake_run: u64,
    /// the peer reads everything the subject writes as soon as it is written (drain after every drive)
    pub peer_reads: bool,
    /// subject's output parsed for the peer: index of the next unseen frame of the subject in mon.frames
    pub peer_seen: usize,
    pub events: u64,
    /// server subject: the application takes new requests (`poll_accept`); when false the connection is only driven
    /// (`poll_closed`) and requests pile up in h2's pending-accept queue
    pub accept_enabled: bool,
}

#[derive(Clone, Debug)]
pub struct T2Cfg {
    pub role: Side,
    pub peer_settings: Vec<(u16, u32)>,
    pub client: Option<client::Builder>,
    pub server: Option<server::Builder>,
    pub policy: IoPolicy,
}

thread_local! {
    /// set by a harness (on its own thread) before `T2::new`: the peer does *not* acknowledge the subject's initial SETTINGS
    /// during the handshake, so that the harness can act while the acknowledgement is still outstanding
    pub static NO_HANDSHAKE_ACK: std::cell::Cell<bool> = const { std::cell::Cell::new(false) };
}

pub fn guarded<T>(panics: &mut Vec<String>, what: &str, f: impl FnOnce() -> T) -> Option<T> {
    match catch_unwind(AssertUnwindSafe(f)) {
        Ok(v) => Some(v),
        Err(p) => {
            panics.push(format!("{}: {}", what, crate::c11::panic_text(&p)));
            None
        }
    }
}

/// Drop one handle. After a panic inside h2 its lock may be poisoned, and some destructors (`RecvStream::drop`) then
/// panic even while unwinding, which aborts the process: from the first recorded panic on, handles are leaked instead.
pub fn safe_drop<T>(panics: &mut Vec<String>, what: &str, x: T) {
    if !panics.is_empty() {
        std::mem::forget(x);
        return;
    }
    if let Err(p) = catch_unwind(AssertUnwindSafe(move || drop(x))) {
        panics.push(format!("drop({}): {}", what, crate::c11::panic_text(&p)));
    }
}

impl T2 {
    /// Build the subject, run the handshake to completion (peer SETTINGS exchanged and acknowledged both ways).
    pub fn new(cfg: &T2Cfg, prefix: Vec<u32>) -> T2 {
        let sh = new_shared(prefix);
        {
            let mut s = sh.lock().unwrap();
            s.policy[cfg.role.idx()] = cfg.policy.clone();
            // choices during the handshake are not explored
            s.chooser.recording = false;
        }
        let conn_flag = Flag::new(true);
        let mut t = T2 {
            sh: sh.clone(),
            mon: WireMon::new(),
            role: cfg.role,
            conn: Conn::Gone,
            conn_flag,
            conn_result: None,
            conn_err_debug: None,
            send_request: None,
            accepted: vec![],
            panics: vec![],
            conn_polls: 0,
            self_wake_run: 0,
            max_self_wake_run: 0,
            peer_reads: true,
            peer_seen: 0,
            events: 0,
            accept_enabled: true,
        };
        let w = waker_of(&t.conn_flag);
        let mut cx = Context::from_waker(&w);
        let io = SimIo { sh: sh.clone(), side: cfg.role };
        match cfg.role {
            Side::Client => {
                let b = cfg.client.clone().unwrap_or_default();
                let mut hs = Box::pin(b.handshake::<_, Bytes>(io));
                match guarded(&mut t.panics, "client handshake", || hs.as_mut().poll(&mut cx)) {
                    Some(Poll::Ready(Ok((sr, conn)))) => {
                        t.send_request = Some(sr);
                        t.conn = Conn::Client(conn);
                    }
                    Some(Poll::Ready(Err(e))) => t.conn_result = Some(format!("handshake: {}", err_text(&e))),
                    _ => t.conn_result = Some("handshake pending".into()),
                }
                t.drive(50);
                t.peer_send(&wf::settings(&cfg.peer_settings));
                t.drive(50);
                if !NO_HANDSHAKE_ACK.with(|c| c.get()) {
                    t.peer_ack_settings();
                    t.drive(50);
                }
            }
            Side::Server => {
                sh.lock().unwrap().inject(Side::Client, wf::PREFACE);
                t.peer_send(&wf::settings(&cfg.peer_settings));
                let b = cfg.server.clone().unwrap_or_default();
                let mut hs = Box::pin(b.handshake::<_, Bytes>(io));
                match guarded(&mut t.panics, "server handshake", || hs.as_mut().poll(&mut cx)) {
                    Some(Poll::Ready(Ok(conn))) => t.conn = Conn::Server(conn),
                    Some(Poll::Ready(Err(e))) => t.conn_result = Some(format!("handshake: {}", err_text(&e))),
                    _ => t.conn_result = Some("handshake pending".into()),
                }
                t.drive(50);
                if !NO_HANDSHAKE_ACK.with(|c| c.get()) {
                    t.peer_ack_settings();
                    t.drive(50);
                }
            }
        }
        sh.lock().unwrap().chooser.recording = true;
        t
    }

    pub fn peer(&self) -> Side {
        self.role.other()
    }

    pub fn catch_up(&mut self) {
        let s = self.sh.lock().unwrap();
        self.mon.catch_up(&s.iolog);
    }

    /// peer writes a frame
    pub fn peer_send(&mut self, f: &wf::RawFrame) {
        let peer = self.peer();
        self.sh.lock().unwrap().inject(peer, &f.encode());
        self.events += 1;
    }
    pub fn peer_send_bytes(&mut self, b: &[u8]) {
        let peer = self.peer();
        self.sh.lock().unwrap().inject(peer, b);
        self.events += 1;
    }
    pub fn peer_eof(&mut self) {
        let peer = self.peer();
        self.sh.lock().unwrap().inject_eof(peer);
        self.events += 1;
    }

    /// header block with literal-without-indexing representations (no dynamic table state on the peer's side)
    pub fn block(fields: &[(&str, &str)]) -> Vec<u8> {
        let f: Vec<(&[u8], &[u8])> = fields.iter().map(|(n, v)| (n.as_bytes(), v.as_bytes())).collect();
        rh::encode_block(&f, false, false)
    }

    pub fn peer_request(&mut self, sid: u32, path: &str, eos: bool) {
        let b = T2::block(&[(":method", if eos { "GET" } else { "POST" }), (":scheme", "http"), (":authority", "h.example"), (":path", path)]);
        self.peer_send(&wf::headers(sid, &b, eos, true));
    }

    pub fn peer_response(&mut self, sid: u32, status: &str, eos: bool) {
        let b = T2::block(&[(":status", status)]);
        self.peer_send(&wf::headers(sid, &b, eos, true));
    }

    /// the peer takes everything the subject has written so far; returns the new frames of the subject
    pub fn peer_read(&mut self) -> Vec<FrameRec> {
        let peer = self.peer();
        {
            let mut s = self.sh.lock().unwrap();
            s.drain(peer);
        }
        self.catch_up();
        let mut out = vec![];
        while self.peer_seen < self.mon.frames.len() {
            let f = &self.mon.frames[self.peer_seen];
            if f.sender == self.role {
                out.push(f.clone());
            }
            self.peer_seen += 1;
        }
        out
    }

    /// ACK every SETTINGS of the subject that has not been acknowledged yet
    pub fn peer_ack_settings(&mut self) {
        self.peer_read();
        let n = self.mon.unacked_settings[self.role.idx()].len();
        for _ in 0..n {
            self.peer_send(&wf::settings_ack());
            self.catch_up();
        }
    }

    /// Poll the connection once.
    pub fn poll_conn(&mut self) {
        self.conn_flag.clear();
        let w = waker_of(&self.conn_flag);
        let mut cx = Context::from_waker(&w);
        self.conn_polls += 1;
        self.events += 1;
        let calls_before = self.sh.lock().unwrap().transport_calls;
        let mut conn = std::mem::replace(&mut self.conn, Conn::Gone);
        let mut done: Option<String> = None;
        let mut done_dbg: Option<String> = None;
        let mut new_accepts: Vec<(Request<RecvStream>, server::SendResponse<Bytes>)> = vec![];
        let accept_enabled = self.accept_enabled;
        let r = catch_unwind(AssertUnwindSafe(|| match &mut conn {
            Conn::Client(c) => match Pin::new(c).poll(&mut cx) {
                Poll::Ready(Ok(())) => done = Some("ok".into()),
                Poll::Ready(Err(e)) => {
                    done_dbg = Some(format!("{:?}", e));
                    done = Some(format!("err {}", err_text(&e)))
                }
                Poll::Pending => {}
            },
            Conn::Server(c) if !accept_enabled => match c.poll_closed(&mut cx) {
                Poll::Ready(Ok(())) => done = Some("ok".into()),
                Poll::Ready(Err(e)) => {
                    done_dbg = Some(format!("{:?}", e));
                    done = Some(format!("err {}", err_text(&e)))
                }
                Poll::Pending => {}
            },
            Conn::Server(c) => loop {
                match c.poll_accept(&mut cx) {
                    Poll::Ready(Some(Ok(x))) => new_accepts.push(x),
                    Poll::Ready(Some(Err(e))) => {
                        done_dbg = Some(format!("{:?}", e));
                        done = Some(format!("err {}", err_text(&e)));
                        break;
                    }
                    Poll::Ready(None) => {
                        done = Some("ok".into());
                        break;
                    }
                    Poll::Pending => break,
                }
            },
            Conn::Gone => {}
        }));
        match r {
            Ok(()) => {
                if let Some(d) = done {
                    self.conn_result = Some(d);
                    self.conn_err_debug = done_dbg.take();
                    // ordinary life cycle: a finished connection future is dropped
                    let dr = catch_unwind(AssertUnwindSafe(move || drop(conn)));
                    if let Err(p) = dr {
                        self.panics.push(format!("drop(Connection): {}", crate::c11::panic_text(&p)));
                    }
                } else {
                    self.conn = conn;
                }
            }
            Err(p) => {
                self.panics.push(format!("Connection::poll: {}", crate::c11::panic_text(&p)));
                std::mem::forget(conn);
            }
        }
        for (req, respond) in new_accepts {
            let sid = respond.stream_id().as_u32();
            let head = crate::scen::req_rec(&req);
            self.accepted.push(Accepted { sid, req_head: head, body: Some(req.into_body()), respond: Some(respond), send: None, flag: Flag::new(false) });
        }
        let calls_after = self.sh.lock().unwrap().transport_calls;
        if self.conn_flag.is_set() && calls_after == calls_before {
            self.self_wake_run += 1;
            self.max_self_wake_run = self.max_self_wake_run.max(self.self_wake_run);
        } else {
            self.self_wake_run = 0;
        }
    }

    pub fn conn_alive(&self) -> bool {
        !matches!(self.conn, Conn::Gone)
    }

    /// Poll the connection while its waker has fired (and spurious-Pending transport events are outstanding), the peer
    /// reading what is written. Returns false if it did not quiesce within `max` polls.
    pub fn drive(&mut self, max: u32) -> bool {
        let mut n = 0;
        loop {
            let io_ready: Vec<_> = self.sh.lock().unwrap().io_ready.drain(..).collect();
            for (_, _, w) in io_ready {
                w.wake();
            }
            if !self.conn_flag.is_set() || !self.conn_alive() {
                break;
            }
            self.poll_conn();
            if self.peer_reads {
                self.peer_read();
            }
            n += 1;
            if n >= max {
                self.catch_up();
                return false;
            }
        }
        if self.peer_reads {
            self.peer_read();
        }
        self.catch_up();
        true
    }

    pub fn drop_conn(&mut self) {
        let conn = std::mem::replace(&mut self.conn, Conn::Gone);
        let r = catch_unwind(AssertUnwindSafe(move || drop(conn)));
        if let Err(p) = r {
            self.panics.push(format!("drop(Connection): {}", crate::c11::panic_text(&p)));
        }
    }

    /// frames the subject has written so far
    pub fn subject_frames(&self) -> Vec<&FrameRec> {
        self.mon.frames.iter().filter(|f| f.sender == self.role).collect()
    }

    pub fn goaway_sent(&self) -> Option<(u32, u32)> {
        self.subject_frames().iter().rev().find_map(|f| if let Ok(wf::Parsed::GoAway { last, code, .. }) = &f.parsed { Some((*last, *code)) } else { None })
    }

    pub fn rst_sent(&self, sid: u32) -> Vec<u32> {
        self.subject_frames().iter().filter_map(|f| if let Ok(wf::Parsed::RstStream { sid: s, code }) = &f.parsed { if *s == sid { Some(*code) } else { None } } else { None }).collect()
    }

    /// Tear everything down, one handle at a time, without letting destructor panics escape.
    pub fn finish(mut self) -> Vec<String> {
        let acc = std::mem::take(&mut self.accepted);
        let sr = self.send_request.take();
        let conn = std::mem::replace(&mut self.conn, Conn::Gone);
        let mut panics = std::mem::take(&mut self.panics);
        for a in acc {
            safe_drop(&mut panics, "RecvStream", a.body);
            safe_drop(&mut panics, "SendResponse", a.respond);
            safe_drop(&mut panics, "SendStream", a.send);
        }
        safe_drop(&mut panics, "SendRequest", sr);
        safe_drop(&mut panics, "Connection", conn);
        panics.retain(|p| !p.contains("self.slab.is_empty()"));
        panics
    }
}

pub fn simple_response(status: u16) -> Response<()> {
    Response::builder().status(status).body(()).unwrap()
}

pub fn simple_request(path: &str, post: bool) -> Request<()> {
    Request::builder().method(if post { "POST" } else { "GET" }).uri(format!("http://h.example{}", path)).body(()).unwrap()
}

// ---------------------------------------------------------------------------------------------
// write-buffer fill (shared by the "codec full, come back later" sweeps of C03 / C05 / C14)

/// Server subject: with the transport blocked from now on, answer stream `sid` and queue inline DATA frames (each below the
/// chain threshold) whose encoded size is `fill` octets in total, then let the connection stage them in its write buffer.
pub fn fill_write_buffer(t: &mut T2, sid: u32, fill: usize, vectored: bool, panics: &mut Vec<String>) {
    t.sh.lock().unwrap().set_write_blocked(t.role, true);
    let chunk = if vectored { 250 } else { 1000 };
    if let Some(a) = t.accepted.iter_mut().find(|a| a.sid == sid) {
        if let Some(mut r) = a.respond.take() {
            if let Some(Ok(mut ss)) = guarded(panics, "send_response", || r.send_response(simple_response(200), false)) {
                let mut left = fill;
                while left > 9 {
                    let take = left.min(chunk + 9);
                    let _ = guarded(panics, "send_data", || ss.send_data(Bytes::from(vec![0x55u8; take - 9]), false));
                    left -= take;
                }
                a.send = Some(ss);
            }
        }
    }
    t.drive(100);
}

pub fn unblock_and_quiesce(t: &mut T2) {
    let role = t.role;
    t.sh.lock().unwrap().set_write_blocked(role, false);
    let w = t.sh.lock().unwrap().blocked_writers[role.idx()].take();
    if let Some(w) = w {
        w.wake();
    }
    t.conn_flag.wake_by_ref_pub();
    t.drive(300);
    t.catch_up();
}

/// fill levels around the point where the write buffer (16384 octets) stops accepting frames: fewer than 1033 octets free
/// without vectored I/O, fewer than 265 with it
pub fn fill_levels(quick: bool) -> Vec<(bool, usize)> {
    let pad = if quick { 120 } else { 700 };
    let mut v = vec![];
    for fill in (16384 - 1033 - pad)..=(16384 - 1033 + 40) {
        v.push((false, fill));
    }
    for fill in (16384 - 265 - pad)..=(16384 - 265 + 40) {
        v.push((true, fill));
    }
    v
}
