//! C07 — however a connection ends, every outstanding handle resolves and complete messages are still delivered
//! (X1 on T1: transport faults, garbage, EOF, shutdown errors and application drops as deviations at every I/O call / poll).

use crate::c01::*;
use crate::common::*;
use crate::monitor::WireEv;
use crate::scen::*;
use crate::sim::*;
use h2wire::frame::Parsed;
use serde_json::{json, Value};

type V3 = Vec<(String, String, String)>;

fn digits_stripped(s: &str) -> String {
    s.chars().filter(|c| !c.is_ascii_digit()).collect()
}

pub fn fault_policy() -> [IoPolicy; 2] {
    let p = IoPolicy { write_err: true, write_zero: true, read_err: true, read_eof: true, read_garbage: true, shutdown_alts: true, error_on_peer_gone: true, ..IoPolicy::default() };
    [p.clone(), p]
}

/// (side, what) of every ending that was injected in this execution, in order
fn endings(t: &T1) -> Vec<(Side, String)> {
    let mut v = vec![];
    {
        let s = t.sh.lock().unwrap();
        for e in &s.iolog {
            if let IoEvKind::Error(w) = &e.kind {
                v.push((e.side, w.to_string()));
            }
        }
        // an injected EOF is logged like a natural one; tell them apart by the choice trace
        for p in &s.chooser.trace {
            if p.tag == tag::READ && p.c != 0 {
                // the kind is already in the iolog for errors / garbage; EOF alternatives are the remaining ones
            }
        }
    }
    for r in t.log.snapshot() {
        if let Ev::Err(x) = &r.ev {
            if r.k == usize::MAX && x.contains("dropped by the application") {
                v.push((r.side, "drop".into()));
            }
        }
    }
    v
}

fn injected_eofs(t: &T1) -> usize {
    // an EOF event for reader R is natural iff the writer's Shutdown precedes it
    let s = t.sh.lock().unwrap();
    let mut shut = [false, false];
    let mut n = 0;
    for e in &s.iolog {
        match &e.kind {
            IoEvKind::Shutdown => shut[e.side.idx()] = true,
            IoEvKind::Eof => {
                if !shut[e.side.other().idx()] {
                    n += 1;
                    shut[e.side.other().idx()] = true;
                }
            }
            _ => {}
        }
    }
    n
}

fn judge_c07(h: &T1Harness, t: &mut T1, end: RunEnd) -> V3 {
    let mut v = vec![];
    let ends = endings(t);
    let n_eof = injected_eofs(t);
    let cfg = &h.sc.cfg;
    let any_ending = !ends.is_empty() || n_eof > 0 || cfg.graceful_after.is_some() || cfg.abrupt_after.is_some();
    let kinds: Vec<String> = {
        let mut k: Vec<String> = ends.iter().map(|(s, w)| format!("{}:{}", s.name(), w)).collect();
        if n_eof > 0 {
            k.push("eof".into());
        }
        k
    };
    if end == RunEnd::Horizon {
        let busy: Vec<String> = t.exec.tasks.iter().filter(|x| x.fut.is_some() && x.flag.is_set()).map(|x| x.name.clone()).collect();
        v.push(("C07.no-quiescence".into(), digits_stripped(&busy.join(",")), format!("after {:?} the execution did not quiesce within {} steps; still runnable: {:?}", kinds, horizon_for(h.sc), busy)));
        return v;
    }
    // every pending operation of every handle has resolved: no application task is still waiting
    let stuck: Vec<String> = t.exec.tasks.iter().filter(|x| x.fut.is_some() && x.name != "connC" && x.name != "connS").map(|x| x.name.clone()).collect();
    if !stuck.is_empty() && (any_ending || !cfg.keep_send_request) {
        // which side's tasks hang, and did that side's connection end?
        v.push(("C07.handle-unresolved".into(), format!("{}|{}", digits_stripped(&stuck.join(",")), digits_stripped(&kinds.join(","))), format!("after {:?} and quiescence these application tasks are still waiting on their handles: {:?}", kinds, stuck)));
    }
    // the connection futures themselves complete
    if any_ending || !cfg.keep_send_request {
        for c in ["connC", "connS"] {
            if !t.exec.is_done(c) {
                v.push(("C07.connection-not-finished".into(), format!("{}|{}", c, digits_stripped(&kinds.join(","))), format!("after {:?} and quiescence {} has not completed", kinds, c)));
            }
        }
    }
    // messages that were completely received are still delivered
    let log = t.log.snapshot();
    let frames = &t.mon.frames;
    let delivered: std::collections::HashSet<usize> = t.mon.events.iter().filter_map(|e| if let WireEv::Delivered(i) = e { Some(*i) } else { None }).collect();
    for (k, dir, from, to) in pairs(h.sc) {
        let spec = &h.sc.streams[k];
        if spec.cancel != Cancel::None || spec.s_wait_reset {
            continue;
        }
        // endings whose position relative to the receiver's processing of delivered octets is unambiguous: anything at
        // the sender's endpoint, read-side endings and drops at the receiver's (a read call is only made when no complete
        // frame is left in the codec's buffer; a connection poll processes everything that was read)
        let ambiguous = ends.iter().any(|(s, w)| *s == to && (w == "write" || w == "write-zero" || w == "shutdown" || w.starts_with("write:")));
        if ambiguous {
            continue;
        }
        // the stream id the sender used
        let sid_dir = if dir == Dir::PushResp { Dir::PushResp } else { Dir::Req };
        let sid_side = if dir == Dir::PushResp { Side::Server } else { Side::Client };
        let Some(sid) = log.iter().find_map(|r| if r.side == sid_side && r.k == k && r.dir == sid_dir && r.submitted { if let Ev::StreamId(s) = r.ev { Some(s) } else { None } } else { None }) else { continue };
        // all frames of the message, up to the one that ends the stream, were handed to the receiver's transport read
        let mut complete = false;
        let mut all_delivered = true;
        let mut in_block_eos = false;
        for (i, f) in frames.iter().enumerate() {
            if f.sender != from || f.raw.stream() != sid {
                continue;
            }
            // PUSH_PROMISE frames travel on the parent stream; for the pushed response look at the promised stream only
            if matches!(&f.parsed, Ok(Parsed::RstStream { .. })) {
                all_delivered = false;
                break;
            }
            if !delivered.contains(&i) {
                all_delivered = false;
                break;
            }
            match &f.parsed {
                Ok(Parsed::Headers { eos, eh, .. }) => {
                    in_block_eos = *eos;
                    if *eos && *eh {
                        complete = true;
                    }
                }
                Ok(Parsed::Continuation { eh, .. }) => {
                    if *eh && in_block_eos {
                        complete = true;
                    }
                }
                Ok(Parsed::Data { eos, .. }) => {
                    if *eos {
                        complete = true;
                    }
                }
                _ => {}
            }
            if complete {
                break;
            }
        }
        // the receiver itself must not have reset the stream before (its own cancellation is not part of these scenarios,
        // so an RST_STREAM from the receiver is h2's decision: still a lost message, reported below)
        if !(complete && all_delivered) {
            continue;
        }
        // for responses the client must have been able to ask: its task is alive unless poll_ready / send_request failed
        let s = sequence(&log, from, k, &dir, true);
        let r = sequence(&log, to, k, &dir, false);
        // (an error of the PushPromises stream - "are there further promises?" - is not part of the pushed message)
        let err = log.iter().find_map(|x| if x.side == to && x.k == k && x.dir == dir && !x.submitted { if let Ev::Err(e) = &x.ev { if e.starts_with("push_promise:") { None } else { Some(e.clone()) } } else { None } } else { None });
        // a pushed response is only reachable through the parent's push stream: if the parent request failed first the
        // application has no handle to ask (not this clause)
        // (this exemption is kept only for the case that the client never got to ask: its request task itself failed before it
        // could take the push stream. A promise that was queued when the parent failed is still handed out by
        // poll_push_promise - seed C07d made that visible)
        if dir == Dir::PushResp && !log.iter().any(|x| x.side == to && x.k == k && x.dir == Dir::PushResp && !x.submitted && matches!(x.ev, Ev::PushReq(_))) {
            let client_could_ask = log.iter().any(|x| x.side == to && x.k == k && x.dir == Dir::Req && x.submitted && matches!(x.ev, Ev::StreamId(_)));
            if !client_could_ask {
                continue;
            }
        }
        // a request that the server application was never handed (accept reported the end of the connection first) has no
        // handle through which it could be delivered
        if dir == Dir::Req && !r.iter().any(|i| matches!(i, Item::Head(_))) {
            continue;
        }
        if !is_complete(&s, &r) || err.is_some() {
            let got: Vec<String> = r.iter().map(|i| format!("{:?}", i).chars().take(30).collect()).collect();
            v.push((
                "C07.complete-message-not-delivered".into(),
                format!("{:?}|{}|{}", dir, digits_stripped(err.as_deref().unwrap_or("short")), digits_stripped(&kinds.join(","))),
                format!("stream #{} {:?}: every frame up to END_STREAM had been handed to the {} before {:?}, but its application got {:?} and error {:?}", k, dir, to.name(), kinds, got, err),
            ));
        }
    }
    v
}

fn m(chunks: &[usize]) -> MsgSpec {
    MsgSpec::simple(chunks)
}

fn mk(name: &str, cfg: Cfg, streams: Vec<StreamSpec>) -> Scenario {
    Scenario { name: name.to_string(), cfg, streams }
}

pub fn c07_scenarios(quick: bool) -> Vec<Scenario> {
    let mut v = vec![];
    // response futures, body reads in both directions
    v.push(mk("post-echo", Cfg::default(), vec![StreamSpec::new(m(&[5, 5]), m(&[5, 5]))]));
    // data waits in receive buffers when the ending strikes; complete messages must survive it
    v.push(mk("late-readers", Cfg::default(), vec![StreamSpec { c_recv: RecvMode::Late, s_recv: RecvMode::Late, ..StreamSpec::new(m(&[6]), m(&[7, 2])) }, StreamSpec { c_recv: RecvMode::Late, ..StreamSpec::new(m(&[]), m(&[3])) }]));
    // capacity waits
    v.push(mk("capacity-wait", Cfg { c_stream_window: Some(4), s_stream_window: Some(4), ..Cfg::default() }, vec![StreamSpec::new(MsgSpec { use_capacity: true, ..m(&[10]) }, MsgSpec { use_capacity: true, ..m(&[9]) })]));
    // readiness waits: the second request is parked until the first stream closes
    v.push(mk("parked-request", Cfg { s_max_concurrent: Some(1), c_initial_max_send_streams: Some(1), ..Cfg::default() }, vec![StreamSpec::new(m(&[3]), m(&[3])), StreamSpec::new(m(&[]), m(&[2]))]));
    // a parked request that its owner resets before it was ever sent, then a readiness wait on the same SendRequest
    v.push(mk("parked-reset-ready", Cfg { s_max_concurrent: Some(1), c_initial_max_send_streams: Some(1), c_parked_reset_then_ready: true, ..Cfg::default() }, vec![StreamSpec { s_recv: RecvMode::Late, ..StreamSpec::new(m(&[3, 3]), m(&[3])) }]));
    // user ping outstanding, connection kept open by a SendRequest
    v.push(mk("ping-keepalive", Cfg { ping: true, keep_send_request: true, ..Cfg::default() }, vec![StreamSpec::new(m(&[]), m(&[1]))]));
    // trailer reads
    v.push(mk("trailers", Cfg::default(), vec![StreamSpec::new(MsgSpec { end: EndKind::Trailers, ..m(&[4]) }, MsgSpec { end: EndKind::Trailers, ..m(&[4]) })]));
    // reset wait on the server, the client cancels
    v.push(mk("reset-wait", Cfg::default(), vec![StreamSpec { s_wait_reset: true, cancel: Cancel::ClientReset { after_chunks: 1, code: 8 }, ..StreamSpec::new(m(&[2, 2]), m(&[])) }]));
    // user shutdown: graceful and abrupt, with a second stream racing it
    v.push(mk("graceful-shutdown", Cfg { graceful_after: Some(1), ..Cfg::default() }, vec![StreamSpec::new(m(&[3]), m(&[3])), StreamSpec::new(m(&[2]), m(&[2]))]));
    v.push(mk("abrupt-shutdown", Cfg { abrupt_after: Some((1, 2)), ..Cfg::default() }, vec![StreamSpec::new(m(&[3]), m(&[3])), StreamSpec::new(m(&[2]), m(&[2]))]));
    // the application drops a connection object at any of its polls
    v.push(mk("client-drops-connection", Cfg { c_drop_conn: true, ..Cfg::default() }, vec![StreamSpec { c_recv: RecvMode::Late, ..StreamSpec::new(m(&[4]), m(&[4, 1])) }]));
    v.push(mk("server-drops-connection", Cfg { s_drop_conn: true, ..Cfg::default() }, vec![StreamSpec { s_recv: RecvMode::Late, ..StreamSpec::new(m(&[4, 1]), m(&[4])) }]));
    // push-promise and pushed-response waits
    v.push(mk("push", Cfg::default(), vec![StreamSpec { push: Some(m(&[3])), c_recv: RecvMode::Late, ..StreamSpec::new(m(&[]), m(&[2])) }]));
    if !quick {
        v.push(mk("client-drops-connection-capacity", Cfg { c_drop_conn: true, c_stream_window: Some(4), s_stream_window: Some(4), keep_send_request: true, ..Cfg::default() }, vec![StreamSpec::new(MsgSpec { use_capacity: true, ..m(&[10]) }, MsgSpec { use_capacity: true, ..m(&[9]) })]));
        v.push(mk("server-drops-connection-parked", Cfg { s_drop_conn: true, s_max_concurrent: Some(1), c_initial_max_send_streams: Some(1), ..Cfg::default() }, vec![StreamSpec::new(m(&[3]), m(&[3])), StreamSpec::new(m(&[]), m(&[2]))]));
        v.push(mk("big-body", Cfg::default(), vec![StreamSpec { c_recv: RecvMode::Late, ..StreamSpec::new(m(&[20_000]), m(&[40_000])) }]));
    }
    v
}

/// faults after partial writes / reads: the ending strikes at a byte offset inside a frame
pub fn offsets_policy() -> [IoPolicy; 2] {
    let p = IoPolicy { short_writes: true, short_reads: true, dense_cut_limit: 12, ..fault_policy()[0].clone() };
    [p.clone(), p]
}

pub fn run(ctx: &Ctx) -> Outcome {
    let quick = ctx.tier.is_quick();
    let scs = c07_scenarios(quick);
    // pass A: faults / drops / schedule, pass B: the same plus byte offsets
    let outer: Option<f64> = std::env::var("VERIF_BUDGET_SCALE").ok().and_then(|s| s.parse().ok());
    std::env::set_var("VERIF_BUDGET_SCALE", format!("{}", 0.55 * outer.unwrap_or(1.0)));
    let mut out = run_t1_property(ctx, "C07", &scs, judge_c07, if quick { 3 } else { 4 }, fault_policy(), &["transport_faults_injected", "connections_dropped_by_app"]);
    match outer {
        Some(x) => std::env::set_var("VERIF_BUDGET_SCALE", format!("{}", x)),
        None => std::env::remove_var("VERIF_BUDGET_SCALE"),
    }
    let scs_b: Vec<Scenario> = scs.iter().filter(|s| !quick || ["post-echo", "late-readers", "capacity-wait", "trailers", "client-drops-connection"].contains(&s.name.as_str())).cloned().collect();
    let mut b = run_t1_property(ctx, "C07", &scs_b, judge_c07, if quick { 2 } else { 3 }, offsets_policy(), &["transport_faults_injected", "partial_writes", "partial_reads"]);
    if let Some(h) = b.coverage.get_mut("harnesses").and_then(|v| v.as_object_mut()) {
        if let Some(x) = h.remove("t1-scenarios") {
            h.insert("t1-scenarios-with-byte-offsets".into(), x);
        }
    }
    let exhaustive_b = b.coverage.get("exhaustive").cloned();
    out.absorb(b);
    out.set("byte_offset_pass_complete", exhaustive_b.unwrap_or(json!(false)));
    out.set("rule", json!("X1 on T1 (real client <-> real server, strict wake-only executor). Deviations: at every transport call an injected write error / zero-length write / read error / EOF (in-flight octets lost) / non-HTTP/2 octets / shutdown Pending or error; at every poll of a connection the application dropping it instead; another runnable task first; in the byte-offset pass also partial writes and reads at structural offsets, so that the ending strikes inside a frame. Scenarios put every kind of wait in flight: response futures, body and trailer reads, capacity waits, reset waits, parked requests (readiness), accept, user ping, graceful and abrupt shutdown. For every execution with <= k deviations, at quiescence: (a) quiescence is reached (no livelock), (b) no application task is still waiting on a handle, (c) both connection futures have completed, (d) every message whose frames up to END_STREAM had all been handed to the receiving endpoint before the ending is delivered to its application completely and without error (skipped when the ending is a write-side fault at the receiving endpoint itself, where 'already received' is ambiguous)"));
    // the user-ping handle across the end of the connection, every interleaving of the two threads (loom, real ping_pong.rs)
    let pv = crate::c20::run_pingloom(&mut out, quick, "C07");
    out.violations.extend(pv);
    out.assume("the applications keep polling their handles; a wait that the application itself abandons is not covered");
    out.assume("clause (d) only for endings whose position relative to frame processing is unambiguous (see rule)");
    out
}

pub fn replay_c07(v: &Value) -> bool {
    if v["harness"].as_str() == Some("pingloom") {
        return crate::c20::replay(v).unwrap_or(false);
    }
    let name = v["scenario_name"].as_str().unwrap_or("");
    let scs = c07_scenarios(false);
    let mut v2 = v.clone();
    if let Some(i) = scs.iter().position(|s| s.name == name) {
        v2["scenario"] = json!(i);
    }
    // the file does not say which pass produced it: the fault-only policy first, then the one with byte offsets
    replay(&v2, &scs, "C07", judge_c07, fault_policy()) || replay(&v2, &scs, "C07", judge_c07, offsets_policy())
}
