//! C19 — finished streams are forgotten and an idle client connection closes itself (X2 on T2 with the snapshot hook).

use crate::common::*;
use crate::sim::*;
use crate::t2::*;
use crate::x2::*;
use bytes::Bytes;
use h2::{client, RecvStream, SendStream};
use h2wire::frame::{self as wf, Parsed};
use serde_json::json;
use std::future::Future;
use std::pin::Pin;
use std::task::{Context, Poll};

#[derive(Clone, Debug)]
pub enum Ev {
    Request(bool),
    SendEos(usize),
    PeerRespond(usize, bool),
    PeerDataEos(usize),
    PeerRst(usize),
    /// (blocked variant) three octets of body without END_STREAM, then trailers: HEADERS with END_STREAM queued behind DATA
    /// that flow control holds back
    SendTrailers(usize),
    PollResponse(usize),
    ReadAll(usize),
    ClientReset(usize),
    DropRf(usize),
    DropSs(usize),
    DropBody(usize),
    DropClone,
    Drive,
    TimePasses,
}

pub struct Req {
    pub sid: u32,
    pub rf: Option<client::ResponseFuture>,
    pub ss: Option<SendStream<Bytes>>,
    pub body: Option<RecvStream>,
    pub sent_eos: bool,
    pub reset: bool,
}

pub struct World {
    pub clones: Vec<client::SendRequest<Bytes>>,
    pub reqs: Vec<Req>,
    pub resets: u64,
}

pub struct LifeModel {
    pub events: Vec<Ev>,
    pub name: &'static str,
    pub expire_now: bool,
    pub max_reqs: usize,
    /// start from an exchange that is complete on the wire but not yet consumed: GET answered with head + 4 octets +
    /// END_STREAM, response future resolved, RecvStream and SendStream still held, nothing read or released
    pub mid: bool,
    /// the peer advertises a stream window of 2: the 3 octets of a request body do not fit, END_STREAM is queued behind
    /// flow-control-blocked DATA (a stream can then be closed both ways while it still holds frames)
    pub blocked: bool,
}

impl LifeModel {
    pub fn new(name: &'static str, quick: bool, expire_now: bool) -> LifeModel {
        Self::new_variant(name, quick, expire_now, false)
    }
    pub fn new_variant(name: &'static str, quick: bool, expire_now: bool, mid: bool) -> LifeModel {
        Self::new_variant2(name, quick, expire_now, mid, false)
    }
    pub fn new_variant2(name: &'static str, quick: bool, expire_now: bool, mid: bool, blocked: bool) -> LifeModel {
        let n = if quick { 2 } else { 3 };
        let mut ev = vec![Ev::Request(true), Ev::Request(false)];
        for k in 0..n {
            ev.push(Ev::SendEos(k));
            if blocked {
                ev.push(Ev::SendTrailers(k));
            }
            ev.push(Ev::PeerRespond(k, true));
            ev.push(Ev::PeerRespond(k, false));
            ev.push(Ev::PeerDataEos(k));
            ev.push(Ev::PeerRst(k));
            ev.push(Ev::PollResponse(k));
            ev.push(Ev::ReadAll(k));
            ev.push(Ev::ClientReset(k));
            ev.push(Ev::DropRf(k));
            ev.push(Ev::DropSs(k));
            ev.push(Ev::DropBody(k));
        }
        ev.push(Ev::DropClone);
        ev.push(Ev::Drive);
        if expire_now {
            ev.push(Ev::TimePasses);
        }
        LifeModel { events: ev, name, expire_now, max_reqs: n, mid, blocked }
    }
}

pub fn num_after(text: &str, key: &str) -> Option<i64> {
    let p = text.find(key)?;
    let rest = &text[p + key.len()..];
    let digits: String = rest.chars().skip_while(|c| !c.is_ascii_digit() && *c != '-').take_while(|c| c.is_ascii_digit() || *c == '-').collect();
    digits.parse().ok()
}

fn peer_frames(t: &T2, sid: u32) -> Vec<&crate::monitor::FrameRec> {
    t.mon.frames.iter().filter(|f| f.sender != t.role && f.raw.stream() == sid).collect()
}

fn peer_closed(t: &T2, sid: u32) -> bool {
    peer_frames(t, sid).iter().any(|f| matches!(&f.parsed, Ok(Parsed::Headers { eos: true, .. }) | Ok(Parsed::Data { eos: true, .. }) | Ok(Parsed::RstStream { .. })))
}

fn peer_rst(t: &T2, sid: u32) -> bool {
    peer_frames(t, sid).iter().any(|f| matches!(&f.parsed, Ok(Parsed::RstStream { .. })))
}

fn peer_responded(t: &T2, sid: u32) -> bool {
    peer_frames(t, sid).iter().any(|f| matches!(&f.parsed, Ok(Parsed::Headers { .. })))
}

fn on_wire(t: &T2, sid: u32) -> bool {
    t.subject_frames().iter().any(|f| matches!(&f.parsed, Ok(Parsed::Headers { sid: s, .. }) if *s == sid))
}

/// What may a connection still remember once every stream has closed both ways and every handle is gone?
pub fn leak_checks(s: &h2::verif::StreamsSnapshot, expire_now: bool, n_streams: usize, v: &mut V3) {
    leak_checks_n(s, expire_now, n_streams, 2, v)
}

/// `quota` = the configured bound on remembered local resets
pub fn leak_checks_n(s: &h2::verif::StreamsSnapshot, expire_now: bool, n_streams: usize, quota: usize, v: &mut V3) {
        let remembered: Vec<&String> = s.streams.iter().collect();
        let max_remembered = if expire_now { 0 } else { quota };
        if remembered.len() > max_remembered {
            v.push((
                "C19.stream-record-retained".to_string(),
                format!("{}>{}", remembered.len(), max_remembered),
                format!("all {} streams have closed both ways and every handle is dropped, yet {} stream records are retained (allowed: {} remembered local resets): {}", n_streams, remembered.len(), max_remembered, remembered.iter().map(|x| x.chars().take(160).collect::<String>()).collect::<Vec<_>>().join(" || ")),
            ));
        }
        for r in &remembered {
            if !expire_now && !(r.contains("reset_at") || r.contains("Reset") || r.contains("ScheduledLibraryReset")) {
                v.push(("C19.stream-record-retained".into(), "not-a-reset".into(), format!("a retained stream record is not a remembered local reset: {}", r.chars().take(200).collect::<String>())));
            }
        }
        for (key, want) in [("num_send_streams: ", 0), ("num_recv_streams: ", 0)] {
            if let Some(n) = num_after(&s.counts, key) {
                if n != want {
                    v.push(("C19.counter-not-idle".into(), key.trim().trim_end_matches(':').to_string(), format!("with no stream left, Counts has {}{} ({})", key, n, s.counts)));
                }
            }
        }
        if s.recv_buffered != 0 || s.send_buffered != 0 {
            v.push(("C19.buffer-not-empty".into(), format!("recv={} send={}", s.recv_buffered.min(1), s.send_buffered.min(1)), format!("with no stream left, {} received events and {} frames to send are still buffered", s.recv_buffered, s.send_buffered)));
        }
        if let Some(n) = num_after(&s.recv, "in_flight_data: ") {
            if n != 0 {
                v.push(("C19.flow-not-idle".into(), "in_flight_data".into(), format!("with no stream left, the connection still counts {} received octets as in flight", n)));
            }
        }
        // send side: the whole connection window is unassigned again
        if let Some(p) = s.send.find("prioritize: Prioritize") {
            let pr = &s.send[p..];
            if let (Some(ws), Some(av)) = (num_after(pr, "window_size: Window("), num_after(pr, "available: Window(")) {
                if ws != av {
                    v.push(("C19.flow-not-idle".into(), "send-window-assigned".into(), format!("with no stream left, {} of {} octets of the connection send window are still assigned to streams", ws - av, ws)));
                }
            }
        }
}

impl Model for LifeModel {
    type World = World;
    fn name(&self) -> &'static str {
        self.name
    }
    fn cfg(&self) -> T2Cfg {
        let mut cb = client::Builder::new();
        cb.reset_stream_duration(if self.expire_now { std::time::Duration::from_secs(0) } else { std::time::Duration::from_secs(3600) });
        cb.max_concurrent_reset_streams(2);
        // a stream window of 6: releasing the 4 octets of a response body crosses the WINDOW_UPDATE threshold, so that closed
        // streams pass through the pending-window-update queue as well
        cb.initial_window_size(6);
        let peer_settings = if self.blocked { vec![(wf::setting::INITIAL_WINDOW_SIZE, 2)] } else { vec![] };
        T2Cfg { role: Side::Client, peer_settings, client: Some(cb), server: None, policy: IoPolicy::default() }
    }
    fn init(&self, t: &mut T2) -> World {
        let sr = t.send_request.take().unwrap();
        let mut w = World { clones: vec![sr.clone(), sr], reqs: vec![], resets: 0 };
        if self.mid {
            let req = self.events.iter().position(|e| matches!(e, Ev::Request(false))).unwrap();
            self.apply(t, &mut w, req);
            t.drive(50);
            let sid = w.reqs[0].sid;
            t.peer_response(sid, "200", false);
            t.peer_send(&wf::data(sid, b"resp", true));
            t.drive(50);
            let poll = self.events.iter().position(|e| matches!(e, Ev::PollResponse(0))).unwrap();
            self.apply(t, &mut w, poll);
        }
        w
    }
    fn n_events(&self) -> usize {
        self.events.len()
    }
    fn event_name(&self, e: usize) -> String {
        format!("{:?}", self.events[e])
    }
    fn enabled(&self, t: &T2, w: &World, e: usize) -> bool {
        if !t.conn_alive() {
            return false;
        }
        let r = |k: usize| w.reqs.get(k);
        match &self.events[e] {
            Ev::Request(_) => w.reqs.len() < self.max_reqs && !w.clones.is_empty(),
            Ev::SendEos(k) | Ev::SendTrailers(k) => r(*k).map(|x| x.ss.is_some() && !x.sent_eos && !x.reset).unwrap_or(false),
            Ev::PeerRespond(k, _) => r(*k).map(|x| on_wire(t, x.sid) && !peer_responded(t, x.sid) && !peer_closed(t, x.sid) && t.rst_sent(x.sid).is_empty()).unwrap_or(false),
            Ev::PeerDataEos(k) => r(*k).map(|x| peer_responded(t, x.sid) && !peer_closed(t, x.sid) && t.rst_sent(x.sid).is_empty()).unwrap_or(false),
            // also after the peer's END_STREAM (RFC 9113 8.1: a complete response followed by RST_STREAM), never twice
            Ev::PeerRst(k) => r(*k).map(|x| on_wire(t, x.sid) && !peer_rst(t, x.sid)).unwrap_or(false),
            Ev::PollResponse(k) | Ev::DropRf(k) => r(*k).map(|x| x.rf.is_some()).unwrap_or(false),
            Ev::ReadAll(k) | Ev::DropBody(k) => r(*k).map(|x| x.body.is_some()).unwrap_or(false),
            Ev::ClientReset(k) => r(*k).map(|x| x.ss.is_some() && !x.reset).unwrap_or(false),
            Ev::DropSs(k) => r(*k).map(|x| x.ss.is_some()).unwrap_or(false),
            Ev::DropClone => !w.clones.is_empty(),
            Ev::Drive | Ev::TimePasses => true,
        }
    }
    fn apply(&self, t: &mut T2, w: &mut World, e: usize) {
        let mut panics = vec![];
        let flag = Flag::new(false);
        let wk = waker_of(&flag);
        let mut cx = Context::from_waker(&wk);
        match self.events[e].clone() {
            Ev::Request(post) => {
                let sr = w.clones.last_mut().unwrap();
                if let Some(Poll::Ready(Ok(()))) = guarded(&mut panics, "poll_ready", || sr.poll_ready(&mut cx)) {
                    if let Some(Ok((rf, ss))) = guarded(&mut panics, "send_request", || sr.send_request(simple_request("/l", post), !post)) {
                        w.reqs.push(Req { sid: rf.stream_id().as_u32(), rf: Some(rf), ss: Some(ss), body: None, sent_eos: !post, reset: false });
                    }
                }
            }
            Ev::SendEos(k) => {
                let x = &mut w.reqs[k];
                if let Some(Ok(())) = guarded(&mut panics, "send_data", || x.ss.as_mut().unwrap().send_data(Bytes::from_static(b"bye"), true)) {
                    x.sent_eos = true;
                }
            }
            Ev::SendTrailers(k) => {
                let x = &mut w.reqs[k];
                let ss = x.ss.as_mut().unwrap();
                let _ = guarded(&mut panics, "send_data", || ss.send_data(Bytes::from_static(b"bye"), false));
                let mut tr = http::HeaderMap::new();
                tr.insert("x-t", http::HeaderValue::from_static("1"));
                if let Some(Ok(())) = guarded(&mut panics, "send_trailers", || ss.send_trailers(tr)) {
                    x.sent_eos = true;
                }
            }
            Ev::PeerRespond(k, eos) => t.peer_response(w.reqs[k].sid, "200", eos),
            Ev::PeerDataEos(k) => t.peer_send(&wf::data(w.reqs[k].sid, b"resp", true)),
            Ev::PeerRst(k) => t.peer_send(&wf::rst_stream(w.reqs[k].sid, 8)),
            Ev::PollResponse(k) => {
                let x = &mut w.reqs[k];
                let rf = x.rf.as_mut().unwrap();
                match guarded(&mut panics, "poll response", || Pin::new(rf).poll(&mut cx)) {
                    Some(Poll::Ready(Ok(resp))) => {
                        x.body = Some(resp.into_body());
                        let rf = x.rf.take();
                        safe_drop(&mut panics, "ResponseFuture", rf);
                    }
                    Some(Poll::Ready(Err(_))) => {
                        let rf = x.rf.take();
                        safe_drop(&mut panics, "ResponseFuture", rf);
                    }
                    _ => {}
                }
            }
            Ev::ReadAll(k) => {
                let x = &mut w.reqs[k];
                let b = x.body.as_mut().unwrap();
                for _ in 0..8 {
                    match guarded(&mut panics, "poll_data", || b.poll_data(&mut cx)) {
                        Some(Poll::Ready(Some(Ok(d)))) => {
                            let _ = b.flow_control().release_capacity(d.len());
                        }
                        _ => break,
                    }
                }
            }
            Ev::ClientReset(k) => {
                let x = &mut w.reqs[k];
                guarded(&mut panics, "send_reset", || x.ss.as_mut().unwrap().send_reset(h2::Reason::CANCEL));
                x.reset = true;
                w.resets += 1;
            }
            Ev::DropRf(k) => {
                let h = w.reqs[k].rf.take();
                safe_drop(&mut panics, "ResponseFuture", h);
            }
            Ev::DropSs(k) => {
                let h = w.reqs[k].ss.take();
                safe_drop(&mut panics, "SendStream", h);
            }
            Ev::DropBody(k) => {
                let h = w.reqs[k].body.take();
                safe_drop(&mut panics, "RecvStream", h);
            }
            Ev::DropClone => {
                let h = w.clones.pop();
                safe_drop(&mut panics, "SendRequest", h);
            }
            Ev::Drive => {
                t.drive(200);
            }
            Ev::TimePasses => {
                std::thread::sleep(std::time::Duration::from_micros(30));
                t.conn_flag.wake_by_ref_pub();
                t.drive(200);
            }
        }
        t.panics.extend(panics);
        t.catch_up();
    }
    fn invariant(&self, _t: &mut T2, _w: &mut World) -> V3 {
        vec![]
    }
    fn epilogue(&self, t: &mut T2, w: &mut World) -> V3 {
        let mut v = vec![];
        let mut panics = vec![];
        if !t.conn_alive() {
            return v;
        }
        t.drive(300);
        // 1. every stream finishes: the peer ends what it has not ended, the client ends or has reset its side
        for x in w.reqs.iter_mut() {
            if !on_wire(t, x.sid) {
                // never reached the wire (dropped / reset before the connection ran): nothing for the peer to answer
                continue;
            }
            if !peer_closed(t, x.sid) && t.rst_sent(x.sid).is_empty() {
                if peer_responded(t, x.sid) {
                    t.peer_send(&wf::data(x.sid, b"", true));
                } else {
                    t.peer_response(x.sid, "200", true);
                }
            }
            if let Some(ss) = x.ss.as_mut() {
                if !x.sent_eos && !x.reset {
                    let _ = guarded(&mut panics, "send_data", || ss.send_data(Bytes::new(), true));
                    x.sent_eos = true;
                }
            }
            if self.blocked && !peer_rst(t, x.sid) && t.rst_sent(x.sid).is_empty() {
                // the peer lets the rest of the request body through
                t.peer_send(&wf::window_update(x.sid, 1000));
            }
        }
        t.drive(300);
        // 2. the application lets go of every stream handle
        for x in w.reqs.iter_mut() {
            safe_drop(&mut panics, "ResponseFuture", x.rf.take());
            safe_drop(&mut panics, "SendStream", x.ss.take());
            safe_drop(&mut panics, "RecvStream", x.body.take());
        }
        t.drive(300);
        if self.expire_now {
            std::thread::sleep(std::time::Duration::from_micros(30));
            t.conn_flag.wake_by_ref_pub();
            t.drive(300);
        }
        t.catch_up();
        t.panics.extend(panics.drain(..));
        if !t.panics.is_empty() {
            return v;
        }
        // 3. what does the connection still remember?
        if let Conn::Client(c) = &t.conn {
            let s = c.verif_snapshot();
            leak_checks(&s, self.expire_now, w.reqs.len(), &mut v);
        }
        // 4. the last request handle goes: GOAWAY(NO_ERROR), transport shutdown, Ok(()) - and the connection was woken to do it
        while let Some(h) = w.clones.pop() {
            safe_drop(&mut panics, "SendRequest", h);
        }
        let woken = t.conn_flag.is_set();
        t.drive(300);
        t.catch_up();
        t.panics.extend(panics);
        if !t.panics.is_empty() {
            return v;
        }
        match &t.conn_result {
            Some(r) if r == "ok" => {
                if !matches!(t.goaway_sent(), Some((_, 0))) {
                    v.push(("C19.idle-close".into(), "no-goaway".into(), format!("the idle client connection completed without GOAWAY(NO_ERROR): last GOAWAY {:?}", t.goaway_sent())));
                }
                let shut = t.mon.events.iter().any(|e| matches!(e, crate::monitor::WireEv::Shutdown(s) if *s == t.role));
                if !shut {
                    v.push(("C19.idle-close".into(), "no-shutdown".into(), "the idle client connection completed without shutting the transport down".into()));
                }
            }
            other => {
                let already_failed = t.mon.frames.iter().any(|f| f.raw.ty == wf::ty::GOAWAY);
                if !already_failed {
                    v.push((
                        "C19.idle-close".into(),
                        if woken { "not-closed".into() } else { "not-woken".into() },
                        format!("the last SendRequest and the last stream are gone, but the connection future has not completed successfully (result {:?}, connection task woken: {})", other, woken),
                    ));
                }
            }
        }
        v
    }
    fn digest_extra(&self, t: &T2, w: &World) -> String {
        let mut s = format!("clones={}", w.clones.len());
        for x in &w.reqs {
            s.push_str(&format!("|{}:rf={} ss={} body={} eos={} reset={} peer={:?}", x.sid, x.rf.is_some(), x.ss.is_some(), x.body.is_some(), x.sent_eos, x.reset, peer_frames(t, x.sid).iter().map(|f| (f.raw.ty, f.raw.flags & 1)).collect::<Vec<_>>()));
        }
        s
    }
    fn teardown(&self, mut t: T2, w: World) -> Vec<String> {
        let mut panics = std::mem::take(&mut t.panics);
        for x in w.reqs {
            safe_drop(&mut panics, "ResponseFuture", x.rf);
            safe_drop(&mut panics, "SendStream", x.ss);
            safe_drop(&mut panics, "RecvStream", x.body);
        }
        for c in w.clones {
            safe_drop(&mut panics, "SendRequest", c);
        }
        t.panics = panics;
        t.finish()
    }
    fn counters(&self, _t: &T2, w: &World) -> Vec<(&'static str, u64)> {
        vec![("streams_created", w.reqs.len() as u64), ("client_resets", w.resets)]
    }
}

// ---------------------------------------------------------------------------------------------
// server side

#[derive(Clone, Debug)]
pub enum SEv {
    PeerOpen(bool),
    PeerData(usize),
    PeerEnd(usize),
    PeerRst(usize),
    Respond(usize, bool),
    SendEos(usize),
    ServerReset(usize),
    Push(usize),
    ReadAll(usize),
    DropBody(usize),
    DropRespond(usize),
    DropSend(usize),
    /// SETTINGS with ENABLE_PUSH = 0 (once): promises whose PUSH_PROMISE is still queued are cancelled
    PeerDisablePush,
    Drive,
    TimePasses,
}

pub struct SWorld {
    pub opened: Vec<u32>,
    pub pushed: Vec<h2::SendStream<Bytes>>,
    pub resets: u64,
    pub pushes: u64,
    pub push_disabled: bool,
}

pub struct ServerLife {
    pub events: Vec<SEv>,
    pub name: &'static str,
    pub expire_now: bool,
    /// the peer advertises a stream window of 2 (the 4 octets that end a response do not fit)
    pub blocked: bool,
}

impl ServerLife {
    pub fn new(name: &'static str, quick: bool, expire_now: bool) -> ServerLife {
        Self::new_variant(name, quick, expire_now, false)
    }
    pub fn new_variant(name: &'static str, quick: bool, expire_now: bool, blocked: bool) -> ServerLife {
        let mut ev = vec![SEv::PeerOpen(true), SEv::PeerOpen(false)];
        for k in 0..2 {
            if !quick {
                ev.push(SEv::PeerData(k));
            }
            ev.push(SEv::PeerEnd(k));
            ev.push(SEv::PeerRst(k));
            ev.push(SEv::Respond(k, true));
            ev.push(SEv::Respond(k, false));
            ev.push(SEv::SendEos(k));
            ev.push(SEv::ServerReset(k));
            if k == 0 {
                ev.push(SEv::Push(k));
            }
            ev.push(SEv::ReadAll(k));
            ev.push(SEv::DropBody(k));
            ev.push(SEv::DropRespond(k));
            ev.push(SEv::DropSend(k));
        }
        ev.push(SEv::PeerDisablePush);
        ev.push(SEv::Drive);
        if expire_now {
            ev.push(SEv::TimePasses);
        }
        ServerLife { events: ev, name, expire_now, blocked }
    }
}

impl Model for ServerLife {
    type World = SWorld;
    fn name(&self) -> &'static str {
        self.name
    }
    fn cfg(&self) -> T2Cfg {
        let mut sb = h2::server::Builder::new();
        sb.reset_stream_duration(if self.expire_now { std::time::Duration::from_secs(0) } else { std::time::Duration::from_secs(3600) });
        sb.max_concurrent_reset_streams(2);
        sb.initial_window_size(6);
        let peer_settings = if self.blocked { vec![(wf::setting::INITIAL_WINDOW_SIZE, 2)] } else { vec![] };
        T2Cfg { role: Side::Server, peer_settings, client: None, server: Some(sb), policy: IoPolicy::default() }
    }
    fn init(&self, _t: &mut T2) -> SWorld {
        SWorld { opened: vec![], pushed: vec![], resets: 0, pushes: 0, push_disabled: false }
    }
    fn n_events(&self) -> usize {
        self.events.len()
    }
    fn event_name(&self, e: usize) -> String {
        format!("{:?}", self.events[e])
    }
    fn enabled(&self, t: &T2, w: &SWorld, e: usize) -> bool {
        if !t.conn_alive() {
            return false;
        }
        let acc = |k: usize| w.opened.get(k).and_then(|sid| t.accepted.iter().find(|a| a.sid == *sid));
        let peer_open = |k: usize| w.opened.get(k).map(|&sid| !peer_closed(t, sid) && t.rst_sent(sid).is_empty()).unwrap_or(false);
        match &self.events[e] {
            SEv::PeerOpen(_) => w.opened.len() < 2,
            SEv::PeerData(k) => peer_open(*k) && peer_frames(t, w.opened[*k]).iter().filter(|f| f.raw.ty == wf::ty::DATA).count() < 1,
            SEv::PeerEnd(k) => peer_open(*k),
            // also after the peer's END_STREAM and across a reset of ours (the frames cross), never twice
            SEv::PeerRst(k) => w.opened.get(*k).map(|&sid| !peer_rst(t, sid)).unwrap_or(false),
            SEv::Respond(k, _) | SEv::ServerReset(k) | SEv::DropRespond(k) | SEv::Push(k) => acc(*k).map(|a| a.respond.is_some()).unwrap_or(false) && (!matches!(self.events[e], SEv::Push(_)) || w.pushes < 1),
            SEv::SendEos(k) | SEv::DropSend(k) => acc(*k).map(|a| a.send.is_some()).unwrap_or(false),
            SEv::ReadAll(k) | SEv::DropBody(k) => acc(*k).map(|a| a.body.is_some()).unwrap_or(false),
            SEv::PeerDisablePush => !w.push_disabled,
            SEv::Drive | SEv::TimePasses => true,
        }
    }
    fn apply(&self, t: &mut T2, w: &mut SWorld, e: usize) {
        let mut panics = vec![];
        let flag = Flag::new(false);
        let wk = waker_of(&flag);
        let mut cx = Context::from_waker(&wk);
        let sid_of = |w: &SWorld, k: usize| w.opened[k];
        match self.events[e].clone() {
            SEv::PeerOpen(eos) => {
                let sid = 1 + 2 * w.opened.len() as u32;
                t.peer_request(sid, "/s", eos);
                w.opened.push(sid);
            }
            SEv::PeerData(k) => t.peer_send(&wf::data(sid_of(w, k), b"body", false)),
            SEv::PeerEnd(k) => t.peer_send(&wf::data(sid_of(w, k), b"end!", true)),
            SEv::PeerRst(k) => t.peer_send(&wf::rst_stream(sid_of(w, k), 8)),
            SEv::Respond(k, eos) => {
                let sid = sid_of(w, k);
                if let Some(a) = t.accepted.iter_mut().find(|a| a.sid == sid) {
                    if let Some(mut r) = a.respond.take() {
                        match guarded(&mut panics, "send_response", || r.send_response(simple_response(200), eos)) {
                            Some(Ok(ss)) => {
                                if eos {
                                    safe_drop(&mut panics, "SendStream", Some(ss));
                                } else {
                                    a.send = Some(ss);
                                }
                            }
                            _ => {}
                        }
                    }
                }
            }
            SEv::SendEos(k) => {
                let sid = sid_of(w, k);
                if let Some(a) = t.accepted.iter_mut().find(|a| a.sid == sid) {
                    if let Some(mut ss) = a.send.take() {
                        let _ = guarded(&mut panics, "send_data", || ss.send_data(Bytes::from_static(b"done"), true));
                        safe_drop(&mut panics, "SendStream", Some(ss));
                    }
                }
            }
            SEv::ServerReset(k) => {
                let sid = sid_of(w, k);
                if let Some(a) = t.accepted.iter_mut().find(|a| a.sid == sid) {
                    if let Some(mut r) = a.respond.take() {
                        guarded(&mut panics, "send_reset", || r.send_reset(h2::Reason::CANCEL));
                        w.resets += 1;
                    }
                }
            }
            SEv::Push(k) => {
                let sid = sid_of(w, k);
                if let Some(a) = t.accepted.iter_mut().find(|a| a.sid == sid) {
                    if let Some(r) = a.respond.as_mut() {
                        if let Some(Ok(mut p)) = guarded(&mut panics, "push_request", || r.push_request(simple_request("/pushed", false))) {
                            if let Some(Ok(ss)) = guarded(&mut panics, "pushed send_response", || p.send_response(simple_response(200), false)) {
                                w.pushed.push(ss);
                            }
                            w.pushes += 1;
                        }
                    }
                }
            }
            SEv::ReadAll(k) => {
                let sid = sid_of(w, k);
                if let Some(b) = t.accepted.iter_mut().find(|a| a.sid == sid).and_then(|a| a.body.as_mut()) {
                    for _ in 0..8 {
                        match guarded(&mut panics, "poll_data", || b.poll_data(&mut cx)) {
                            Some(Poll::Ready(Some(Ok(d)))) => {
                                let _ = b.flow_control().release_capacity(d.len());
                            }
                            _ => break,
                        }
                    }
                }
            }
            SEv::DropBody(k) => {
                let sid = sid_of(w, k);
                if let Some(a) = t.accepted.iter_mut().find(|a| a.sid == sid) {
                    safe_drop(&mut panics, "RecvStream", a.body.take());
                }
            }
            SEv::DropRespond(k) => {
                let sid = sid_of(w, k);
                if let Some(a) = t.accepted.iter_mut().find(|a| a.sid == sid) {
                    safe_drop(&mut panics, "SendResponse", a.respond.take());
                }
            }
            SEv::DropSend(k) => {
                let sid = sid_of(w, k);
                if let Some(a) = t.accepted.iter_mut().find(|a| a.sid == sid) {
                    safe_drop(&mut panics, "SendStream", a.send.take());
                }
            }
            SEv::PeerDisablePush => {
                t.peer_send(&wf::settings(&[(wf::setting::ENABLE_PUSH, 0)]));
                w.push_disabled = true;
            }
            SEv::Drive => {
                t.drive(200);
            }
            SEv::TimePasses => {
                std::thread::sleep(std::time::Duration::from_micros(30));
                t.conn_flag.wake_by_ref_pub();
                t.drive(200);
            }
        }
        t.panics.extend(panics);
        t.catch_up();
    }
    fn invariant(&self, _t: &mut T2, _w: &mut SWorld) -> V3 {
        vec![]
    }
    fn epilogue(&self, t: &mut T2, w: &mut SWorld) -> V3 {
        let mut v = vec![];
        let mut panics = vec![];
        if !t.conn_alive() {
            return v;
        }
        t.drive(300);
        // 1. every stream finishes: the peer ends what it has not ended, the application answers what it has not answered
        for &sid in &w.opened {
            if !peer_closed(t, sid) && t.rst_sent(sid).is_empty() {
                t.peer_send(&wf::data(sid, b"", true));
            }
        }
        t.drive(300);
        for a in t.accepted.iter_mut() {
            if let Some(mut r) = a.respond.take() {
                let _ = guarded(&mut panics, "send_response", || r.send_response(simple_response(200), true).map(drop));
            }
            if let Some(mut ss) = a.send.take() {
                let _ = guarded(&mut panics, "send_data", || ss.send_data(Bytes::new(), true));
                safe_drop(&mut panics, "SendStream", Some(ss));
            }
        }
        for mut ss in w.pushed.drain(..) {
            let _ = guarded(&mut panics, "pushed send_data", || ss.send_data(Bytes::new(), true));
            safe_drop(&mut panics, "SendStream", Some(ss));
        }
        if self.blocked {
            for &sid in &w.opened {
                if !peer_rst(t, sid) && t.rst_sent(sid).is_empty() {
                    t.peer_send(&wf::window_update(sid, 1000));
                }
            }
        }
        t.drive(300);
        // 2. the application lets go of everything
        for a in t.accepted.iter_mut() {
            safe_drop(&mut panics, "RecvStream", a.body.take());
            safe_drop(&mut panics, "SendResponse", a.respond.take());
            safe_drop(&mut panics, "SendStream", a.send.take());
        }
        t.drive(300);
        if self.expire_now {
            std::thread::sleep(std::time::Duration::from_micros(30));
            t.conn_flag.wake_by_ref_pub();
            t.drive(300);
        }
        t.catch_up();
        t.panics.extend(panics);
        if !t.panics.is_empty() || !t.conn_alive() || t.goaway_sent().is_some() {
            return v;
        }
        if let Conn::Server(c) = &t.conn {
            let s = c.verif_snapshot();
            leak_checks(&s, self.expire_now, w.opened.len() + w.pushes as usize, &mut v);
        }
        v
    }
    fn digest_extra(&self, t: &T2, w: &SWorld) -> String {
        let mut s = format!("pushed={} pushes={} nopush={}", w.pushed.len(), w.pushes, w.push_disabled);
        for &sid in &w.opened {
            let a = t.accepted.iter().find(|a| a.sid == sid);
            s.push_str(&format!("|{}:acc={} body={} resp={} send={} peer={:?} rst={:?}", sid, a.is_some(), a.map(|a| a.body.is_some()).unwrap_or(false), a.map(|a| a.respond.is_some()).unwrap_or(false), a.map(|a| a.send.is_some()).unwrap_or(false), peer_frames(t, sid).iter().map(|f| (f.raw.ty, f.raw.flags & 1)).collect::<Vec<_>>(), t.rst_sent(sid)));
        }
        s
    }
    fn teardown(&self, mut t: T2, w: SWorld) -> Vec<String> {
        let mut panics = std::mem::take(&mut t.panics);
        for ss in w.pushed {
            safe_drop(&mut panics, "SendStream", Some(ss));
        }
        t.panics = panics;
        t.finish()
    }
    fn counters(&self, _t: &T2, w: &SWorld) -> Vec<(&'static str, u64)> {
        vec![("server_streams", w.opened.len() as u64), ("server_resets", w.resets), ("pushes", w.pushes)]
    }
}

// ---------------------------------------------------------------------------------------------
// client side with server push: promised streams the application polls, ignores, or abandons with their parent

#[derive(Clone, Debug)]
pub enum PEv {
    /// PUSH_PROMISE on the request stream (promised stream 2, then 4)
    PeerPromise,
    /// response head on promised stream j (END_STREAM or not)
    PeerPushHead(usize, bool),
    /// 4 octets + END_STREAM on promised stream j
    PeerPushData(usize),
    PeerPushRst(usize),
    /// response to the request itself, with END_STREAM
    PeerRespondEos,
    PollResponse,
    /// take the PushPromises handle of the response future
    TakePromises,
    PollPromise,
    DropPromises,
    PollPushed(usize),
    ReadPushed(usize),
    DropPushedFuture(usize),
    DropPushedBody(usize),
    DropRf,
    DropBody,
    Drive,
}

pub struct PushedH {
    pub sid: u32,
    pub prf: Option<client::PushedResponseFuture>,
    pub body: Option<RecvStream>,
    pub got_response: bool,
}

pub struct PWorld {
    pub sr: Option<client::SendRequest<Bytes>>,
    pub sid: u32,
    pub rf: Option<client::ResponseFuture>,
    pub body: Option<RecvStream>,
    pub pp: Option<client::PushPromises>,
    pub pushed: Vec<PushedH>,
    /// promised ids in the order the peer announced them
    pub promised: Vec<u32>,
    pub taken: u64,
}

pub struct PushLife {
    pub events: Vec<PEv>,
    pub name: &'static str,
    /// SETTINGS_MAX_CONCURRENT_STREAMS the client advertises (it limits the streams the server may push)
    pub limit: Option<u32>,
}

impl PushLife {
    pub fn new(name: &'static str, quick: bool) -> PushLife {
        Self::new_variant(name, if quick { 1 } else { 2 }, None)
    }
    pub fn new_variant(name: &'static str, n: usize, limit: Option<u32>) -> PushLife {
        let mut ev = vec![PEv::PeerPromise, PEv::PeerRespondEos, PEv::PollResponse, PEv::TakePromises, PEv::PollPromise, PEv::DropPromises, PEv::DropRf, PEv::DropBody];
        for j in 0..n {
            ev.push(PEv::PeerPushHead(j, true));
            ev.push(PEv::PeerPushHead(j, false));
            ev.push(PEv::PeerPushData(j));
            ev.push(PEv::PeerPushRst(j));
            ev.push(PEv::PollPushed(j));
            ev.push(PEv::ReadPushed(j));
            ev.push(PEv::DropPushedFuture(j));
            ev.push(PEv::DropPushedBody(j));
        }
        ev.push(PEv::Drive);
        PushLife { events: ev, name, limit }
    }
    fn max_promises(&self) -> usize {
        self.events.iter().filter(|e| matches!(e, PEv::PeerPushRst(_))).count()
    }
}

fn peer_headers_on(t: &T2, sid: u32) -> bool {
    t.mon.frames.iter().any(|f| f.sender != t.role && f.raw.stream() == sid && f.raw.ty == wf::ty::HEADERS)
}

impl Model for PushLife {
    type World = PWorld;
    fn name(&self) -> &'static str {
        self.name
    }
    fn cfg(&self) -> T2Cfg {
        let mut cb = client::Builder::new();
        cb.enable_push(true);
        if let Some(l) = self.limit {
            cb.max_concurrent_streams(l);
        }
        cb.reset_stream_duration(std::time::Duration::from_secs(3600));
        cb.max_concurrent_reset_streams(2);
        cb.initial_window_size(6);
        T2Cfg { role: Side::Client, peer_settings: vec![], client: Some(cb), server: None, policy: IoPolicy::default() }
    }
    fn init(&self, t: &mut T2) -> PWorld {
        let mut sr = t.send_request.take().unwrap();
        let flag = Flag::new(false);
        let wk = waker_of(&flag);
        let mut cx = Context::from_waker(&wk);
        let _ = sr.poll_ready(&mut cx);
        let (rf, ss) = sr.send_request(simple_request("/p", false), true).expect("send_request");
        drop(ss);
        let sid = rf.stream_id().as_u32();
        t.drive(50);
        PWorld { sr: Some(sr), sid, rf: Some(rf), body: None, pp: None, pushed: vec![], promised: vec![], taken: 0 }
    }
    fn n_events(&self) -> usize {
        self.events.len()
    }
    fn event_name(&self, e: usize) -> String {
        format!("{:?}", self.events[e])
    }
    fn enabled(&self, t: &T2, w: &PWorld, e: usize) -> bool {
        if !t.conn_alive() {
            return false;
        }
        let parent_open_for_peer = !peer_closed(t, w.sid) && t.rst_sent(w.sid).is_empty();
        let psid = |j: usize| w.promised.get(j).copied();
        let h = |j: usize| psid(j).and_then(|s| w.pushed.iter().find(|p| p.sid == s));
        match &self.events[e] {
            PEv::PeerPromise => parent_open_for_peer && w.promised.len() < self.max_promises(),
            PEv::PeerRespondEos => parent_open_for_peer,
            PEv::PeerPushHead(j, _) => psid(*j).map(|s| !peer_headers_on(t, s) && !peer_closed(t, s) && t.rst_sent(s).is_empty()).unwrap_or(false),
            PEv::PeerPushData(j) => psid(*j).map(|s| peer_headers_on(t, s) && !peer_closed(t, s) && t.rst_sent(s).is_empty()).unwrap_or(false),
            PEv::PeerPushRst(j) => psid(*j).map(|s| !peer_rst(t, s)).unwrap_or(false),
            PEv::PollResponse | PEv::DropRf => w.rf.is_some(),
            PEv::TakePromises => w.rf.is_some() && w.pp.is_none() && w.taken < 1,
            PEv::PollPromise | PEv::DropPromises => w.pp.is_some(),
            PEv::PollPushed(j) | PEv::DropPushedFuture(j) => h(*j).map(|p| p.prf.is_some()).unwrap_or(false),
            PEv::ReadPushed(j) | PEv::DropPushedBody(j) => h(*j).map(|p| p.body.is_some()).unwrap_or(false),
            PEv::DropBody => w.body.is_some(),
            PEv::Drive => true,
        }
    }
    fn apply(&self, t: &mut T2, w: &mut PWorld, e: usize) {
        let mut panics = vec![];
        let flag = Flag::new(false);
        let wk = waker_of(&flag);
        let mut cx = Context::from_waker(&wk);
        let psid = |w: &PWorld, j: usize| w.promised[j];
        match self.events[e].clone() {
            PEv::PeerPromise => {
                let promised = 2 + 2 * w.promised.len() as u32;
                let b = T2::block(&[(":method", "GET"), (":scheme", "http"), (":authority", "h.example"), (":path", "/pushed")]);
                t.peer_send(&wf::push_promise(w.sid, promised, &b, true));
                w.promised.push(promised);
            }
            PEv::PeerRespondEos => t.peer_response(w.sid, "200", true),
            PEv::PeerPushHead(j, eos) => {
                let s = psid(w, j);
                t.peer_response(s, "200", eos);
            }
            PEv::PeerPushData(j) => {
                let s = psid(w, j);
                t.peer_send(&wf::data(s, b"push", true));
            }
            PEv::PeerPushRst(j) => {
                let s = psid(w, j);
                t.peer_send(&wf::rst_stream(s, 8));
            }
            PEv::PollResponse => {
                let rf = w.rf.as_mut().unwrap();
                match guarded(&mut panics, "poll response", || Pin::new(rf).poll(&mut cx)) {
                    Some(Poll::Ready(Ok(resp))) => {
                        w.body = Some(resp.into_body());
                        safe_drop(&mut panics, "ResponseFuture", w.rf.take());
                    }
                    Some(Poll::Ready(Err(_))) => safe_drop(&mut panics, "ResponseFuture", w.rf.take()),
                    _ => {}
                }
            }
            PEv::TakePromises => {
                if let Some(pp) = guarded(&mut panics, "push_promises", || w.rf.as_mut().unwrap().push_promises()) {
                    w.pp = Some(pp);
                    w.taken += 1;
                }
            }
            PEv::PollPromise => {
                let pp = w.pp.as_mut().unwrap();
                match guarded(&mut panics, "poll_push_promise", || pp.poll_push_promise(&mut cx)) {
                    Some(Poll::Ready(Some(Ok(p)))) => {
                        let (_req, prf) = p.into_parts();
                        let sid = prf.stream_id().as_u32();
                        w.pushed.push(PushedH { sid, prf: Some(prf), body: None, got_response: false });
                    }
                    Some(Poll::Ready(_)) => safe_drop(&mut panics, "PushPromises", w.pp.take()),
                    _ => {}
                }
            }
            PEv::DropPromises => safe_drop(&mut panics, "PushPromises", w.pp.take()),
            PEv::PollPushed(j) => {
                let s = psid(w, j);
                if let Some(p) = w.pushed.iter_mut().find(|p| p.sid == s) {
                    let prf = p.prf.as_mut().unwrap();
                    match guarded(&mut panics, "poll pushed response", || Pin::new(prf).poll(&mut cx)) {
                        Some(Poll::Ready(Ok(resp))) => {
                            p.body = Some(resp.into_body());
                            p.got_response = true;
                            safe_drop(&mut panics, "PushedResponseFuture", p.prf.take());
                        }
                        Some(Poll::Ready(Err(_))) => safe_drop(&mut panics, "PushedResponseFuture", p.prf.take()),
                        _ => {}
                    }
                }
            }
            PEv::ReadPushed(j) => {
                let s = psid(w, j);
                if let Some(b) = w.pushed.iter_mut().find(|p| p.sid == s).and_then(|p| p.body.as_mut()) {
                    for _ in 0..8 {
                        match guarded(&mut panics, "poll_data", || b.poll_data(&mut cx)) {
                            Some(Poll::Ready(Some(Ok(d)))) => {
                                let _ = b.flow_control().release_capacity(d.len());
                            }
                            _ => break,
                        }
                    }
                }
            }
            PEv::DropPushedFuture(j) => {
                let s = psid(w, j);
                if let Some(p) = w.pushed.iter_mut().find(|p| p.sid == s) {
                    safe_drop(&mut panics, "PushedResponseFuture", p.prf.take());
                }
            }
            PEv::DropPushedBody(j) => {
                let s = psid(w, j);
                if let Some(p) = w.pushed.iter_mut().find(|p| p.sid == s) {
                    safe_drop(&mut panics, "RecvStream", p.body.take());
                }
            }
            PEv::DropRf => safe_drop(&mut panics, "ResponseFuture", w.rf.take()),
            PEv::DropBody => safe_drop(&mut panics, "RecvStream", w.body.take()),
            PEv::Drive => {
                t.drive(200);
            }
        }
        t.panics.extend(panics);
        t.catch_up();
    }
    fn invariant(&self, t: &mut T2, w: &mut PWorld) -> V3 {
        let mut v = vec![];
        if let Some(limit) = self.limit {
            // pushed streams whose response the application has been handed and that are still open (not ended, not reset by
            // either side)
            let active = w
                .pushed
                .iter()
                .filter(|p| p.got_response && p.body.is_some())
                .filter(|p| !peer_closed(t, p.sid) && t.rst_sent(p.sid).is_empty())
                .count();
            if active > limit as usize {
                v.push(("C05.too-many-streams-surfaced".to_string(), "push".into(), format!("the application holds {} open pushed streams, the client advertised SETTINGS_MAX_CONCURRENT_STREAMS = {}", active, limit)));
            }
            // (the promise itself may have been announced before the stream turned out to be one too many: a reserved stream
            // is not an active one; what must not happen is that the refused stream's response is delivered)
            for p in &w.pushed {
                if t.rst_sent(p.sid).contains(&7) && p.got_response {
                    v.push(("C05.refused-stream-surfaced".into(), "push".into(), format!("promised stream {} was refused with REFUSED_STREAM, yet its response was delivered to the application", p.sid)));
                }
            }
        }
        v
    }
    fn epilogue(&self, t: &mut T2, w: &mut PWorld) -> V3 {
        let mut v = vec![];
        let mut panics = vec![];
        if !t.conn_alive() {
            return v;
        }
        t.drive(300);
        // 1. the peer finishes whatever it has not finished: the response, every promised stream
        if !peer_closed(t, w.sid) && t.rst_sent(w.sid).is_empty() {
            t.peer_response(w.sid, "200", true);
        }
        for &s in &w.promised.clone() {
            if !peer_closed(t, s) && t.rst_sent(s).is_empty() {
                if peer_headers_on(t, s) {
                    t.peer_send(&wf::data(s, b"", true));
                } else {
                    t.peer_response(s, "200", true);
                }
            }
        }
        t.drive(300);
        // 2. the application lets go of everything that belongs to a stream
        safe_drop(&mut panics, "PushPromises", w.pp.take());
        safe_drop(&mut panics, "ResponseFuture", w.rf.take());
        safe_drop(&mut panics, "RecvStream", w.body.take());
        for p in w.pushed.iter_mut() {
            safe_drop(&mut panics, "PushedResponseFuture", p.prf.take());
            safe_drop(&mut panics, "RecvStream", p.body.take());
        }
        t.drive(300);
        t.catch_up();
        t.panics.extend(panics.drain(..));
        if !t.panics.is_empty() || !t.conn_alive() {
            return v;
        }
        if t.goaway_sent().is_some() {
            return v;
        }
        if let Conn::Client(c) = &t.conn {
            let s = c.verif_snapshot();
            leak_checks(&s, false, 1 + w.promised.len(), &mut v);
        }
        // 3. the last request handle goes
        safe_drop(&mut panics, "SendRequest", w.sr.take());
        let woken = t.conn_flag.is_set();
        t.drive(300);
        t.catch_up();
        t.panics.extend(panics);
        if !t.panics.is_empty() {
            return v;
        }
        if t.conn_result.as_deref() != Some("ok") {
            let already_failed = t.mon.frames.iter().any(|f| f.raw.ty == wf::ty::GOAWAY);
            if !already_failed {
                v.push(("C19.idle-close".into(), if woken { "not-closed".into() } else { "not-woken".into() }, format!("the last SendRequest and the last stream (incl. {} promised) are gone, but the connection future has not completed successfully (result {:?}, woken: {})", w.promised.len(), t.conn_result, woken)));
            }
        }
        v
    }
    fn digest_extra(&self, t: &T2, w: &PWorld) -> String {
        let mut s = format!("rf={} body={} pp={} taken={} promised={:?}", w.rf.is_some(), w.body.is_some(), w.pp.is_some(), w.taken, w.promised);
        for p in &w.pushed {
            s.push_str(&format!("|{}:prf={} body={}", p.sid, p.prf.is_some(), p.body.is_some()));
        }
        for sid in std::iter::once(w.sid).chain(w.promised.iter().copied()) {
            s.push_str(&format!("|{}:peer={:?} rst={:?}", sid, peer_frames(t, sid).iter().map(|f| (f.raw.ty, f.raw.flags & 1)).collect::<Vec<_>>(), t.rst_sent(sid)));
        }
        s
    }
    fn teardown(&self, mut t: T2, w: PWorld) -> Vec<String> {
        let mut panics = std::mem::take(&mut t.panics);
        safe_drop(&mut panics, "PushPromises", w.pp);
        safe_drop(&mut panics, "ResponseFuture", w.rf);
        safe_drop(&mut panics, "RecvStream", w.body);
        for p in w.pushed {
            safe_drop(&mut panics, "PushedResponseFuture", p.prf);
            safe_drop(&mut panics, "RecvStream", p.body);
        }
        safe_drop(&mut panics, "SendRequest", w.sr);
        t.panics = panics;
        t.finish()
    }
    fn counters(&self, _t: &T2, w: &PWorld) -> Vec<(&'static str, u64)> {
        vec![("streams_promised", w.promised.len() as u64), ("promises_taken_by_app", w.pushed.len() as u64)]
    }
}

// ---------------------------------------------------------------------------------------------
// T1 half: real client <-> real server under every schedule / chunking with <= k deviations; at quiescence both stream stores
// are read through the snapshot hook, then the client's last request handle goes

use crate::c01::{run_t1_property, full_policy, T1Harness};
use crate::scen::{Cancel, Cfg, EndKind, MsgSpec, RecvMode, Scenario, StreamSpec, T1};

pub fn c19_t1_scenarios(quick: bool) -> Vec<Scenario> {
    let m = |c: &[usize]| MsgSpec::simple(c);
    let mk = |name: &str, cfg: Cfg, streams: Vec<StreamSpec>| Scenario { name: name.to_string(), cfg: Cfg { probe: true, ..cfg }, streams };
    let mut v = vec![
        mk("get-small", Cfg::default(), vec![StreamSpec::new(m(&[]), m(&[5]))]),
        mk("post-trailers", Cfg::default(), vec![StreamSpec::new(MsgSpec { end: EndKind::Trailers, ..m(&[3, 4]) }, MsgSpec { end: EndKind::Trailers, ..m(&[7]) })]),
        mk("client-reset", Cfg::default(), vec![StreamSpec { cancel: Cancel::ClientReset { after_chunks: 1, code: 8 }, ..StreamSpec::new(m(&[5, 5]), m(&[4])) }, StreamSpec::new(m(&[2]), m(&[2]))]),
        mk("client-reset-expire-now", Cfg { reset_expire_now: true, ..Cfg::default() }, vec![StreamSpec { cancel: Cancel::ClientReset { after_chunks: 1, code: 8 }, ..StreamSpec::new(m(&[5, 5]), m(&[4])) }]),
        mk("server-reset", Cfg::default(), vec![StreamSpec { cancel: Cancel::ServerReset { after_chunks: 1, code: 2 }, ..StreamSpec::new(m(&[3]), m(&[5, 5])) }]),
        mk("client-drop", Cfg::default(), vec![StreamSpec { cancel: Cancel::ClientDrop { after_chunks: 0 }, ..StreamSpec::new(m(&[5, 5]), m(&[4])) }, StreamSpec::new(m(&[2]), m(&[2]))]),
        mk("server-drop", Cfg::default(), vec![StreamSpec { cancel: Cancel::ServerDrop, ..StreamSpec::new(m(&[5]), m(&[5])) }]),
        mk("early-response-blocked", Cfg { c_stream_window: Some(7), s_stream_window: Some(7), ..Cfg::default() }, vec![StreamSpec { cancel: Cancel::ServerEarlyResponse, c_recv: RecvMode::Late, ..StreamSpec::new(m(&[5, 5]), m(&[20])) }]),
        mk("push", Cfg::default(), vec![StreamSpec { push: Some(m(&[6])), ..StreamSpec::new(m(&[]), m(&[2])) }]),
        mk("push-client-drop", Cfg::default(), vec![StreamSpec { push: Some(m(&[6])), cancel: Cancel::ClientDrop { after_chunks: 0 }, ..StreamSpec::new(m(&[3]), m(&[2])) }]),
        mk("window7-late", Cfg { c_stream_window: Some(7), s_stream_window: Some(7), ..Cfg::default() }, vec![StreamSpec { c_recv: RecvMode::Late, s_recv: RecvMode::Late, ..StreamSpec::new(m(&[20]), m(&[20])) }]),
        mk("max-concurrent-1", Cfg { s_max_concurrent: Some(1), c_initial_max_send_streams: Some(1), ..Cfg::default() }, vec![StreamSpec::new(m(&[3]), m(&[3])), StreamSpec { cancel: Cancel::ClientReset { after_chunks: 0, code: 8 }, ..StreamSpec::new(m(&[4]), m(&[4])) }]),
    ];
    if !quick {
        v.push(mk("server-reset-expire-now", Cfg { reset_expire_now: true, ..Cfg::default() }, vec![StreamSpec { cancel: Cancel::ServerReset { after_chunks: 1, code: 2 }, ..StreamSpec::new(m(&[3]), m(&[5, 5])) }]));
        v.push(mk("body-20k", Cfg::default(), vec![StreamSpec::new(m(&[20_000]), m(&[20_000]))]));
    }
    v
}

fn judge_c19_t1(h: &T1Harness, t: &mut T1, end: RunEnd) -> V3 {
    let mut v: V3 = vec![];
    if end != RunEnd::Quiescent {
        return v; // livelock / horizon is C06's business
    }
    t.sh.lock().unwrap().chooser.recording = false;
    // every application task has finished? (a stuck task is C06's finding; what it still holds is not a leak)
    let stuck: Vec<String> = t.exec.tasks.iter().filter(|x| x.fut.is_some() && x.name != "connC" && x.name != "connS").map(|x| x.name.clone()).collect();
    if !stuck.is_empty() {
        return v;
    }
    // both connection tasks run once more so that their snapshots show the quiescent state (and expired resets are gone)
    if h.sc.cfg.reset_expire_now {
        std::thread::sleep(std::time::Duration::from_micros(30));
    }
    t.sh.lock().unwrap().want_snaps = true;
    t.mon.catch_up(&t.sh.lock().unwrap().iolog);
    let frames_before = t.mon.frames.len();
    for name in ["connC", "connS"] {
        if let Some(i) = t.exec.tasks.iter().position(|x| x.name == name && x.fut.is_some()) {
            t.exec.force_poll(i);
            t.exec.run(2000);
        }
    }
    // (the same lost-wake-up probe as at the end of the X2 epilogues: nothing was scheduled, so the forced polls write nothing)
    t.mon.catch_up(&t.sh.lock().unwrap().iolog);
    if t.mon.frames.len() > frames_before {
        let new: Vec<String> = t.mon.frames[frames_before..].iter().map(|f| format!("{} {}(stream {})", f.sender.name(), h2wire::frame::type_name(f.raw.ty), f.raw.stream())).collect();
        v.push(("C19.output-waits-for-forced-poll".into(), new.iter().map(|x| x.split('(').next().unwrap_or("").to_string()).collect::<Vec<_>>().join(","), format!("at quiescence nothing was scheduled, yet forced polls of the connections wrote {:?}", new)));
    }
    let (cs, ss) = {
        let s = t.sh.lock().unwrap();
        (s.snaps[0].clone(), s.snaps[1].clone())
    };
    let conn_ended = |t: &T1, side: Side| t.log.snapshot().iter().any(|r| r.side == side && r.k == usize::MAX && matches!(&r.ev, crate::scen::Ev::Err(e) if e.starts_with("conn:")));
    let n = h.sc.streams.iter().map(|s| 1 + s.push.is_some() as usize).sum::<usize>();
    // 10 = h2's default bound on remembered local resets
    for (side, snap) in [(Side::Client, cs), (Side::Server, ss)] {
        if conn_ended(t, side) {
            continue;
        }
        if let Some(s) = snap {
            let mut x: V3 = vec![];
            leak_checks_n(&s, h.sc.cfg.reset_expire_now, n, 10, &mut x);
            for (r, sig, what) in x {
                v.push((r, format!("{}:{}", side.name(), sig), format!("{} at quiescence: {}", side.name(), what)));
            }
        }
    }
    // the last request handle goes: GOAWAY(NO_ERROR), transport shut down, both connections complete successfully
    if conn_ended(t, Side::Client) || conn_ended(t, Side::Server) {
        return v;
    }
    let keeper = t.sh.lock().unwrap().keeper.take();
    drop(keeper);
    t.exec.run(5000);
    t.mon.catch_up(&t.sh.lock().unwrap().iolog);
    let log = t.log.snapshot();
    let result = |side: Side| log.iter().find_map(|r| if r.side == side && r.k == usize::MAX { if let crate::scen::Ev::Err(e) = &r.ev { if e.starts_with("conn:") { return Some(e.clone()); } } None } else { None });
    let goaway = t.mon.frames_of(Side::Client).find_map(|f| if let Ok(Parsed::GoAway { code, .. }) = &f.parsed { Some(*code) } else { None });
    match result(Side::Client).as_deref() {
        Some("conn: ok") => {
            if goaway != Some(0) {
                v.push(("C19.idle-close".into(), "no-goaway".into(), format!("the idle client connection completed without GOAWAY(NO_ERROR) (GOAWAY code seen: {:?})", goaway)));
            }
        }
        other => v.push(("C19.idle-close".into(), "not-closed".into(), format!("every stream has finished and the last SendRequest is dropped, but the client connection future has not completed successfully: {:?}", other))),
    }
    if let Some(r) = result(Side::Server) {
        if r != "conn: ok" {
            v.push(("C19.idle-close".into(), "server".into(), format!("after the client's idle close the server connection ended with {:?}", r)));
        }
    }
    v
}

pub fn run_t1_half(ctx: &Ctx) -> Outcome {
    let scs = c19_t1_scenarios(ctx.tier.is_quick());
    let mut out = run_t1_property(ctx, "C19", &scs, judge_c19_t1, if ctx.tier.is_quick() { 2 } else { 3 }, full_policy(), &[]);
    if let Some(hs) = out.coverage.get_mut("harnesses").and_then(|v| v.as_object_mut()) {
        if let Some(x) = hs.remove("t1-scenarios") {
            hs.insert("t1-scenarios (client <-> server, snapshot at quiescence, then idle close)".into(), x);
        }
    }
    // the generated scenario set (covering array over 13 dimensions + boundary families) with the same probe and judge, one
    // deviation (thorough: two)
    let mut gen: Vec<Scenario> = crate::gen::generated(if ctx.tier.is_quick() { 2 } else { 3 });
    gen.extend(crate::gen::boundary_scenarios(ctx.tier.is_quick()));
    for s in gen.iter_mut() {
        s.cfg.probe = true;
    }
    let mut g = run_t1_property(ctx, "C19", &gen, judge_c19_t1, if ctx.tier.is_quick() { 1 } else { 2 }, full_policy(), &[]);
    if let Some(hs) = g.coverage.get_mut("harnesses").and_then(|v| v.as_object_mut()) {
        if let Some(x) = hs.remove("t1-scenarios") {
            hs.insert("t1-generated-scenarios (same probe and judge)".into(), x);
        }
    }
    out.absorb(g);
    out
}

pub fn replay_t1(v: &serde_json::Value) -> bool {
    let mut scs = c19_t1_scenarios(false);
    let mut gen: Vec<Scenario> = crate::gen::generated(3);
    gen.extend(crate::gen::generated(2));
    gen.extend(crate::gen::boundary_scenarios(false));
    for s in gen.iter_mut() {
        s.cfg.probe = true;
    }
    scs.extend(gen);
    let name = v["scenario_name"].as_str().unwrap_or("");
    let mut v2 = v.clone();
    if let Some(i) = scs.iter().position(|s| s.name == name) {
        v2["scenario"] = json!(i);
    }
    crate::c01::replay(&v2, &scs, "C19", judge_c19_t1, full_policy())
}

pub fn run(ctx: &Ctx) -> Outcome {
    let mut out = Outcome::default();
    let quick = ctx.tier.is_quick();
    let budget = ctx.tier.budget_s() * 0.55; // the fractions below add up to 1.55: the X2 part ends at 0.85 of the tier budget, the rest is for the sweep and the T1 half
    let m1 = LifeModel::new(if quick { "life-remember-q" } else { "life-remember-t" }, quick, false);
    let m2 = LifeModel::new(if quick { "life-expire-q" } else { "life-expire-t" }, quick, true);
    // quick: explicit, machine-independent depth (the push model, much smaller, goes to 11)
    let maxd = if quick { 7 } else { 11 };
    let m3 = LifeModel::new_variant(if quick { "life-mid-q" } else { "life-mid-t" }, quick, false, true);
    let s1 = ServerLife::new(if quick { "server-life-remember-q" } else { "server-life-remember-t" }, quick, false);
    let s2 = ServerLife::new(if quick { "server-life-expire-q" } else { "server-life-expire-t" }, quick, true);
    let m4 = LifeModel::new_variant2(if quick { "life-blocked-q" } else { "life-blocked-t" }, quick, false, false, true);
    let s3 = ServerLife::new_variant(if quick { "server-life-blocked-q" } else { "server-life-blocked-t" }, quick, false, true);
    let r1 = search(ctx, &m1, "C19", maxd, budget * 0.2, true);
    let r2 = search(ctx, &m2, "C19", maxd, budget * 0.4, true);
    let r3 = search(ctx, &m3, "C19", maxd, budget * 0.55, true);
    let r4 = search(ctx, &s1, "C19", maxd, budget * 0.75, true);
    let r5 = search(ctx, &s2, "C19", maxd, budget * 0.95, true);
    let r6 = search(ctx, &m4, "C19", maxd, budget * 1.15, true);
    let r7 = search(ctx, &s3, "C19", maxd, budget * 1.35, true);
    let p1 = PushLife::new(if quick { "push-life-q" } else { "push-life-t" }, quick);
    let r8 = search(ctx, &p1, "C19", if quick { 11 } else { 16 }, budget * 1.55, true);
    fill_outcome(&mut out, &[(m1.name, &r1), (m2.name, &r2), (m3.name, &r3), (s1.name, &r4), (s2.name, &r5), (m4.name, &r6), (s3.name, &r7), (p1.name, &r8)]);
    out.set("exhaustive", json!(false));
    out.set("alphabet", json!(m2.events.iter().map(|e| format!("{:?}", e)).collect::<Vec<_>>()));
    out.set("rule", json!("X2 on T2 (real client, stream window 6, 2-3 streams, two SendRequest clones, reset memory 'never expires' / 'expires at once', and a third start state with an exchange complete on the wire but not yet read): request (with / without body), END_STREAM, peer response (END_STREAM or not), peer DATA END_STREAM, peer RST_STREAM, poll the response, read, client reset, drop of ResponseFuture / SendStream / RecvStream / a SendRequest clone in every order relative to connection polls, time passing. Epilogue from every new state: every stream is finished by both sides, every stream handle dropped, quiescence - then the snapshot hook must show no stream record beyond <= 2 remembered local resets (none once expired), both stream counters 0, empty receive / send buffers, no in-flight octets, the whole connection send window unassigned; then the last SendRequest is dropped: the connection task must have been woken, GOAWAY(NO_ERROR) on the wire, transport shut down, future Ok(()). Any panic ('dangling store key', Store/Counts drop assertions) is a violation. Server side (two more models): peer opens up to two streams (with / without body), DATA, END_STREAM, RST_STREAM; the application responds (END_STREAM or not), ends the body, resets, pushes, reads, drops RecvStream / SendResponse / SendStream in every order relative to connection polls; the same leak oracle after everything has finished"));
    out.add_sample(json!({"harness": format!("x2.{}", m1.name), "depth": 3, "choices": [1, 25, 4]}));
    let mut vs = VioSet::default();
    vs.merge(r1.agg.vios);
    vs.merge(r2.agg.vios);
    vs.merge(r3.agg.vios);
    vs.merge(r4.agg.vios);
    vs.merge(r5.agg.vios);
    vs.merge(r6.agg.vios);
    vs.merge(r7.agg.vios);
    vs.merge(r8.agg.vios);
    out.violations = vs.into_vec();
    out.guard_nonzero("client resets", out.coverage.get("mechanism_counters").and_then(|m| m.get("client_resets")).and_then(|v| v.as_u64()).unwrap_or(0));
    {
        let mut vs = VioSet::default();
        for x in std::mem::take(&mut out.violations) {
            vs.add(x);
        }
        crate::fill::sweep(&mut out, &mut vs, quick, "C19");
        out.violations = vs.into_vec();
    }
    let t1 = run_t1_half(ctx);
    out.absorb(t1);
    out
}

pub fn replay(v: &serde_json::Value) -> Option<bool> {
    let h = v["harness"].as_str().unwrap_or("");
    if h == "x2.push-life-limit1" {
        return Some(replay_model(&PushLife::new_variant("push-life-limit1", 2, Some(1)), v["property"].as_str().map(|p| if p == "C05" { "C05" } else { "C19" }).unwrap_or("C19"), v));
    }
    if h == "x2.push-life-q" {
        return Some(replay_model(&PushLife::new("push-life-q", true), "C19", v));
    }
    if h == "x2.push-life-t" {
        return Some(replay_model(&PushLife::new("push-life-t", false), "C19", v));
    }
    for quick in [true, false] {
        for (n, e, b) in [("server-life-remember", false, false), ("server-life-expire", true, false), ("server-life-blocked", false, true)] {
            let name: &'static str = Box::leak(format!("{}-{}", n, if quick { "q" } else { "t" }).into_boxed_str());
            if h == format!("x2.{}", name) {
                return Some(replay_model(&ServerLife::new_variant(name, quick, e, b), "C19", v));
            }
        }
    }
    for quick in [true, false] {
        for (n, e, mid, b) in [("life-remember", false, false, false), ("life-expire", true, false, false), ("life-mid", false, true, false), ("life-blocked", false, false, true)] {
            let name: &'static str = Box::leak(format!("{}-{}", n, if quick { "q" } else { "t" }).into_boxed_str());
            if h == format!("x2.{}", name) {
                return Some(replay_model(&LifeModel::new_variant2(name, quick, e, mid, b), "C19", v));
            }
        }
    }
    None
}
