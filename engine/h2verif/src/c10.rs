//! C10 — HPACK encoder and decoder stay in sync: decode(encode(h)) = h for every history.
//! X2 (explicit-state BFS over the real `hpack::Encoder`, cloned via the verif hook) + X3 (every CONTINUATION split limit).

use crate::c11::{h2_decode, h2_table_stats, H2Res};
use crate::common::*;
use crate::explore::Seen;
use bytes::{BufMut, Bytes, BytesMut};
use h2::verif::hpack::{BytesStr, Decoder, Encoder, Header};
use h2wire::frame as wf;
use h2wire::hpack::{Field, RefDecoder};
use http::{HeaderName, HeaderValue, Method, StatusCode};
use serde_json::{json, Value};
use std::sync::atomic::{AtomicBool, AtomicU64, Ordering};
use std::sync::Mutex;

// ---------------------------------------------------------------------------------------------
// alphabet

#[derive(Clone, Debug)]
pub struct Item {
    pub label: String,
    pub name: Vec<u8>,
    pub value: Vec<u8>,
    pub sensitive: bool,
}

fn item(label: &str, name: &str, value: &str) -> Item {
    Item { label: label.to_string(), name: name.as_bytes().to_vec(), value: value.as_bytes().to_vec(), sensitive: false }
}

fn to_header(it: &Item, name_elided: bool) -> Header<Option<HeaderName>> {
    let bs = |v: &[u8]| BytesStr::try_from(Bytes::copy_from_slice(v)).unwrap();
    match &it.name[..] {
        b":method" => Header::Method(Method::from_bytes(&it.value).unwrap()),
        b":path" => Header::Path(bs(&it.value)),
        b":scheme" => Header::Scheme(bs(&it.value)),
        b":authority" => Header::Authority(bs(&it.value)),
        b":status" => Header::Status(StatusCode::from_bytes(&it.value).unwrap()),
        n => {
            let mut v = HeaderValue::from_bytes(&it.value).unwrap();
            v.set_sensitive(it.sensitive);
            Header::Field { name: if name_elided { None } else { Some(HeaderName::from_bytes(n).unwrap()) }, value: v }
        }
    }
}

/// `hash & mask` bucket of a header name in h2's encoder table, read from the table's Debug text after one insert.
fn bucket_of(name: &str, cap_hint: usize) -> Option<(usize, usize)> {
    let mut e = Encoder::new(4096, cap_hint);
    let mut dst = BytesMut::new();
    e.encode(vec![to_header(&item("probe", name, "v"), false)], &mut dst);
    let d = format!("{:?}", e);
    let h = d.find("hash: HashValue(")?;
    let n: usize = d[h + 16..].chars().take_while(|c| c.is_ascii_digit()).collect::<String>().parse().ok()?;
    Some((n & 7, n & 15))
}

pub fn alphabet() -> Vec<Item> {
    let mut v = vec![
        item("method-get", ":method", "GET"),
        item("method-patch", ":method", "PATCH"),
        item("path-root", ":path", "/"),
        item("path-a", ":path", "/a"),
        item("status-404", ":status", "404"),
        item("status-418", ":status", "418"),
        item("xa1", "x-a", "1"),
        item("xa2", "x-a", "2"),
        item("xa-empty", "x-a", ""),
        item("content-length", "content-length", "5"),
        item("accept-enc-static", "accept-encoding", "gzip, deflate"),
        item("accept-enc-other", "accept-encoding", "br"),
        Item { sensitive: true, ..item("auth-sensitive", "authorization", "secret") },
        Item { sensitive: true, ..item("xa-sensitive", "x-a", "hidden") },
        item("big-100", "x-big", &"b".repeat(100)),
    ];
    // two more names that collide with "x-a" modulo 8 (one of them also modulo 16): forces displacement in the robin-hood index
    if let Some((b8, b16)) = bucket_of("x-a", 0) {
        let mut found8 = None;
        let mut found16 = None;
        for i in 0..2000 {
            let n = format!("x-c{}", i);
            if let Some((c8, c16)) = bucket_of(&n, 0) {
                if c8 == b8 && c16 != b16 && found8.is_none() {
                    found8 = Some(n.clone());
                }
                if c16 == b16 && found16.is_none() {
                    found16 = Some(n.clone());
                }
            }
            if found8.is_some() && found16.is_some() {
                break;
            }
        }
        if let Some(n) = found8 {
            v.push(item("collide8", &n, "8"));
        }
        if let Some(n) = found16 {
            v.push(item("collide16", &n, "16"));
        }
    }
    v
}

const UPDATES: [usize; 6] = [0, 40, 90, 130, 4096, 5000];

#[derive(Clone, Debug)]
pub enum Op {
    Block(Vec<usize>),
    Update(usize),
}

pub fn ops(n_items: usize, max_block: usize, updates: &[usize]) -> Vec<Op> {
    let mut v = vec![];
    for &u in updates {
        v.push(Op::Update(u));
    }
    let mut layer: Vec<Vec<usize>> = vec![vec![]];
    for _ in 0..max_block {
        let mut next = vec![];
        for p in &layer {
            for i in 0..n_items {
                let mut q = p.clone();
                q.push(i);
                next.push(q);
            }
        }
        for b in &next {
            v.push(Op::Block(b.clone()));
        }
        layer = next;
    }
    v
}

// ---------------------------------------------------------------------------------------------
// state

#[derive(Clone)]
pub struct St {
    enc: Encoder,
    dec: Decoder,
    rf: RefDecoder,
    /// smallest limit announced since the last block, and the last one
    pending_min: Option<usize>,
    last_limit: usize,
    history: Vec<u16>,
}

impl St {
    pub fn initial() -> St {
        St { enc: Encoder::new(4096, 0), dec: Decoder::new(4096), rf: RefDecoder::new(4096), pending_min: None, last_limit: 4096, history: vec![] }
    }
}

/// Debug text of the encoder with `Pos.index` / `Slot.next` normalised by `inserted` (behaviour depends on index + inserted only).
fn canon_encoder(e: &Encoder) -> String {
    let d = format!("{:?}", e);
    let inserted: usize = d.find("inserted: ").map(|p| d[p + 10..].chars().take_while(|c| c.is_ascii_digit()).collect::<String>().parse().unwrap_or(0)).unwrap_or(0);
    let mut out = String::with_capacity(d.len());
    let mut rest = &d[..];
    loop {
        let a = rest.find("index: ");
        let b = rest.find("next: Some(");
        let (pos, klen) = match (a, b) {
            (Some(a), Some(b)) if a < b => (a, 7),
            (Some(a), None) => (a, 7),
            (_, Some(b)) => (b, 11),
            (None, None) => break,
        };
        out.push_str(&rest[..pos + klen]);
        let digits: String = rest[pos + klen..].chars().take_while(|c| c.is_ascii_digit()).collect();
        let n: usize = digits.parse().unwrap_or(0);
        out.push_str(&n.wrapping_add(inserted).to_string());
        rest = &rest[pos + klen + digits.len()..];
    }
    out.push_str(rest);
    // the counter itself and the scratch buffer (capacity only) are not behaviour
    if let Some(p) = out.find("inserted: ") {
        let end = p + 10 + out[p + 10..].chars().take_while(|c| c.is_ascii_digit()).count();
        out.replace_range(p..end, "inserted: _");
    }
    out
}

fn digest(s: &St) -> u64 {
    let mut h = fnv64(canon_encoder(&s.enc).as_bytes());
    h ^= fnv64(format!("{:?}|{:?}|{}|{}|{:?}|{}", s.rf.table, s.rf.max_size, s.rf.size, s.rf.limit, s.pending_min, s.last_limit).as_bytes()).rotate_left(17);
    h ^= fnv64(crate::c11::h2_state_text(&s.dec).as_bytes()).rotate_left(31);
    h
}

pub struct StepOut {
    pub vios: Vec<(String, String, String)>,
    pub bytes: Vec<u8>,
    pub evictions: bool,
    pub size_update_emitted: bool,
}

/// Apply `op` to `s` (mutating) and judge the emitted block.
pub fn step(s: &mut St, op: &Op, items: &[Item], verbose: bool) -> StepOut {
    let mut out = StepOut { vios: vec![], bytes: vec![], evictions: false, size_update_emitted: false };
    match op {
        Op::Update(v) => {
            s.enc.update_max_size(*v);
            s.rf.set_limit(*v);
            s.dec.queue_size_update(*v);
            s.pending_min = Some(s.pending_min.map(|m| m.min(*v)).unwrap_or(*v));
            s.last_limit = *v;
            if verbose {
                println!("update_max_size({})", v);
            }
        }
        Op::Block(list) => {
            let mut hdrs = vec![];
            let mut expect: Vec<Field> = vec![];
            for (i, &k) in list.iter().enumerate() {
                let it = &items[k];
                let elide = i > 0 && it.name == items[list[i - 1]].name && it.name[0] != b':';
                hdrs.push(to_header(it, elide));
                expect.push((it.name.clone(), it.value.clone()));
            }
            let mut dst = BytesMut::new();
            let r = std::panic::catch_unwind(std::panic::AssertUnwindSafe(|| s.enc.encode(hdrs, &mut dst)));
            if let Err(p) = r {
                out.vios.push(("C10.panic".into(), "encode".into(), format!("Encoder::encode panicked: {}", crate::c11::panic_text(&p))));
                return out;
            }
            out.bytes = dst.to_vec();
            let before_entries = s.rf.table.len();
            let before_max = s.rf.max_size;
            let res = s.rf.decode_block(&dst);
            if verbose {
                println!("block {:?} -> {}", list.iter().map(|&k| items[k].label.as_str()).collect::<Vec<_>>(), hex(&dst));
                println!("  reference: {:?}", res);
                println!("  reference table after: max={} size={} entries={:?}", s.rf.max_size, s.rf.size, s.rf.table.iter().map(|(n, v)| format!("{}={}", String::from_utf8_lossy(n), String::from_utf8_lossy(v))).collect::<Vec<_>>());
            }
            match res {
                Ok(b) => {
                    if b.fields != expect {
                        out.vios.push(("C10.reference-decodes-other-fields".into(), format!("n={}", expect.len()), format!("a conforming decoder reads {:?} but {:?} were submitted", lossy(&b.fields), lossy(&expect))));
                    }
                    out.size_update_emitted = !b.size_updates.is_empty();
                    if let Some(min) = s.pending_min {
                        if min < before_max {
                            // reduction: must be signalled at the start of this block
                            if !b.size_updates.iter().any(|&u| (u as usize) <= min) {
                                out.vios.push(("C10.reduction-not-signalled".into(), format!("min={} before={}", min, before_max), format!("table limit was reduced to {} (decoder table max was {}), but the next block carries size updates {:?}", min, before_max, b.size_updates)));
                            }
                        }
                        if s.rf.max_size > s.last_limit {
                            out.vios.push(("C10.table-over-limit".into(), "after-update".into(), format!("after the block the encoder's table may hold {} octets, the peer allows {}", s.rf.max_size, s.last_limit)));
                        }
                    }
                    s.pending_min = None;
                    if s.rf.table.len() < before_entries + b.fields.len() && s.rf.table.len() <= before_entries {
                        out.evictions = before_entries > 0;
                    }
                }
                Err(e) => {
                    out.vios.push(("C10.reference-rejects".into(), format!("{:?}", e), format!("a conforming RFC 7541 decoder rejects the emitted block {} with {:?}", hex(&dst), e)));
                }
            }
            // h2's own decoder
            match h2_decode(&mut s.dec, &dst, &[]) {
                H2Res::Ok(f) => {
                    if f != expect {
                        out.vios.push(("C10.h2-decodes-other-fields".into(), format!("n={}", expect.len()), format!("h2's decoder reads {:?} but {:?} were submitted", lossy(&f), lossy(&expect))));
                    }
                }
                H2Res::Err(e) => out.vios.push(("C10.h2-rejects".into(), e.clone(), format!("h2's own decoder rejects the emitted block {} with {}", hex(&dst), e))),
                H2Res::Panic(p) => out.vios.push(("C10.panic".into(), "decode".into(), format!("decoder panicked: {}", p))),
            }
            // encoder's own table within its maximum
            let d = format!("{:?}", s.enc);
            let num = |key: &str| -> Option<usize> {
                let p = d.rfind(key)?;
                d[p + key.len()..].chars().take_while(|c| c.is_ascii_digit()).collect::<String>().parse().ok()
            };
            if let (Some(size), Some(max)) = (num(", size: "), num("max_size: ")) {
                if size > max {
                    out.vios.push(("C10.encoder-table-over-max".into(), "size>max".into(), format!("encoder table size {} > max {}", size, max)));
                }
            }
            let _ = h2_table_stats;
        }
    }
    out
}

/// X3: every string length around every prefix-integer boundary, for names and values, for symbols of each Huffman code
/// length class, alone and followed by another field (a wrong length octet mis-frames what follows), twice in a row (the
/// second time the string comes out of the dynamic table or not, depending on its size).
fn length_sweep_cases(quick: bool) -> Vec<(bool, u8, usize)> {
    // (sweep the name?, repeated symbol, repetitions)
    let max = if quick { 600 } else { 9000 };
    let mut v = vec![];
    for &c in b"a-zA~\xff" {
        for n in 0..=max {
            v.push((false, c, n));
        }
    }
    for &c in b"a-z_" {
        for n in 0..=max.min(2000) {
            v.push((true, c, n));
        }
    }
    v
}

fn length_sweep_one(case: (bool, u8, usize), verbose: bool) -> Vec<(String, String, String)> {
    let (in_name, c, n) = case;
    let swept = if in_name {
        Item { label: format!("name x{}*{}", c as char, n), name: [b"x".to_vec(), vec![c; n]].concat(), value: b"v".to_vec(), sensitive: false }
    } else {
        Item { label: format!("value {:#04x}*{}", c, n), name: b"x-s".to_vec(), value: vec![c; n], sensitive: false }
    };
    let items = vec![swept, item("after", "x-after", "tail")];
    let mut vios = vec![];
    let mut s = St::initial();
    for list in [vec![0usize, 1], vec![0usize], vec![1usize, 0, 1]] {
        let r = step(&mut s, &Op::Block(list), &items, verbose);
        for (rule, sig, what) in r.vios {
            vios.push((rule, format!("len:{}", sig.chars().filter(|c| !c.is_ascii_digit()).collect::<String>()), format!("[{} of {} x {:#04x}] {}", if in_name { "name" } else { "value" }, n, c, what.chars().take(400).collect::<String>())));
        }
    }
    vios
}

fn lossy(f: &[Field]) -> Vec<String> {
    f.iter().map(|(n, v)| format!("{}={}", String::from_utf8_lossy(n), String::from_utf8_lossy(v))).collect()
}

// ---------------------------------------------------------------------------------------------
// frame-level: every split limit through the real Headers::encode / Continuation::encode

fn frame_split_check(vios: &Mutex<VioSet>, cases: &AtomicU64, frames_total: &AtomicU64) {
    use h2::frame::{Headers, Pseudo, StreamId};
    let lists: Vec<(&str, Vec<(&str, String)>)> = vec![
        ("small", vec![("x-a", "1".into()), ("x-b", "2".into())]),
        ("repeated", vec![("x-a", "1".into()), ("x-a", "2".into()), ("cookie", "a=b".into()), ("x-a", "3".into())]),
        ("medium", vec![("x-m", "m".repeat(300)), ("x-n", "n".repeat(40))]),
        ("large", vec![("x-l", "l".repeat(1500)), ("x-a", "1".into())]),
    ];
    for (label, fields) in lists {
        for pre_blocks in 0..2 {
            let mut enc0 = Encoder::new(4096, 0);
            if pre_blocks == 1 {
                // a previous block leaves dynamic entries and a used scratch buffer behind
                let mut m = http::HeaderMap::new();
                m.insert("x-a", HeaderValue::from_static("1"));
                m.insert("x-prev", HeaderValue::from_static("p"));
                let h = Headers::new(StreamId::from(1), Pseudo::response(StatusCode::OK), m);
                let mut dst = BytesMut::new();
                let mut lim = (&mut dst).limit(16384);
                let _ = h.encode(&mut enc0, &mut lim);
            }
            let mk = || {
                let mut m = http::HeaderMap::new();
                for (n, v) in &fields {
                    m.append(HeaderName::from_bytes(n.as_bytes()).unwrap(), HeaderValue::from_str(v).unwrap());
                }
                Headers::new(StreamId::from(3), Pseudo::request(Method::GET, "http://h.example/p".parse().unwrap(), None), m)
            };
            // unsplit reference
            let whole = {
                let mut enc = enc0.clone();
                let mut dst = BytesMut::new();
                let mut lim = (&mut dst).limit(1 << 20);
                let c = mk().encode(&mut enc, &mut lim);
                assert!(c.is_none());
                dst.to_vec()
            };
            let (wf_frames, _) = wf::parse_all(&whole, false);
            let whole_block = match wf_frames[0].parse() {
                Ok(wf::Parsed::Headers { frag, .. }) => frag,
                other => panic!("unsplit encode is not a HEADERS frame: {:?}", other),
            };
            for limit in 10..=(whole.len() + 2) {
                cases.fetch_add(1, Ordering::Relaxed);
                let mut enc = enc0.clone();
                let mut dst = BytesMut::new();
                let mut cont = {
                    let mut lim = (&mut dst).limit(limit);
                    mk().encode(&mut enc, &mut lim)
                };
                let mut guard = 0;
                while let Some(c) = cont {
                    let mut lim = (&mut dst).limit(limit);
                    cont = c.encode(&mut lim);
                    guard += 1;
                    if guard > 5000 {
                        break;
                    }
                }
                let (frames, rest) = wf::parse_all(&dst, false);
                frames_total.fetch_add(frames.len() as u64, Ordering::Relaxed);
                let replay = json!({"harness": "c10.frames", "case": {"list": label, "pre_blocks": pre_blocks, "limit": limit}});
                let mut add = |rule: &str, sig: String, what: String| vios.lock().unwrap().add(Violation { rule: rule.into(), signature: sig, what, replay: replay.clone() });
                if rest != 0 || frames.is_empty() {
                    add("C10.split-framing", "garbage".into(), format!("limit {}: output does not parse into frames ({} bytes left)", limit, rest));
                    continue;
                }
                let mut block = vec![];
                let mut ok = true;
                for (i, f) in frames.iter().enumerate() {
                    let last = i + 1 == frames.len();
                    if 9 + f.payload.len() > limit {
                        add("C10.split-over-limit".into(), "frame>limit".into(), format!("limit {}: frame {} has {} octets", limit, i, 9 + f.payload.len()));
                    }
                    match f.parse() {
                        Ok(wf::Parsed::Headers { frag, eh, sid: 3, .. }) if i == 0 => {
                            block.extend(frag);
                            ok &= eh == last;
                        }
                        Ok(wf::Parsed::Continuation { frag, eh, sid: 3 }) if i > 0 => {
                            block.extend(frag);
                            ok &= eh == last;
                        }
                        _ => ok = false,
                    }
                }
                if !ok {
                    add("C10.split-framing", "flags-or-types".into(), format!("limit {}: frame types / END_HEADERS placement wrong: {:?}", limit, frames.iter().map(|f| f.short()).collect::<Vec<_>>()));
                }
                if block != whole_block {
                    add("C10.split-changes-block", "bytes".into(), format!("limit {}: reassembled block differs from the unsplit block ({} vs {} octets)", limit, block.len(), whole_block.len()));
                }
            }
        }
    }
}

// ---------------------------------------------------------------------------------------------

struct BfsReport {
    completed_depth: usize,
    closed: bool,
    per_depth: Vec<Value>,
    sample_hist: Vec<u16>,
    states: u64,
}

#[allow(clippy::too_many_arguments)]
fn bfs(
    ctx: &Ctx,
    name: &str,
    start: St,
    all_ops: &[Op],
    items: &[Item],
    max_depth: usize,
    max_block: usize,
    small: bool,
    deadline_s: f64,
    vios: &Mutex<VioSet>,
    transitions: &AtomicU64,
    evictions: &AtomicU64,
    updates_emitted: &AtomicU64,
) -> BfsReport {
    let seen = Seen::new(true);
    let mut frontier = vec![start];
    seen.check_and_insert(digest(&frontier[0]), 0);
    let mut rep = BfsReport { completed_depth: 0, closed: false, per_depth: vec![], sample_hist: vec![], states: 0 };
    let mut per_transition = 4e-6;
    for depth in 1..=max_depth {
        let next: Mutex<Vec<St>> = Mutex::new(vec![]);
        let aborted = AtomicBool::new(false);
        let t0 = ctx.elapsed();
        // quick tier: the depth given by the caller is the bound; the clock is only a safety net
        let deadline_s = if ctx.tier.is_quick() { ctx.hard_cap_s() } else { deadline_s };
        let remaining = deadline_s - ctx.elapsed();
        if depth > 2 && !ctx.tier.is_quick() {
            let est = frontier.len() as f64 * all_ops.len() as f64 * per_transition / 16.0;
            if est > remaining {
                eprintln!("[C10] {} depth {}: {} states x {} ops estimated {:.0}s > remaining {:.0}s: not started", name, depth, frontier.len(), all_ops.len(), est, remaining);
                break;
            }
        }
        par_for(frontier.len(), |i| {
            if aborted.load(Ordering::Relaxed) {
                return;
            }
            if ctx.elapsed() > deadline_s {
                aborted.store(true, Ordering::Relaxed);
                return;
            }
            let s0 = &frontier[i];
            let mut local = vec![];
            for (oi, op) in all_ops.iter().enumerate() {
                let mut s = s0.clone();
                let r = step(&mut s, op, items, false);
                transitions.fetch_add(1, Ordering::Relaxed);
                if r.evictions {
                    evictions.fetch_add(1, Ordering::Relaxed);
                }
                if r.size_update_emitted {
                    updates_emitted.fetch_add(1, Ordering::Relaxed);
                }
                s.history.push(oi as u16);
                if !r.vios.is_empty() {
                    let mut vs = vios.lock().unwrap();
                    for (rule, sig, what) in r.vios {
                        vs.add(Violation { rule, signature: sig, what, replay: json!({"harness": "c10.bfs", "case": {"max_block": max_block, "small": small, "history": s.history}}) });
                    }
                    continue; // a desynchronised pair is not expanded further
                }
                if !seen.check_and_insert(digest(&s), 0) {
                    local.push(s);
                }
            }
            next.lock().unwrap().append(&mut local);
        });
        let nx = next.into_inner().unwrap();
        let dt = ctx.elapsed() - t0;
        let n_tr = frontier.len() * all_ops.len();
        if n_tr > 10_000 {
            per_transition = dt * 16.0 / n_tr as f64;
        }
        eprintln!("[C10] {} depth {}: expanded {} states x {} ops, {} new states, {:.1}s", name, depth, frontier.len(), all_ops.len(), nx.len(), dt);
        rep.per_depth.push(json!({"depth": depth, "expanded": frontier.len(), "new_states": nx.len()}));
        if aborted.load(Ordering::Relaxed) {
            break;
        }
        rep.completed_depth = depth;
        if let Some(s) = nx.last() {
            rep.sample_hist = s.history.clone();
        }
        if nx.is_empty() {
            rep.closed = true;
            break;
        }
        frontier = nx;
    }
    rep.states = seen.len();
    rep
}

const SMALL_UPDATES: [usize; 4] = [0, 40, 90, 130];

fn small_start() -> St {
    let mut s = St::initial();
    let items = alphabet();
    let _ = step(&mut s, &Op::Update(130), &items, false);
    s.history.clear();
    s
}

pub fn run(ctx: &Ctx) -> Outcome {
    let mut out = Outcome::default();
    let items = alphabet();
    let quick = ctx.tier.is_quick();
    let vios = Mutex::new(VioSet::default());
    let transitions = AtomicU64::new(0);
    let evictions = AtomicU64::new(0);
    let updates_emitted = AtomicU64::new(0);
    let budget = ctx.tier.budget_s();
    // (B) small tables: limits {0,40,90,130} only, at most 3 entries fit: run towards closure of the canonical state space
    let small_block = 2;
    let small_ops = ops(items.len(), small_block, &SMALL_UPDATES);
    let b = bfs(ctx, "small-tables", small_start(), &small_ops, &items, if quick { 14 } else { 40 }, small_block, true, budget * 0.5, &vios, &transitions, &evictions, &updates_emitted);
    // (A) default table (4096) with all limits: depth-bounded
    let max_block = if quick { 2 } else { 3 };
    let all_ops = ops(items.len(), max_block, &UPDATES);
    let a = bfs(ctx, "default-table", St::initial(), &all_ops, &items, if quick { 3 } else { 6 }, max_block, false, budget * 0.95, &vios, &transitions, &evictions, &updates_emitted);
    let (completed_depth, closed, per_depth, sample_hist) = (a.completed_depth, b.closed, a.per_depth.clone(), a.sample_hist.clone());
    let states_total = a.states + b.states;
    out.harness("encoder-bfs-small-tables", json!({"ops": small_ops.len(), "updates": SMALL_UPDATES, "max_block_len": small_block, "completed_depth": b.completed_depth, "closed": b.closed, "levels": b.per_depth, "states": b.states}));
    // frame-level splits
    let cases = AtomicU64::new(0);
    let frames_total = AtomicU64::new(0);
    frame_split_check(&vios, &cases, &frames_total);
    out.harness("encoder-bfs", json!({"alphabet_items": items.iter().map(|i| i.label.clone()).collect::<Vec<_>>(), "ops": all_ops.len(), "max_block_len": max_block,
        "completed_depth": completed_depth, "closed": a.closed, "levels": per_depth, "updates": UPDATES, "states": a.states}));
    out.harness("continuation-splits", json!({"limits_tried": cases.load(Ordering::Relaxed), "frames": frames_total.load(Ordering::Relaxed)}));
    // string lengths
    let sweep = length_sweep_cases(quick);
    par_for(sweep.len(), |i| {
        let vs = length_sweep_one(sweep[i], false);
        transitions.fetch_add(3, Ordering::Relaxed);
        if !vs.is_empty() {
            let mut g = vios.lock().unwrap();
            for (rule, sig, what) in vs {
                g.add(Violation { rule, signature: sig, what, replay: json!({"harness": "c10.len", "case": {"in_name": sweep[i].0, "symbol": sweep[i].1, "n": sweep[i].2}}) });
            }
        }
    });
    out.harness("string-length-sweep", json!({"cases": sweep.len(), "symbols": "values: a - z A ~ 0xff, names: a - z _", "max_repetitions": sweep.iter().map(|c| c.2).max()}));
    let t = transitions.load(Ordering::Relaxed);
    out.set("states", json!(states_total));
    out.set("transitions", json!(t + cases.load(Ordering::Relaxed)));
    out.set("traces_validated_against_impl", json!(t));
    out.set("evaluations", json!(t + cases.load(Ordering::Relaxed)));
    out.set("distinct_nontrivial", json!(states_total));
    out.set("exhaustive", json!(closed));
    out.set("mechanism_counters", json!({"blocks_with_eviction": evictions.load(Ordering::Relaxed), "blocks_with_size_update": updates_emitted.load(Ordering::Relaxed)}));
    out.set("rule", json!("X2: breadth-first search over the real hpack::Encoder (cloned per transition): events = every list of <= n items of the alphabet and update_max_size(v); a state is the canonical encoder table (Debug text, indices normalised by `inserted`) + reference decoder state + h2 decoder state; on every transition the emitted block is decoded by the RFC 7541 reference (strict size-update rules) and by h2's decoder and compared with the submitted fields. X3: every CONTINUATION split limit through Headers::encode / Continuation::encode; every name / value length 0..600 (thorough: 9000) for symbols of each Huffman code-length class, encoded alone, before another field and again from the table. distinct_nontrivial = distinct canonical states"));
    out.add_sample(json!({"harness": "c10.bfs", "case": {"max_block": max_block, "small": false, "history": sample_hist}}));
    out.add_sample(json!({"harness": "c10.bfs", "case": {"max_block": small_block, "small": true, "history": b.sample_hist}}));
    out.add_sample(json!({"harness": "c10.frames", "case": {"list": "large", "pre_blocks": 1, "limit": 200}}));
    out.guard_nonzero("blocks with eviction", evictions.load(Ordering::Relaxed));
    out.guard_nonzero("blocks with size update", updates_emitted.load(Ordering::Relaxed));
    out.assume("alphabet of 17 header items (static full/name matches, dynamic pseudo, same name/different values, sensitive, skip-value-index, colliding hash buckets, value > 3/4 table) and table limits {0,40,90,130,4096,5000}");
    out.assume("histories deeper than the completed depth are covered only where the canonical state space had closed");
    out.violations = vios.into_inner().unwrap().into_vec();
    out
}

pub fn replay(v: &Value) -> bool {
    let items = alphabet();
    match v["harness"].as_str().unwrap_or("") {
        "c10.bfs" => {
            let max_block = v["case"]["max_block"].as_u64().unwrap() as usize;
            let small = v["case"]["small"].as_bool().unwrap_or(false);
            let all_ops = if small { ops(items.len(), max_block, &SMALL_UPDATES) } else { ops(items.len(), max_block, &UPDATES) };
            let mut s = if small { small_start() } else { St::initial() };
            let mut bad = false;
            for h in v["case"]["history"].as_array().unwrap() {
                let op = &all_ops[h.as_u64().unwrap() as usize];
                let r = step(&mut s, op, &items, true);
                for (rule, sig, what) in r.vios {
                    println!("RULE VIOLATED: {} [{}] {}", rule, sig, what);
                    bad = true;
                }
            }
            println!("encoder after: {}", canon_encoder(&s.enc));
            bad
        }
        "c10.len" => {
            let c = &v["case"];
            let vs = length_sweep_one((c["in_name"].as_bool().unwrap_or(false), c["symbol"].as_u64().unwrap_or(97) as u8, c["n"].as_u64().unwrap_or(0) as usize), true);
            for (rule, sig, what) in &vs {
                println!("RULE VIOLATED: {} [{}] {}", rule, sig, what);
            }
            !vs.is_empty()
        }
        _ => {
            let vios = Mutex::new(VioSet::default());
            let (a, b) = (AtomicU64::new(0), AtomicU64::new(0));
            frame_split_check(&vios, &a, &b);
            let vs = vios.into_inner().unwrap().into_vec();
            for x in &vs {
                println!("RULE VIOLATED: {} [{}] {}", x.rule, x.signature, x.what);
            }
            !vs.is_empty()
        }
    }
}
