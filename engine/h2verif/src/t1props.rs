//! Properties judged on the T1 topology (real client <-> real server) with the deviation-bounded explorer:
//! C02 (flow-control accountant), C04 (sender life cycle), C06 (progress / lost wakeup), C17 (resets).

use crate::c01::*;
use crate::common::*;
use crate::monitor::*;
use crate::scen::*;
use crate::sim::*;
use h2wire::frame::Parsed;
use serde_json::{json, Value};

type V3 = Vec<(String, String, String)>;

fn digits_stripped(s: &str) -> String {
    let mut out = String::new();
    let mut last_digit = false;
    for c in s.chars() {
        if c.is_ascii_digit() {
            if !last_digit {
                out.push('N');
            }
            last_digit = true;
        } else {
            out.push(c);
            last_digit = false;
        }
    }
    out
}

fn m(chunks: &[usize]) -> MsgSpec {
    MsgSpec::simple(chunks)
}
fn mk(name: &str, cfg: Cfg, streams: Vec<StreamSpec>) -> Scenario {
    Scenario { name: name.to_string(), cfg, streams }
}

// ---------------------------------------------------------------------------------------------
// C02

fn judge_c02(_h: &T1Harness, t: &mut T1, _end: RunEnd) -> V3 {
    let mut v = vec![];
    for side in [Side::Client, Side::Server] {
        let mut a = FlowAcct::new(side);
        a.update(&t.mon);
        for s in a.violations {
            v.push(("C02.window-exceeded".to_string(), format!("{}:{}", side.name(), if s.contains("connection credit") { "conn" } else { "stream" }), s));
        }
    }
    v
}

pub fn c02_scenarios() -> Vec<Scenario> {
    let mut v = vec![];
    // receiver lowers its stream window mid-transfer (sender's window may go negative), then data continues
    v.push(mk(
        "server-lowers-window",
        Cfg { s_set_window: Some(3), ..Cfg::default() },
        vec![StreamSpec::new(m(&[10, 10, 10]), m(&[5])), StreamSpec::new(m(&[8]), m(&[1]))],
    ));
    v.push(mk(
        "server-lowers-window-late-reader",
        Cfg { s_stream_window: Some(16), s_set_window: Some(1), ..Cfg::default() },
        vec![StreamSpec { s_recv: RecvMode::Late, ..StreamSpec::new(m(&[12, 12]), m(&[5])) }],
    ));
    v.push(mk(
        "server-raises-window",
        Cfg { s_stream_window: Some(4), s_set_window: Some(64), ..Cfg::default() },
        vec![StreamSpec::new(m(&[30]), m(&[5])), StreamSpec::new(m(&[30]), m(&[5]))],
    ));
    v.push(mk(
        "client-sets-window-at-start",
        Cfg { c_stream_window: Some(20), c_set_window: Some(5), ..Cfg::default() },
        vec![StreamSpec::new(m(&[1]), m(&[12, 12]))],
    ));
    v.push(mk(
        "conn-window-shared",
        Cfg { s_conn_window: Some(65535), s_stream_window: Some(40000), ..Cfg::default() },
        vec![
            StreamSpec { s_recv: RecvMode::Late, ..StreamSpec::new(m(&[40000]), m(&[1])) },
            StreamSpec { s_recv: RecvMode::Late, ..StreamSpec::new(m(&[40000]), m(&[1])) },
        ],
    ));
    v.push(mk(
        "capacity-api-window7",
        Cfg { s_stream_window: Some(7), c_stream_window: Some(7), ..Cfg::default() },
        vec![StreamSpec::new(MsgSpec { use_capacity: true, ..m(&[10, 5]) }, MsgSpec { use_capacity: true, ..m(&[9]) }), StreamSpec::new(m(&[9]), m(&[9]))],
    ));
    // a large END_STREAM frame parked in the codec (chained payload, write back-pressure) while the peer lowers the window
    v.push(mk(
        "lower-window-while-frame-in-codec",
        Cfg { s_set_window: Some(16384), ..Cfg::default() },
        vec![StreamSpec::new(m(&[32768]), m(&[1]))],
    ));
    v.push(mk(
        "lower-window-while-frame-in-codec-vectored",
        Cfg { s_set_window: Some(1000), vectored: true, ..Cfg::default() },
        vec![StreamSpec::new(m(&[3000]), m(&[1])), StreamSpec::new(m(&[2000]), m(&[1]))],
    ));
    v.push(mk(
        "target-window-change",
        Cfg { s_target_window: Some(100_000), ..Cfg::default() },
        vec![StreamSpec::new(m(&[70_000]), m(&[5]))],
    ));
    // pushed stream against a client window smaller than the server's own (asymmetric windows)
    v.push(mk(
        "push-client-window-7",
        Cfg { c_stream_window: Some(7), ..Cfg::default() },
        vec![StreamSpec { push: Some(m(&[30])), ..StreamSpec::new(m(&[]), m(&[20])) }],
    ));
    v.push(mk(
        "server-window-7-only",
        Cfg { s_stream_window: Some(7), ..Cfg::default() },
        vec![StreamSpec::new(m(&[30]), m(&[20]))],
    ));
    v
}

pub fn run_c02(ctx: &Ctx) -> Outcome {
    let mut out = with_budget_scale(0.85, || run_c02_main(ctx));
    out.absorb(generated_pass(ctx, "C02", judge_c02, full_policy()));
    out
}

fn run_c02_main(ctx: &Ctx) -> Outcome {
    let mut scs = c02_scenarios();
    scs.extend(scenarios(true).into_iter().filter(|s| ["window7", "window1-capacity", "body-40k", "three-streams-late", "client-reset"].contains(&s.name.as_str())));
    let max_dev = if ctx.tier.is_quick() { 2 } else { 3 };
    let mut out = run_t1_property(ctx, "C02", &scs, judge_c02, max_dev, full_policy(), &["partial_writes", "data_frames_from_splitting"]);
    out.set("rule", json!("X1 on T1: every execution with <= k deviations; at every DATA frame head written by either endpoint the wire accountant checks len <= stream credit and len <= connection credit, credit = acknowledged peer INITIAL_WINDOW_SIZE (ACK position in the sender's own output) + WINDOW_UPDATEs whose last byte its transport has read - DATA sent"));
    out.assume("window values from the scenario catalogue (0/1/3/4/5/7/16/20/64/16384/40000/65535/100000) and the changes listed there");
    out
}

// ---------------------------------------------------------------------------------------------
// C04

fn judge_c04(h: &T1Harness, t: &mut T1, _end: RunEnd) -> V3 {
    let mut v = vec![];
    for side in [Side::Client, Side::Server] {
        let mut l = Lifecycle::new(side);
        l.update(&t.mon);
        for s in l.violations {
            v.push(("C04.lifecycle".to_string(), digits_stripped(&s), s));
        }
    }
    for (side, d) in &t.mon.wire_defects {
        v.push(("C04.header-block".to_string(), digits_stripped(d), format!("{} output: {}", side.name(), d)));
    }
    // identifier exhaustion: requests beyond the last identifier are refused, never wrapped
    if let Some(first) = h.sc.cfg.initial_stream_id {
        let log = t.log.snapshot();
        let possible = ((0x7fff_ffffu32 - first) / 2 + 1) as usize;
        for k in 0..h.sc.streams.len() {
            let sent = log.iter().any(|r| r.side == Side::Client && r.k == k && matches!(r.ev, Ev::StreamId(_)));
            let failed = log.iter().any(|r| r.side == Side::Client && r.k == k && matches!(&r.ev, Ev::Err(e) if e.starts_with("send_request") || e.starts_with("poll_ready")));
            if !sent && !failed && t.exec.is_done(&format!("c{}", k)) {
                v.push(("C04.id-exhaustion".into(), "silent".into(), format!("request #{} neither got a stream nor an error", k)));
            }
        }
        let opened = log.iter().filter(|r| r.side == Side::Client && r.submitted && matches!(r.ev, Ev::StreamId(_))).count();
        if opened > possible {
            v.push(("C04.id-exhaustion".into(), "too-many".into(), format!("{} requests were given stream identifiers but only {} remain from {}", opened, possible, first)));
        }
    }
    v
}

pub fn c04_scenarios() -> Vec<Scenario> {
    let mut v = vec![];
    // reset of a request still parked in pending_open (the 0.4.15 bug shape): HEADERS must precede RST or neither appears
    v.push(mk(
        "reset-parked-request",
        Cfg { s_max_concurrent: Some(1), c_initial_max_send_streams: Some(1), ..Cfg::default() },
        vec![StreamSpec::new(m(&[3]), m(&[3])), StreamSpec { cancel: Cancel::ClientReset { after_chunks: 0, code: 8 }, ..StreamSpec::new(m(&[4]), m(&[4])) }],
    ));
    v.push(mk(
        "drop-parked-request",
        Cfg { s_max_concurrent: Some(1), c_initial_max_send_streams: Some(1), ..Cfg::default() },
        vec![StreamSpec::new(m(&[3]), m(&[3])), StreamSpec { cancel: Cancel::ClientDrop { after_chunks: 0 }, ..StreamSpec::new(m(&[4]), m(&[4])) }],
    ));
    v.push(mk(
        "window0-reset",
        Cfg { s_stream_window: Some(0), ..Cfg::default() },
        vec![StreamSpec { cancel: Cancel::ClientReset { after_chunks: 1, code: 8 }, ..StreamSpec::new(m(&[5, 1]), m(&[2])) }],
    ));
    v.push(mk(
        "push-then-reset",
        Cfg::default(),
        vec![StreamSpec { push: Some(m(&[6])), cancel: Cancel::ServerReset { after_chunks: 1, code: 2 }, ..StreamSpec::new(m(&[]), m(&[2, 2])) }],
    ));
    v.push(mk(
        "interim-trailers-bigheaders",
        Cfg::default(),
        vec![StreamSpec::new(MsgSpec { head: HeadKind::Big20k, end: EndKind::Trailers, ..m(&[3]) }, MsgSpec { interim: 2, head: HeadKind::Big20k, end: EndKind::Trailers, ..m(&[3]) }), StreamSpec::new(m(&[1]), m(&[1]))],
    ));
    v.push(mk("server-drop", Cfg::default(), vec![StreamSpec { cancel: Cancel::ServerDrop, ..StreamSpec::new(m(&[5]), m(&[5])) }, StreamSpec::new(m(&[1]), m(&[1]))]));
    // the codec is filled by an earlier frame (30 KB header block / 20 KB DATA) while a later request is reset or dropped
    v.push(mk(
        "reset-behind-big-headers",
        Cfg::default(),
        vec![StreamSpec::new(MsgSpec { head: HeadKind::Big20k, ..m(&[]) }, m(&[1])), StreamSpec { cancel: Cancel::ClientReset { after_chunks: 0, code: 8 }, ..StreamSpec::new(m(&[4]), m(&[4])) }],
    ));
    // a stream is reset and forgotten at once (reset memory expires immediately) while the peer still sends on it - the
    // library answers with RST_STREAM by identifier -, another stream completes, then a request starts late: identifiers
    // keep increasing
    v.push(mk(
        "late-request-after-forgotten-reset",
        Cfg { reset_expire_now: true, ..Cfg::default() },
        vec![
            StreamSpec { cancel: Cancel::ClientReset { after_chunks: 1, code: 8 }, s_recv: RecvMode::Late, ..StreamSpec::new(m(&[2, 2]), m(&[5, 5, 5])) },
            StreamSpec::new(m(&[]), m(&[2])),
            StreamSpec { c_start_delay: 14, ..StreamSpec::new(m(&[]), m(&[1])) },
        ],
    ));
    v.push(mk(
        "late-request-after-forgotten-drop",
        Cfg { reset_expire_now: true, ..Cfg::default() },
        vec![
            StreamSpec { cancel: Cancel::ClientDrop { after_chunks: 0 }, ..StreamSpec::new(m(&[2]), m(&[5, 5, 5])) },
            StreamSpec::new(m(&[]), m(&[2])),
            StreamSpec { c_start_delay: 10, ..StreamSpec::new(m(&[]), m(&[1])) },
        ],
    ));
    // the same with the cheapest frame that fills the codec: one chained DATA frame (>= 1 KiB)
    v.push(mk(
        "reset-behind-chained-data",
        Cfg::default(),
        vec![StreamSpec::new(m(&[1500]), m(&[1])), StreamSpec { cancel: Cancel::ClientReset { after_chunks: 0, code: 8 }, ..StreamSpec::new(m(&[4]), m(&[4])) }],
    ));
    v.push(mk(
        "reset-behind-big-data",
        Cfg::default(),
        vec![StreamSpec::new(m(&[20000]), m(&[1])), StreamSpec { cancel: Cancel::ClientReset { after_chunks: 1, code: 8 }, ..StreamSpec::new(m(&[4, 4]), m(&[4])) }, StreamSpec { cancel: Cancel::ClientDrop { after_chunks: 0 }, ..StreamSpec::new(m(&[4]), m(&[4])) }],
    ));
    for first in [0x7fff_fffbu32, 0x7fff_fffd, 0x7fff_ffff] {
        v.push(mk(
            &format!("id-exhaustion-{:#x}", first),
            Cfg { initial_stream_id: Some(first), ..Cfg::default() },
            vec![StreamSpec::new(m(&[]), m(&[1])), StreamSpec::new(m(&[]), m(&[1])), StreamSpec::new(m(&[]), m(&[1])), StreamSpec::new(m(&[]), m(&[1]))],
        ));
    }
    v.extend(early_response_scenarios().into_iter().filter(|s| ["early-response", "early-response-blocked-response"].contains(&s.name.as_str())));
    v
}

pub fn run_c04(ctx: &Ctx) -> Outcome {
    let mut out = with_budget_scale(0.85, || run_c04_main(ctx));
    out.absorb(generated_pass(ctx, "C04", judge_c04, full_policy()));
    out
}

fn run_c04_main(ctx: &Ctx) -> Outcome {
    let mut scs = c04_scenarios();
    scs.extend(scenarios(true).into_iter().filter(|s| ["post-trailers", "two-streams-interim", "push", "client-reset", "server-reset", "max-concurrent-1", "big-headers"].contains(&s.name.as_str())));
    let max_dev = if ctx.tier.is_quick() { 2 } else { 3 };
    let mut out = run_t1_property(ctx, "C04", &scs, judge_c04, max_dev, full_policy(), &["partial_writes", "continuation_frames"]);
    out.set("rule", json!("X1 on T1: every execution with <= k deviations; the output of each endpoint is run through the RFC 9113 5.1 sender automaton (id order and parity, first frame HEADERS / PUSH_PROMISE on a live parent, nothing on idle, only WINDOW_UPDATE/RST_STREAM/PRIORITY after own END_STREAM, only PRIORITY after own RST_STREAM, trailers end the stream, header blocks contiguous, frame types on the right kind of stream), plus identifier exhaustion"));
    out.assume("peers are legal (both are h2); frames the RFC mandates in answer to illegal input belong to C09");
    out
}

// ---------------------------------------------------------------------------------------------
// C06

fn progress_fingerprint(t: &T1) -> (usize, usize, usize) {
    let done = t.exec.tasks.iter().filter(|x| x.fut.is_none()).count();
    let io = t.sh.lock().unwrap().iolog.len();
    (t.log.0.lock().unwrap().len(), io, done)
}

fn judge_c06(h: &T1Harness, t: &mut T1, end: RunEnd) -> V3 {
    let mut v = vec![];
    if end == RunEnd::Horizon {
        let busy: Vec<String> = t.exec.tasks.iter().filter(|x| x.fut.is_some() && x.flag.is_set()).map(|x| x.name.clone()).collect();
        v.push(("C06.livelock".into(), busy.join(","), format!("no quiescence within {} steps; still runnable: {:?}", horizon_for(h.sc), busy)));
        return v;
    }
    // (b) no lost wakeup: at quiescence, polling a task that nobody woke must not make anything progress
    let before = progress_fingerprint(t);
    let pending = t.exec.pending_tasks();
    let pending_names: Vec<String> = pending.iter().map(|&i| t.exec.tasks[i].name.clone()).collect();
    {
        // forced polls are not part of the explored execution: take default answers without recording choices
        t.sh.lock().unwrap().chooser.recording = false;
    }
    let mut progressed_by: Vec<String> = vec![];
    for &i in &pending {
        let b = progress_fingerprint(t);
        t.exec.force_poll(i);
        // let whatever that poll woke run to quiescence
        t.exec.run(2000);
        if progress_fingerprint(t) != b {
            progressed_by.push(t.exec.tasks[i].name.clone());
        }
    }
    t.mon.catch_up(&t.sh.lock().unwrap().iolog);
    let after = progress_fingerprint(t);
    if after != before {
        let log = t.log.snapshot();
        let new: Vec<String> = log[before.0..].iter().map(|r| format!("{} #{} {:?} {:?}", r.side.name(), r.k, r.dir, r.ev).chars().take(80).collect()).collect();
        v.push((
            "C06.lost-wakeup".into(),
            digits_stripped(&progressed_by.join(",")),
            format!("at quiescence nothing was scheduled, yet a forced poll of {:?} made progress (pending tasks were {:?}); new API events: {:?}", progressed_by, pending_names, new.iter().take(6).collect::<Vec<_>>()),
        ));
    }
    // (a) goal: evaluated on the state *before* the forced polls would be unfair to h2 if they helped; they are a violation anyway
    let log = t.log.snapshot();
    if v.is_empty() {
        let f = check_fidelity(h.sc, &log, &t.mon, true, crate::c01::Expect::PerSpec);
        for (rule, sig, what) in f.vios {
            if rule == "C01.incomplete" {
                v.push(("C06.goal".into(), sig, what));
            }
        }
        // every application task has finished (each either completed its operations or saw an error)
        let stuck: Vec<String> = t.exec.tasks.iter().filter(|x| x.fut.is_some() && x.name != "connC" && x.name != "connS").map(|x| x.name.clone()).collect();
        if !stuck.is_empty() {
            v.push(("C06.stuck-task".into(), digits_stripped(&stuck.join(",")), format!("application tasks still waiting at quiescence: {:?}", stuck)));
        }
        if !h.sc.cfg.keep_send_request {
            for c in ["connC", "connS"] {
                if !t.exec.is_done(c) {
                    v.push(("C06.connection-not-finished".into(), c.into(), format!("{} has not completed although every handle is gone", c)));
                }
            }
        }
        if h.sc.cfg.ping && !log.iter().any(|r| r.side == Side::Client && r.k == usize::MAX && r.ev == Ev::Done) {
            v.push(("C06.goal".into(), "pong".into(), "the user ping was never answered".into()));
        }
    }
    v
}

pub fn c06_scenarios() -> Vec<Scenario> {
    let mut v = vec![];
    v.push(mk("ping-idle", Cfg { ping: true, keep_send_request: true, ..Cfg::default() }, vec![StreamSpec::new(m(&[]), m(&[1]))]));
    v.push(mk(
        "keepalive-window7",
        Cfg { keep_send_request: true, c_stream_window: Some(7), s_stream_window: Some(7), ..Cfg::default() },
        vec![StreamSpec::new(MsgSpec { use_capacity: true, ..m(&[20]) }, m(&[16, 1]))],
    ));
    v.push(mk(
        "lower-window-mid-stream",
        Cfg { s_stream_window: Some(16), s_set_window: Some(4), ..Cfg::default() },
        vec![StreamSpec::new(MsgSpec { use_capacity: true, ..m(&[12, 12, 12]) }, m(&[5]))],
    ));
    v.push(mk(
        "lower-window-late-reader",
        Cfg { s_stream_window: Some(16), s_set_window: Some(2), ..Cfg::default() },
        vec![StreamSpec { s_recv: RecvMode::Late, ..StreamSpec::new(m(&[12, 12]), m(&[5])) }],
    ));
    v.push(mk(
        "raise-window-mid-stream",
        Cfg { s_stream_window: Some(2), s_set_window: Some(50), ..Cfg::default() },
        vec![StreamSpec::new(MsgSpec { use_capacity: true, ..m(&[30]) }, m(&[5])), StreamSpec::new(m(&[30]), m(&[5]))],
    ));
    v.push(mk(
        "client-window-change",
        Cfg { c_stream_window: Some(20), c_set_window: Some(3), ..Cfg::default() },
        vec![StreamSpec::new(m(&[1]), MsgSpec { use_capacity: true, ..m(&[12, 12]) })],
    ));
    v.push(mk(
        "target-window",
        Cfg { s_target_window: Some(70_000), s_conn_window: Some(65535), ..Cfg::default() },
        vec![StreamSpec::new(m(&[66_000]), m(&[5]))],
    ));
    v.push(mk(
        "parked-requests",
        Cfg { s_max_concurrent: Some(1), c_initial_max_send_streams: Some(1), ..Cfg::default() },
        vec![StreamSpec::new(m(&[3]), m(&[3])), StreamSpec::new(m(&[4]), m(&[4])), StreamSpec::new(m(&[]), m(&[4]))],
    ));
    v.push(mk(
        "parked-reset-ready",
        Cfg { s_max_concurrent: Some(1), c_initial_max_send_streams: Some(1), c_parked_reset_then_ready: true, ..Cfg::default() },
        vec![StreamSpec { s_recv: RecvMode::Late, ..StreamSpec::new(m(&[3, 3]), m(&[3])) }],
    ));
    // a reservation above the send-buffer limit whose size is not a multiple of it, windows far larger than the limit
    v.push(mk(
        "send-buffer-5-tail",
        Cfg { c_max_send_buffer: Some(5), s_max_send_buffer: Some(5), ..Cfg::default() },
        vec![StreamSpec::new(MsgSpec { use_capacity: true, ..m(&[12]) }, MsgSpec { use_capacity: true, ..m(&[7, 6]) })],
    ));
    v.push(mk(
        "send-buffer-1",
        Cfg { c_max_send_buffer: Some(1), s_max_send_buffer: Some(1), ..Cfg::default() },
        vec![StreamSpec::new(MsgSpec { use_capacity: true, ..m(&[6]) }, MsgSpec { use_capacity: true, ..m(&[6]) })],
    ));
    v.extend(early_response_scenarios().into_iter().filter(|s| s.name != "early-response-short-request"));
    v
}

pub fn run_c06(ctx: &Ctx) -> Outcome {
    let mut out = with_budget_scale(0.85, || run_c06_main(ctx));
    out.absorb(generated_pass(ctx, "C06", judge_c06, full_policy()));
    out
}

fn run_c06_main(ctx: &Ctx) -> Outcome {
    let mut scs = c06_scenarios();
    scs.extend(scenarios(true).into_iter().filter(|s| !["frame16385", "body-40k", "big-headers"].contains(&s.name.as_str())));
    let max_dev = if ctx.tier.is_quick() { 2 } else { 3 };
    let mut out = run_t1_property(ctx, "C06", &scs, judge_c06, max_dev, full_policy(), &["partial_writes", "spurious_pendings"]);
    out.set("rule", json!("X1 on T1 under a strict executor (a task is polled only after its waker fired): every execution with <= k deviations runs to quiescence; there (a) every scripted operation has completed, (b) a forced poll of every still-pending task and of both connection tasks makes no progress (otherwise a wakeup was lost), (c) quiescence is reached within a horizon proportional to the work (no livelock)"));
    out.assume("cooperating peer = the other real endpoint with applications that read, release and keep polling");
    out
}

// ---------------------------------------------------------------------------------------------
// C17

fn judge_c17(h: &T1Harness, t: &mut T1, end: RunEnd) -> V3 {
    let mut v = vec![];
    let log = t.log.snapshot();
    let mut lc = [Lifecycle::new(Side::Client), Lifecycle::new(Side::Server)];
    for l in lc.iter_mut() {
        l.update(&t.mon);
        for (sid, n) in &l.rst_count {
            // With reset_stream_duration = 0 a locally reset stream is forgotten at once, and RFC 9113 5.1 then lets the
            // endpoint answer late frames of the peer with RST_STREAM(STREAM_CLOSED): those answers are not resets of the
            // application's and are not counted (DESIGN.md section 3, C17 scope).
            let stream_closed_answers = if h.sc.cfg.reset_expire_now {
                t.mon.frames_of(l.x).filter(|f| matches!(&f.parsed, Ok(Parsed::RstStream { sid: s, code: 5 }) if s == sid)).count() as u32
            } else {
                0
            };
            if *n - stream_closed_answers.min(*n - 1) > 1 {
                v.push(("C17.rst-twice".into(), l.x.name().into(), format!("{} sent {} RST_STREAM frames on stream {}", l.x.name(), n, sid)));
            }
        }
        for s in &l.violations {
            if s.contains("RST_STREAM") {
                if h.sc.cfg.reset_expire_now && s.contains("sent RST_STREAM") && s.contains("after its own RST_STREAM") {
                    continue;
                }
                v.push(("C17.rst-placement".into(), digits_stripped(s), s.clone()));
            }
        }
    }
    if end != RunEnd::Quiescent {
        return v;
    }
    let sid_of = |k: usize| log.iter().find_map(|r| if r.k == k && r.dir == Dir::Req { if let Ev::StreamId(s) = r.ev { Some(s) } else { None } } else { None });
    // index of an iolog position -> which frames had been delivered / sent by then is derived from the monitor's frame offsets
    let delivered_before = |sender: Side, sid: u32, io_pos: usize, pred: &dyn Fn(&Parsed) -> bool| -> bool {
        // count bytes of `sender`'s output read by the other side up to io_pos
        let s = t.sh.lock().unwrap();
        let mut read = 0u64;
        for e in s.iolog[..io_pos.min(s.iolog.len())].iter() {
            if e.side == sender.other() {
                if let IoEvKind::Read(n) = e.kind {
                    read += n as u64;
                }
            }
        }
        t.mon.frames.iter().any(|f| f.sender == sender && f.raw.stream() == sid && f.end_off <= read && f.parsed.as_ref().map(|p| pred(p)).unwrap_or(false))
    };
    for (k, spec) in h.sc.streams.iter().enumerate() {
        let Some(sid) = sid_of(k) else { continue };
        let (actor, want_code): (Side, Option<u32>) = match spec.cancel {
            Cancel::ClientReset { code, .. } => (Side::Client, Some(code)),
            Cancel::ServerReset { code, .. } => (Side::Server, Some(code)),
            Cancel::ClientDrop { .. } => (Side::Client, Some(8)),
            Cancel::ServerDrop => (Side::Server, None),
            // complete response, request not read to its end: NO_ERROR (RFC 9113 8.1)
            Cancel::ServerEarlyResponse => (Side::Server, Some(0)),
            Cancel::None => {
                // a stream that was never reset or dropped early gets no RST from either side, except the server's
                // NO_ERROR reset when it finished responding before reading the whole request (not scripted here)
                for l in &lc {
                    if l.rst_count.get(&sid).copied().unwrap_or(0) > 0 {
                        let code = t.mon.frames_of(l.x).find_map(|f| if let Ok(Parsed::RstStream { sid: s, code }) = &f.parsed { if *s == sid { Some(*code) } else { None } } else { None });
                        v.push(("C17.unexpected-rst".into(), format!("{}:{:?}", l.x.name(), code), format!("{} sent RST_STREAM({:?}) on stream {} that the application neither reset nor abandoned", l.x.name(), code, sid)));
                    }
                }
                continue;
            }
        };
        // when did the application act?
        let act = log.iter().find(|r| r.side == actor && r.k == k && matches!(r.ev, Ev::Reset(_) | Ev::Dropped));
        let Some(act) = act else { continue };
        let n_rst = lc[actor.idx()].rst_count.get(&sid).copied().unwrap_or(0);
        let rst_code = t.mon.frames_of(actor).find_map(|f| if let Ok(Parsed::RstStream { sid: s, code }) = &f.parsed { if *s == sid { Some(*code) } else { None } } else { None });
        // had the stream closed cleanly (both END_STREAMs) before the application acted?
        let own_end_submitted = log.iter().any(|r| r.side == actor && r.k == k && r.submitted && r.ev == Ev::End && r.io_pos <= act.io_pos && (r as *const _) < (act as *const _));
        let peer_end_delivered = delivered_before(actor.other(), sid, act.io_pos, &|p| matches!(p, Parsed::Data { eos: true, .. } | Parsed::Headers { eos: true, .. }));
        let peer_rst_delivered = delivered_before(actor.other(), sid, usize::MAX, &|p| matches!(p, Parsed::RstStream { .. }));
        let conn_over = log.iter().any(|r| r.side == actor && r.k == usize::MAX && matches!(&r.ev, Ev::Err(e) if e.starts_with("conn:")));
        if own_end_submitted && peer_end_delivered {
            // closed cleanly (as far as the transport is concerned): 0 expected; h2 may not have processed the frame yet, so 1 is tolerated
            continue;
        }
        if n_rst == 0 {
            if !(peer_rst_delivered || conn_over || (own_end_submitted && delivered_before(actor.other(), sid, usize::MAX, &|p| matches!(p, Parsed::Data { eos: true, .. } | Parsed::Headers { eos: true, .. })))) {
                v.push((
                    "C17.rst-missing".into(),
                    format!("{}:{:?}", actor.name(), std::mem::discriminant(&spec.cancel)),
                    format!("{} {} stream {} before it had finished, but no RST_STREAM was sent for it", actor.name(), if matches!(act.ev, Ev::Dropped) { "dropped all handles of" } else { "reset" }, sid),
                ));
            }
            continue;
        }
        match (want_code, rst_code) {
            (Some(w), Some(c)) if w != c => {
                // server that had completed its response resets with NO_ERROR; a drop by a client is CANCEL
                v.push(("C17.rst-code".into(), format!("{}:want{}:got{}", actor.name(), w, c), format!("{} asked for RST_STREAM({}) on stream {}, the wire carries code {}", actor.name(), w, sid, c)));
            }
            (None, Some(c)) => {
                // server handler dropped everything without responding: CANCEL
                if c != 8 {
                    v.push(("C17.rst-code".into(), format!("server-drop:got{}", c), format!("server dropped its handles of stream {} without responding; RST_STREAM carries {} instead of CANCEL", sid, c)));
                }
            }
            _ => {}
        }
        // the peer's handles report the exact code
        if let Some(c) = rst_code {
            let peer = actor.other();
            let rst_delivered = delivered_before(actor, sid, usize::MAX, &|p| matches!(p, Parsed::RstStream { .. }));
            if rst_delivered {
                for r in log.iter().filter(|r| r.side == peer && r.k == k) {
                    if let Ev::Err(e) = &r.ev {
                        let e = e.split(": ").last().unwrap_or("");
                        // errors caused by the reset must carry origin=remote, kind=reset, exact code
                        if e.contains(":reset:") && e != format!("remote:reset:{}", c) {
                            v.push(("C17.peer-error-surface".into(), digits_stripped(e), format!("{} handle of stream {} reported '{}', the peer's RST_STREAM carried code {}", peer.name(), sid, e, c)));
                        }
                    }
                }
            }
        }
    }
    // other streams are undisturbed
    let f = check_fidelity(h.sc, &log, &t.mon, true, false);
    for (rule, sig, what) in f.vios {
        if rule != "C01.incomplete" {
            v.push((format!("C17.{}", rule), sig, what));
        }
    }
    for (k, spec) in h.sc.streams.iter().enumerate() {
        if spec.cancel == Cancel::None {
            for (dir, from, to) in [(Dir::Req, Side::Client, Side::Server), (Dir::Resp, Side::Server, Side::Client)] {
                let s = sequence(&log, from, k, &dir, true);
                let r = sequence(&log, to, k, &dir, false);
                if s != r {
                    v.push(("C17.other-stream-disturbed".into(), format!("{:?}", dir), format!("stream #{} {:?} (not reset) did not complete: {} of {} items", k, dir, r.len(), s.len())));
                }
            }
        }
    }
    v
}

/// early responses (RFC 9113 8.1): the server answers completely without reading the request to its end
pub fn early_response_scenarios() -> Vec<Scenario> {
    let e = |req: MsgSpec, resp: MsgSpec| StreamSpec { cancel: Cancel::ServerEarlyResponse, ..StreamSpec::new(req, resp) };
    vec![
        // (the request must outlast the response: it is larger than the window of a server that does not read it)
        mk("early-response", Cfg { s_stream_window: Some(7), ..Cfg::default() }, vec![e(m(&[5, 5]), m(&[4])), StreamSpec::new(m(&[2]), m(&[2]))]),
        // the client is blocked on the server's stream window when the response and the reset arrive
        mk("early-response-client-blocked", Cfg { s_stream_window: Some(7), ..Cfg::default() }, vec![e(m(&[20, 20]), m(&[4]))]),
        // the response itself is blocked on the client's window: the NO_ERROR reset waits behind the DATA
        mk("early-response-blocked-response", Cfg { c_stream_window: Some(7), s_stream_window: Some(7), ..Cfg::default() }, vec![StreamSpec { c_recv: RecvMode::Late, ..e(m(&[5, 5]), m(&[20])) }, StreamSpec::new(m(&[2]), m(&[2]))]),
        // the request ends by itself meanwhile (no reset owed if END_STREAM arrives first)
        mk("early-response-short-request", Cfg::default(), vec![e(m(&[3]), m(&[4, 4]))]),
        // only one stream at a time: the slot of the early-answered stream must come back
        mk("early-response-max-concurrent-1", Cfg { s_max_concurrent: Some(1), c_initial_max_send_streams: Some(1), c_stream_window: Some(7), s_stream_window: Some(7), ..Cfg::default() }, vec![e(m(&[5, 5]), m(&[20])), StreamSpec::new(m(&[2]), m(&[2]))]),
    ]
}

pub fn c17_scenarios(quick: bool) -> Vec<Scenario> {
    let mut v = vec![];
    let codes: Vec<u32> = if quick { vec![0, 8, 0xffff_ffff] } else { vec![0, 1, 2, 7, 8, 0xd, 0xe, 0x8000_0000, 0xffff_ffff] };
    for &code in &codes {
        for after in [0usize, 1, 2] {
            v.push(mk(
                &format!("client-reset-{:#x}-after{}", code, after),
                Cfg::default(),
                vec![StreamSpec { cancel: Cancel::ClientReset { after_chunks: after, code }, ..StreamSpec::new(m(&[5, 5]), m(&[4])) }, StreamSpec::new(m(&[2]), m(&[2]))],
            ));
        }
        v.push(mk(
            &format!("server-reset-{:#x}", code),
            Cfg::default(),
            vec![StreamSpec { cancel: Cancel::ServerReset { after_chunks: 1, code }, ..StreamSpec::new(m(&[3]), m(&[5, 5])) }, StreamSpec::new(m(&[2]), m(&[2]))],
        ));
    }
    v.push(mk("client-drop-0", Cfg::default(), vec![StreamSpec { cancel: Cancel::ClientDrop { after_chunks: 0 }, ..StreamSpec::new(m(&[5, 5]), m(&[4])) }, StreamSpec::new(m(&[2]), m(&[2]))]));
    v.push(mk("client-drop-1", Cfg::default(), vec![StreamSpec { cancel: Cancel::ClientDrop { after_chunks: 1 }, ..StreamSpec::new(m(&[5, 5]), m(&[4])) }, StreamSpec::new(m(&[2]), m(&[2]))]));
    v.push(mk("server-drop", Cfg::default(), vec![StreamSpec { cancel: Cancel::ServerDrop, ..StreamSpec::new(m(&[5]), m(&[5])) }, StreamSpec::new(m(&[1]), m(&[1]))]));
    v.push(mk(
        "reset-parked",
        Cfg { s_max_concurrent: Some(1), c_initial_max_send_streams: Some(1), ..Cfg::default() },
        vec![StreamSpec::new(m(&[3]), m(&[3])), StreamSpec { cancel: Cancel::ClientReset { after_chunks: 0, code: 8 }, ..StreamSpec::new(m(&[4]), m(&[4])) }],
    ));
    v.push(mk(
        "reset-window0",
        Cfg { s_stream_window: Some(0), ..Cfg::default() },
        vec![StreamSpec { cancel: Cancel::ClientReset { after_chunks: 1, code: 2 }, ..StreamSpec::new(m(&[5, 1]), m(&[2])) }, StreamSpec::new(m(&[]), m(&[2]))],
    ));
    // another stream has a large frame parked in the codec (write back-pressure) with a remainder still to send
    v.push(mk(
        "reset-while-other-stream-in-codec",
        Cfg::default(),
        vec![StreamSpec { cancel: Cancel::ClientReset { after_chunks: 1, code: 8 }, ..StreamSpec::new(m(&[5, 5]), m(&[4])) }, StreamSpec::new(m(&[20000]), m(&[2]))],
    ));
    v.push(mk(
        "server-reset-while-other-stream-in-codec",
        Cfg { vectored: true, ..Cfg::default() },
        vec![StreamSpec { cancel: Cancel::ServerReset { after_chunks: 1, code: 2 }, ..StreamSpec::new(m(&[3]), m(&[5, 5])) }, StreamSpec::new(m(&[2]), m(&[20000]))],
    ));
    v.push(mk(
        "reset-expire-now",
        Cfg { reset_expire_now: true, ..Cfg::default() },
        vec![StreamSpec { cancel: Cancel::ClientReset { after_chunks: 1, code: 8 }, ..StreamSpec::new(m(&[5, 5]), m(&[4])) }, StreamSpec::new(m(&[2]), m(&[2]))],
    ));
    v.extend(early_response_scenarios());
    v
}

pub fn run_c17(ctx: &Ctx) -> Outcome {
    let mut out = with_budget_scale(0.85, || run_c17_main(ctx));
    out.absorb(generated_pass(ctx, "C17", judge_c17, full_policy()));
    {
        let mut vs = VioSet::default();
        for x in std::mem::take(&mut out.violations) {
            vs.add(x);
        }
        crate::fill::sweep(&mut out, &mut vs, ctx.tier.is_quick(), "C17");
        crate::c15::goaway_surfacing_for_c17(ctx, &mut out, &mut vs);
        crate::c16::capacity_after_cancel_for_c17(ctx, &mut out, &mut vs);
        out.violations = vs.into_vec();
    }
    out
}

fn run_c17_main(ctx: &Ctx) -> Outcome {
    let scs = c17_scenarios(ctx.tier.is_quick());
    let max_dev = if ctx.tier.is_quick() { 2 } else { 3 };
    let mut out = run_t1_property(ctx, "C17", &scs, judge_c17, max_dev, full_policy(), &["partial_writes"]);
    // code plumbing: all 2^32 values (thorough) / both half-words completely (quick) through the real frame encode/parse and Error mapping
    let (n, bad) = crate::codes::code_round_trip(ctx);
    out.harness("code-plumbing", json!({"codes_checked": n, "mismatches": bad.len()}));
    out.add_count("evaluations", n);
    out.add_count("transitions", n);
    out.add_count("traces_validated_against_impl", n);
    for b in bad.into_iter().take(5) {
        out.violations.push(b);
    }
    out.set("rule", json!("X1 on T1: for every reset / drop scenario all executions with <= k deviations; per stream and sender at most one RST_STREAM ever, exactly one when the application reset or abandoned a stream that had not closed cleanly (unless the peer's RST_STREAM or the end of the connection came first), the caller's code (CANCEL for a drop), RST after the stream's HEADERS, nothing of the stream after it, other streams complete, the peer's handles report origin remote / kind reset / the exact code. X3: error codes through RST_STREAM and GOAWAY encode -> bytes -> parse -> h2::Error::reason(). X2: the client model of C15 (one or two peer GOAWAYs with different codes and debug data) for the clause that a peer's GOAWAY surfaces on every affected handle with its exact code, origin and debug data"));
    out
}

pub fn replay_t1(v: &Value) -> Option<bool> {
    let h = v["harness"].as_str().unwrap_or("");
    Some(match h {
        "c02.t1" => {
            let mut scs = c02_scenarios();
            scs.extend(scenarios(true).into_iter().filter(|s| ["window7", "window1-capacity", "body-40k", "three-streams-late", "client-reset"].contains(&s.name.as_str())));
            replay(v, &scs, "C02", judge_c02, full_policy())
        }
        "c04.t1" => {
            let mut scs = c04_scenarios();
            scs.extend(scenarios(true).into_iter().filter(|s| ["post-trailers", "two-streams-interim", "push", "client-reset", "server-reset", "max-concurrent-1", "big-headers"].contains(&s.name.as_str())));
            replay(v, &scs, "C04", judge_c04, full_policy())
        }
        "c06.t1" => {
            let mut scs = c06_scenarios();
            scs.extend(scenarios(true).into_iter().filter(|s| !["frame16385", "body-40k", "big-headers"].contains(&s.name.as_str())));
            replay(v, &scs, "C06", judge_c06, full_policy())
        }
        "c17.t1" => {
            // scenario indices depend on the tier's code list: try the name
            let name = v["scenario_name"].as_str().unwrap_or("");
            let scs = c17_scenarios(false);
            let mut v2 = v.clone();
            if let Some(i) = scs.iter().position(|s| s.name == name) {
                v2["scenario"] = json!(i);
            }
            replay(&v2, &scs, "C17", judge_c17, full_policy())
        }
        _ => return None,
    })
}
