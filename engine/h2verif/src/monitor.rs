//! Wire monitor: sits on both pipes, splits the byte streams into frames with the independent parser of
//! `h2wire`, decodes header blocks with the reference HPACK decoder and produces one totally ordered stream of
//! "frame sent by X" / "frame received by X's peer transport" events that the per-property rule checkers consume.

use crate::sim::{IoEv, IoEvKind, Side};
use h2wire::frame::{self as wf, flag, ty, Defect, FrameParser, Parsed, RawFrame};
use h2wire::hpack::{Field, HpackError, RefDecoder};
use std::collections::{BTreeMap, VecDeque};

#[derive(Clone, Debug)]
pub struct FrameRec {
    pub sender: Side,
    pub raw: RawFrame,
    pub parsed: Result<Parsed, Defect>,
    pub start_off: u64,
    pub end_off: u64,
    /// for the frame that carries END_HEADERS: the decoded field list of the whole block, the stream it belongs
    /// to, whether the block started with HEADERS (false: PUSH_PROMISE), and END_STREAM of the initial HEADERS
    pub block: Option<BlockRec>,
}

#[derive(Clone, Debug)]
pub struct BlockRec {
    pub sid: u32,
    pub promised: Option<u32>,
    pub eos: bool,
    pub fields: Result<Vec<Field>, HpackError>,
    pub size_updates: Vec<u64>,
    pub frames: usize,
}

#[derive(Clone, Debug, PartialEq, Eq)]
pub enum WireEv {
    /// frame index: completely written by its sender
    Sent(usize),
    /// frame index: last byte handed to the receiving endpoint's transport read
    Delivered(usize),
    /// `side` shut down its write half
    Shutdown(Side),
    /// `side` observed EOF on read
    Eof(Side),
    Error(Side, &'static str),
}

struct Accum {
    sid: u32,
    promised: Option<u32>,
    eos: bool,
    frag: Vec<u8>,
    frames: usize,
}

pub struct WireMon {
    parsers: [FrameParser; 2],
    pub frames: Vec<FrameRec>,
    pub events: Vec<WireEv>,
    pub hpack: [RefDecoder; 2],
    accum: [Option<Accum>; 2],
    delivered: [u64; 2],
    undelivered: [VecDeque<usize>; 2],
    cursor: usize,
    /// SETTINGS sent by side i and not yet acknowledged by the other side (in order)
    pub unacked_settings: [VecDeque<Vec<(u16, u32)>>; 2],
    /// settings of side i as acknowledged by the other side (what the other side's sender must obey)
    pub acked: [BTreeMap<u16, u32>; 2],
    /// problems in the byte stream itself (bad preface, header block interleaving, HPACK errors)
    pub wire_defects: Vec<(Side, String)>,
    pub hpack_enabled: bool,
}

impl WireMon {
    pub fn new() -> WireMon {
        WireMon {
            parsers: [FrameParser::new(true), FrameParser::new(false)],
            frames: vec![],
            events: vec![],
            hpack: [RefDecoder::new(4096), RefDecoder::new(4096)],
            accum: [None, None],
            delivered: [0, 0],
            undelivered: [VecDeque::new(), VecDeque::new()],
            cursor: 0,
            unacked_settings: [VecDeque::new(), VecDeque::new()],
            acked: [BTreeMap::new(), BTreeMap::new()],
            wire_defects: vec![],
            hpack_enabled: true,
        }
    }

    /// bytes of `side`'s output not yet forming a complete frame
    pub fn partial_bytes(&self, side: Side) -> &[u8] {
        self.parsers[side.idx()].pending()
    }
    pub fn partial_head(&self, side: Side) -> Option<(u32, u8, u8, u32)> {
        self.parsers[side.idx()].partial_head()
    }
    pub fn preface_ok(&self) -> Option<bool> {
        self.parsers[0].preface_ok
    }

    /// Process the I/O log from where we stopped. Returns the index of the first new event.
    pub fn catch_up(&mut self, iolog: &[IoEv]) -> usize {
        let first_new = self.events.len();
        while self.cursor < iolog.len() {
            let ev = &iolog[self.cursor];
            self.cursor += 1;
            match &ev.kind {
                IoEvKind::Write(bytes) => self.on_write(ev.side, bytes),
                IoEvKind::Read(n) => self.on_read(ev.side, *n),
                IoEvKind::Shutdown => self.events.push(WireEv::Shutdown(ev.side)),
                IoEvKind::Eof => self.events.push(WireEv::Eof(ev.side)),
                IoEvKind::Error(what) => self.events.push(WireEv::Error(ev.side, what)),
            }
        }
        first_new
    }

    fn on_write(&mut self, side: Side, bytes: &[u8]) {
        let i = side.idx();
        self.parsers[i].feed(bytes);
        loop {
            let before = self.parsers[i].consumed;
            let Some(raw) = self.parsers[i].next() else { break };
            // preface bytes are consumed together with the first frame
            let end = self.parsers[i].consumed;
            let start = end - (wf::HEAD_LEN + raw.payload.len()) as u64;
            let _ = before;
            let parsed = raw.parse();
            let mut rec = FrameRec { sender: side, raw, parsed, start_off: start, end_off: end, block: None };
            self.track_blocks(side, &mut rec);
            self.track_settings(side, &rec);
            let idx = self.frames.len();
            self.frames.push(rec);
            self.events.push(WireEv::Sent(idx));
            self.undelivered[i].push_back(idx);
        }
        if side == Side::Client && self.parsers[0].preface_ok == Some(false) {
            if !self.wire_defects.iter().any(|(_, d)| d == "bad client preface") {
                self.wire_defects.push((side, "bad client preface".into()));
            }
        }
    }

    fn on_read(&mut self, reader: Side, n: usize) {
        let w = reader.other().idx();
        self.delivered[w] += n as u64;
        while let Some(&idx) = self.undelivered[w].front() {
            if self.frames[idx].end_off <= self.delivered[w] {
                self.undelivered[w].pop_front();
                self.events.push(WireEv::Delivered(idx));
            } else {
                break;
            }
        }
    }

    fn track_settings(&mut self, side: Side, rec: &FrameRec) {
        if let Ok(Parsed::Settings { ack, params }) = &rec.parsed {
            let i = side.idx();
            let o = side.other().idx();
            if *ack {
                // `side` acknowledges the oldest outstanding SETTINGS of the other side
                if let Some(p) = self.unacked_settings[o].pop_front() {
                    for (k, v) in p {
                        self.acked[o].insert(k, v);
                        if k == wf::setting::HEADER_TABLE_SIZE {
                            // blocks sent by `side` from now on may use a table of up to v
                            self.hpack[i].set_limit(v as usize);
                        }
                    }
                }
            } else {
                self.unacked_settings[i].push_back(params.clone());
            }
        }
    }

    fn track_blocks(&mut self, side: Side, rec: &mut FrameRec) {
        let i = side.idx();
        let in_block = self.accum[i].is_some();
        match &rec.parsed {
            Ok(Parsed::Headers { sid, frag, eos, eh, .. }) => {
                if in_block {
                    self.wire_defects.push((side, format!("HEADERS on {} inside an unfinished header block", sid)));
                }
                self.accum[i] = Some(Accum { sid: *sid, promised: None, eos: *eos, frag: frag.clone(), frames: 1 });
                if *eh {
                    self.finish_block(side, rec);
                }
            }
            Ok(Parsed::PushPromise { sid, promised, frag, eh, .. }) => {
                if in_block {
                    self.wire_defects.push((side, format!("PUSH_PROMISE on {} inside an unfinished header block", sid)));
                }
                self.accum[i] = Some(Accum { sid: *sid, promised: Some(*promised), eos: false, frag: frag.clone(), frames: 1 });
                if *eh {
                    self.finish_block(side, rec);
                }
            }
            Ok(Parsed::Continuation { sid, frag, eh }) => match self.accum[i].as_mut() {
                Some(a) if a.sid == *sid => {
                    a.frag.extend_from_slice(frag);
                    a.frames += 1;
                    if *eh {
                        self.finish_block(side, rec);
                    }
                }
                Some(a) => {
                    let d = format!("CONTINUATION on {} inside the header block of {}", sid, a.sid);
                    self.wire_defects.push((side, d));
                }
                None => self.wire_defects.push((side, format!("CONTINUATION on {} without a header block in progress", sid))),
            },
            other => {
                if in_block {
                    self.wire_defects.push((side, format!("{} inside an unfinished header block: {:?}", wf::type_name(rec.raw.ty), other.as_ref().map(|_| ()))));
                }
            }
        }
    }

    fn finish_block(&mut self, side: Side, rec: &mut FrameRec) {
        let i = side.idx();
        let a = self.accum[i].take().unwrap();
        let (fields, size_updates) = if self.hpack_enabled {
            match self.hpack[i].decode_block(&a.frag) {
                Ok(b) => (Ok(b.fields), b.size_updates),
                Err(e) => {
                    self.wire_defects.push((side, format!("header block on stream {} does not decode: {:?}", a.sid, e)));
                    (Err(e), vec![])
                }
            }
        } else {
            (Ok(vec![]), vec![])
        };
        rec.block = Some(BlockRec { sid: a.sid, promised: a.promised, eos: a.eos, fields, size_updates, frames: a.frames });
    }

    pub fn frames_of(&self, side: Side) -> impl Iterator<Item = &FrameRec> {
        self.frames.iter().filter(move |f| f.sender == side)
    }

    pub fn transcript(&self) -> String {
        let mut s = String::new();
        for e in &self.events {
            match e {
                WireEv::Sent(i) => {
                    let f = &self.frames[*i];
                    s.push_str(&format!("  {:>6} -> {}", f.sender.name(), f.raw.short()));
                    if let Some(b) = &f.block {
                        if let Ok(fields) = &b.fields {
                            let txt: Vec<String> = fields
                                .iter()
                                .map(|(n, v)| {
                                    let v = String::from_utf8_lossy(v);
                                    let v = if v.len() > 24 { format!("{}..({})", &v[..16], v.len()) } else { v.to_string() };
                                    format!("{}={}", String::from_utf8_lossy(n), v)
                                })
                                .collect();
                            s.push_str(&format!(" {{{}}}", txt.join(", ")));
                        }
                    }
                    s.push('\n');
                }
                WireEv::Delivered(_) => {}
                WireEv::Shutdown(side) => s.push_str(&format!("  {:>6} -> [shutdown]\n", side.name())),
                WireEv::Eof(side) => s.push_str(&format!("  {:>6} <- [EOF]\n", side.name())),
                WireEv::Error(side, w) => s.push_str(&format!("  {:>6} !! injected {} error\n", side.name(), w)),
            }
        }
        s
    }
}

// ---------------------------------------------------------------------------------------------
// C02: send-side flow-control accountant for one subject endpoint

/// Credit the subject `x` has been granted by its peer, reconstructed from the wire exactly as the property states:
/// initial window from the peer SETTINGS the subject has acknowledged (ACK position in the subject's own output),
/// WINDOW_UPDATE increments once their last byte has been read by the subject's transport.
pub struct FlowAcct {
    pub x: Side,
    pub conn_credit: i64,
    pub acked_iws: i64,
    /// per stream: WINDOW_UPDATE increments received minus DATA bytes sent
    pub stream_delta: BTreeMap<u32, i64>,
    pub violations: Vec<String>,
    pub data_frames: u64,
    pub data_bytes: u64,
    pub window_limited_frames: u64,
    pub negative_window_seen: bool,
    cursor: usize,
}

impl FlowAcct {
    pub fn new(x: Side) -> FlowAcct {
        FlowAcct { x, conn_credit: 65535, acked_iws: 65535, stream_delta: BTreeMap::new(), violations: vec![], data_frames: 0, data_bytes: 0, window_limited_frames: 0, negative_window_seen: false, cursor: 0 }
    }
    pub fn stream_credit(&self, sid: u32) -> i64 {
        self.acked_iws + self.stream_delta.get(&sid).copied().unwrap_or(0)
    }
    pub fn update(&mut self, mon: &WireMon) {
        // pending (sent by peer, not yet acked by x) settings are tracked by replaying the event stream ourselves
        while self.cursor < mon.events.len() {
            let ev = mon.events[self.cursor].clone();
            self.cursor += 1;
            match ev {
                WireEv::Sent(i) if mon.frames[i].sender == self.x => {
                    let f = &mon.frames[i];
                    match &f.parsed {
                        Ok(Parsed::Data { sid, .. }) => {
                            let len = f.raw.payload.len() as i64;
                            self.data_frames += 1;
                            self.data_bytes += len as u64;
                            let sc = self.stream_credit(*sid);
                            if sc < 0 || self.conn_credit < 0 {
                                self.negative_window_seen = true;
                            }
                            if len > 0 {
                                if len > sc {
                                    self.violations.push(format!("{} sent DATA of {} octets on stream {} with stream credit {}", self.x.name(), len, sid, sc));
                                }
                                if len > self.conn_credit {
                                    self.violations.push(format!("{} sent DATA of {} octets on stream {} with connection credit {}", self.x.name(), len, sid, self.conn_credit));
                                }
                                if len == sc || len == self.conn_credit {
                                    self.window_limited_frames += 1;
                                }
                            }
                            *self.stream_delta.entry(*sid).or_insert(0) -= len;
                            self.conn_credit -= len;
                        }
                        Ok(Parsed::Settings { ack: true, .. }) => {
                            // the monitor has already moved the acknowledged values into acked[peer]
                        }
                        _ => {}
                    }
                    // acked_iws must reflect ACKs up to and including this frame: recompute lazily
                    if let Ok(Parsed::Settings { ack: true, .. }) = &f.parsed {
                        self.recompute_iws(mon, i);
                    }
                }
                WireEv::Delivered(i) if mon.frames[i].sender != self.x => {
                    if let Ok(Parsed::WindowUpdate { sid, inc }) = &mon.frames[i].parsed {
                        if *sid == 0 {
                            self.conn_credit += *inc as i64;
                        } else {
                            *self.stream_delta.entry(*sid).or_insert(0) += *inc as i64;
                        }
                    }
                }
                _ => {}
            }
        }
    }

    /// Value of the peer's INITIAL_WINDOW_SIZE as acknowledged by x up to frame index `upto` (inclusive).
    fn recompute_iws(&mut self, mon: &WireMon, upto: usize) {
        let peer = self.x.other();
        let mut pending: VecDeque<&Vec<(u16, u32)>> = VecDeque::new();
        let mut iws: i64 = 65535;
        for (i, f) in mon.frames.iter().enumerate() {
            if i > upto {
                break;
            }
            if let Ok(Parsed::Settings { ack, params }) = &f.parsed {
                if f.sender == peer && !*ack {
                    pending.push_back(params);
                } else if f.sender == self.x && *ack {
                    if let Some(p) = pending.pop_front() {
                        for (k, v) in p {
                            if *k == wf::setting::INITIAL_WINDOW_SIZE {
                                iws = *v as i64;
                            }
                        }
                    }
                }
            }
        }
        self.acked_iws = iws;
    }
}

pub fn _unused(_: (u8, u8)) {
    let _ = (flag::ACK, ty::DATA);
}

// ---------------------------------------------------------------------------------------------
// C04: sender life-cycle automaton for one endpoint's output (RFC 9113 sections 5.1, 5.1.1, 6)

#[derive(Clone, Copy, Debug, PartialEq, Eq)]
enum SendState {
    /// promised by our own PUSH_PROMISE, no HEADERS yet
    Reserved,
    /// HEADERS sent (for a server: at least one response head), send side open
    Open,
    /// we sent END_STREAM
    Ended,
    /// we sent RST_STREAM
    Reset,
}

pub struct Lifecycle {
    pub x: Side,
    state: BTreeMap<u32, SendState>,
    /// final (non-1xx) response head sent on this stream (server) / request head sent (client)
    final_head_sent: BTreeMap<u32, bool>,
    /// peer-initiated streams whose opening HEADERS the subject's transport has received
    peer_opened: std::collections::BTreeSet<u32>,
    /// streams promised to us by the peer (client side)
    peer_promised: std::collections::BTreeSet<u32>,
    max_own_id: u32,
    pub violations: Vec<String>,
    pub rst_count: BTreeMap<u32, u32>,
    pub streams_opened: u64,
    cursor: usize,
}

impl Lifecycle {
    pub fn new(x: Side) -> Lifecycle {
        Lifecycle {
            x,
            state: BTreeMap::new(),
            final_head_sent: BTreeMap::new(),
            peer_opened: Default::default(),
            peer_promised: Default::default(),
            max_own_id: 0,
            violations: vec![],
            rst_count: BTreeMap::new(),
            streams_opened: 0,
            cursor: 0,
        }
    }
    fn own_parity(&self, sid: u32) -> bool {
        match self.x {
            Side::Client => sid % 2 == 1,
            Side::Server => sid % 2 == 0,
        }
    }
    fn v(&mut self, s: String) {
        if self.violations.len() < 20 {
            self.violations.push(s);
        }
    }
    pub fn update(&mut self, mon: &WireMon) {
        while self.cursor < mon.events.len() {
            let ev = mon.events[self.cursor].clone();
            self.cursor += 1;
            match ev {
                WireEv::Delivered(i) if mon.frames[i].sender != self.x => match &mon.frames[i].parsed {
                    Ok(Parsed::Headers { sid, .. }) => {
                        if !self.own_parity(*sid) {
                            self.peer_opened.insert(*sid);
                        }
                    }
                    Ok(Parsed::PushPromise { promised, .. }) => {
                        self.peer_promised.insert(*promised);
                    }
                    _ => {}
                },
                WireEv::Sent(i) if mon.frames[i].sender == self.x => {
                    let f = mon.frames[i].clone();
                    self.on_sent(&f);
                }
                _ => {}
            }
        }
    }
    fn on_sent(&mut self, f: &FrameRec) {
        let me = self.x.name();
        let sid = f.raw.stream();
        let tname = wf::type_name(f.raw.ty);
        if f.raw.sid & 0x8000_0000 != 0 {
            self.v(format!("{} sent {} with the reserved bit set", me, tname));
        }
        let parsed = match &f.parsed {
            Ok(p) => p.clone(),
            Err(d) => {
                self.v(format!("{} sent a malformed {} frame on stream {}: {:?}", me, tname, sid, d));
                return;
            }
        };
        // connection-level vs stream-level placement (the frame-local parser already rejects most of these)
        match f.raw.ty {
            ty::SETTINGS | ty::PING | ty::GOAWAY => {
                if sid != 0 {
                    self.v(format!("{} sent {} on stream {}", me, tname, sid));
                }
                return;
            }
            ty::WINDOW_UPDATE if sid == 0 => return,
            ty::DATA | ty::HEADERS | ty::PRIORITY | ty::RST_STREAM | ty::PUSH_PROMISE | ty::CONTINUATION => {
                if sid == 0 {
                    self.v(format!("{} sent {} on stream 0", me, tname));
                    return;
                }
            }
            _ => {}
        }
        if f.raw.ty > 9 {
            return;
        }
        if f.raw.ty == ty::PRIORITY {
            return; // allowed in every state
        }
        if f.raw.ty == ty::CONTINUATION {
            // part of the header block its HEADERS / PUSH_PROMISE started (which may already carry END_STREAM); that it
            // follows that frame immediately and on the same stream is checked by the monitor (header block contiguity)
            if let Some(b) = &f.block {
                if self.x == Side::Server {
                    if let Ok(fs) = &b.fields {
                        let status: Option<u16> = fs.iter().find(|(n, _)| n == b":status").and_then(|(_, v)| std::str::from_utf8(v).ok()?.parse().ok());
                        if let Some(s) = status {
                            if !(100..200).contains(&s) {
                                self.final_head_sent.insert(b.sid, true);
                            }
                        }
                    }
                }
            }
            return;
        }
        let st = self.state.get(&sid).copied();
        // frames after our own close
        match st {
            Some(SendState::Reset) => {
                // RFC 9113 5.1 (closed): an endpoint "can choose to limit the period over which it ignores frames and treat
                // frames that arrive after this time as being in error" - a further RST_STREAM(STREAM_CLOSED) answering a
                // late peer frame on a stream whose reset it no longer remembers is sanctioned; anything else is not
                let late_answer = matches!(&f.parsed, Ok(Parsed::RstStream { code: 5, .. }));
                if !late_answer {
                    self.v(format!("{} sent {} on stream {} after its own RST_STREAM", me, tname, sid));
                }
                if f.raw.ty == ty::RST_STREAM {
                    *self.rst_count.entry(sid).or_insert(0) += 1;
                }
                return;
            }
            Some(SendState::Ended) => {
                if !matches!(f.raw.ty, ty::WINDOW_UPDATE | ty::RST_STREAM) {
                    self.v(format!("{} sent {} on stream {} after its own END_STREAM", me, tname, sid));
                    return;
                }
            }
            _ => {}
        }
        match parsed {
            Parsed::Headers { eos, .. } => {
                // CONTINUATION frames belong to the block; state changes are applied at the first frame
                let status: Option<u16> = f.block.as_ref().and_then(|b| b.fields.as_ref().ok()).and_then(|fs| fs.iter().find(|(n, _)| n == b":status").and_then(|(_, v)| std::str::from_utf8(v).ok()?.parse().ok()));
                match st {
                    None => {
                        if self.own_parity(sid) {
                            if self.x == Side::Server {
                                self.v(format!("server sent HEADERS on stream {} that it never promised", sid));
                            } else {
                                if sid <= self.max_own_id {
                                    self.v(format!("client opened stream {} after stream {} (identifiers must increase)", sid, self.max_own_id));
                                }
                                self.max_own_id = self.max_own_id.max(sid);
                                self.streams_opened += 1;
                            }
                        } else if self.x == Side::Client {
                            self.v(format!("client sent HEADERS on server-initiated stream {}", sid));
                        } else if !self.peer_opened.contains(&sid) {
                            self.v(format!("server sent HEADERS on idle stream {} (no request received on it)", sid));
                        }
                        self.state.insert(sid, if eos { SendState::Ended } else { SendState::Open });
                        // interim responses keep the "final head" pending; END_HEADERS-less first frames have no block yet
                        let interim = self.x == Side::Server && status.map(|s| (100..200).contains(&s)).unwrap_or(false);
                        self.final_head_sent.insert(sid, !interim);
                        if interim && eos {
                            self.v(format!("server sent END_STREAM on an interim response on stream {}", sid));
                        }
                    }
                    Some(SendState::Reserved) => {
                        self.state.insert(sid, if eos { SendState::Ended } else { SendState::Open });
                        self.final_head_sent.insert(sid, true);
                    }
                    Some(SendState::Open) => {
                        let final_sent = self.final_head_sent.get(&sid).copied().unwrap_or(true);
                        if final_sent {
                            // trailers
                            if !eos {
                                self.v(format!("{} sent a second HEADERS without END_STREAM on stream {} (trailers must end the stream)", me, sid));
                            }
                        } else {
                            let interim = status.map(|s| (100..200).contains(&s)).unwrap_or(false);
                            if !interim {
                                self.final_head_sent.insert(sid, true);
                            }
                        }
                        if eos {
                            self.state.insert(sid, SendState::Ended);
                        }
                    }
                    _ => {}
                }
            }
            Parsed::Continuation { .. } => {
                // contiguity is checked by the monitor; the status of a block split over CONTINUATION is known only at its end
                if let Some(b) = &f.block {
                    if self.x == Side::Server {
                        if let Ok(fs) = &b.fields {
                            let status: Option<u16> = fs.iter().find(|(n, _)| n == b":status").and_then(|(_, v)| std::str::from_utf8(v).ok()?.parse().ok());
                            if let Some(s) = status {
                                if !(100..200).contains(&s) {
                                    self.final_head_sent.insert(b.sid, true);
                                }
                            }
                        }
                    }
                }
            }
            Parsed::Data { eos, .. } => match st {
                Some(SendState::Open) => {
                    if self.final_head_sent.get(&sid) == Some(&false) {
                        self.v(format!("server sent DATA on stream {} before the final response head", sid));
                    }
                    if eos {
                        self.state.insert(sid, SendState::Ended);
                    }
                }
                None => self.v(format!("{} sent DATA on idle stream {}", me, sid)),
                Some(SendState::Reserved) => self.v(format!("{} sent DATA on reserved stream {} before HEADERS", me, sid)),
                _ => {}
            },
            Parsed::RstStream { .. } => {
                *self.rst_count.entry(sid).or_insert(0) += 1;
                let known = st.is_some() || self.peer_opened.contains(&sid) || self.peer_promised.contains(&sid);
                if !known {
                    self.v(format!("{} sent RST_STREAM on idle stream {}", me, sid));
                }
                self.state.insert(sid, SendState::Reset);
            }
            Parsed::WindowUpdate { .. } => {
                let known = st.is_some() || self.peer_opened.contains(&sid) || self.peer_promised.contains(&sid);
                if !known {
                    self.v(format!("{} sent WINDOW_UPDATE on idle stream {}", me, sid));
                }
            }
            Parsed::PushPromise { promised, .. } => {
                if self.x == Side::Client {
                    self.v("client sent PUSH_PROMISE".to_string());
                    return;
                }
                if self.own_parity(sid) || !self.peer_opened.contains(&sid) {
                    self.v(format!("server sent PUSH_PROMISE on stream {} which is not an open client-initiated stream", sid));
                }
                if promised % 2 != 0 || promised == 0 {
                    self.v(format!("server promised stream {} (must be even)", promised));
                }
                if promised <= self.max_own_id {
                    self.v(format!("server promised stream {} after {} (identifiers must increase)", promised, self.max_own_id));
                }
                self.max_own_id = self.max_own_id.max(promised);
                self.streams_opened += 1;
                self.state.insert(promised, SendState::Reserved);
            }
            _ => {}
        }
    }
}
