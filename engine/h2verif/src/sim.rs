//! Deterministic simulator core: choice recorder, in-memory transport with choice points, flag wakers and a
//! strict (wake-only) executor whose scheduling decisions are choices too. Everything nondeterministic that the
//! hosted h2 endpoints can observe goes through `Chooser::choose`.

use std::collections::VecDeque;
use std::future::Future;
use std::io;
use std::panic::{catch_unwind, AssertUnwindSafe};
use std::pin::Pin;
use std::sync::atomic::{AtomicBool, AtomicU64, Ordering};
use std::sync::{Arc, Mutex};
use std::task::{Context, Poll, Wake, Waker};
use tokio::io::{AsyncRead, AsyncWrite, ReadBuf};

// ---------------------------------------------------------------------------------------------
// choices

pub mod tag {
    pub const SCHED: u8 = 1;
    pub const WRITE: u8 = 2;
    pub const READ: u8 = 3;
    pub const FLUSH: u8 = 4;
    pub const SHUTDOWN: u8 = 5;
    pub const EVENT: u8 = 6; // X2: which event of the alphabet
    pub const APP: u8 = 7; // application-level choice (e.g. where to inject)
    pub const FAULT: u8 = 8;
}

#[derive(Clone, Copy, Debug)]
pub struct Pt {
    pub n: u32,
    pub c: u32,
    pub tag: u8,
    /// all alternatives are "default" (no deviation cost): X2 event choice
    pub free: bool,
}

#[derive(Debug)]
pub struct ReplayDiverged(pub String);

pub struct Chooser {
    pub prefix: Vec<u32>,
    pub trace: Vec<Pt>,
    /// set when a replayed prefix asks for an alternative that does not exist: hard machinery error
    pub diverged: Option<String>,
    /// when false, every choice takes the default without being recorded (used in epilogues)
    pub recording: bool,
}

impl Chooser {
    pub fn new(prefix: Vec<u32>) -> Chooser {
        Chooser { prefix, trace: Vec::with_capacity(256), diverged: None, recording: true }
    }
    pub fn choose(&mut self, tag: u8, n: usize, free: bool) -> usize {
        if n <= 1 || !self.recording {
            return 0;
        }
        let i = self.trace.len();
        let c = if i < self.prefix.len() {
            let c = self.prefix[i];
            if c as usize >= n {
                if self.diverged.is_none() {
                    self.diverged = Some(format!("choice {} (tag {}) asks for alternative {} of {}", i, tag, c, n));
                }
                0
            } else {
                c
            }
        } else {
            0
        };
        self.trace.push(Pt { n: n as u32, c, tag, free });
        c as usize
    }
    pub fn choices(&self) -> Vec<u32> {
        self.trace.iter().map(|p| p.c).collect()
    }
}

// ---------------------------------------------------------------------------------------------
// transport

#[derive(Clone, Copy, Debug, PartialEq, Eq, Hash, PartialOrd, Ord)]
pub enum Side {
    Client = 0,
    Server = 1,
}

impl Side {
    pub fn other(self) -> Side {
        match self {
            Side::Client => Side::Server,
            Side::Server => Side::Client,
        }
    }
    pub fn idx(self) -> usize {
        self as usize
    }
    pub fn name(self) -> &'static str {
        match self {
            Side::Client => "client",
            Side::Server => "server",
        }
    }
}

#[derive(Clone, Debug, PartialEq, Eq)]
pub enum IoEvKind {
    /// bytes accepted from the writer `side`
    Write(Vec<u8>),
    /// `n` bytes handed to the reader `side`
    Read(usize),
    /// writer `side` shut its write half down
    Shutdown,
    /// reader `side` observed EOF
    Eof,
    /// an injected error was returned to `side`
    Error(&'static str),
}

#[derive(Clone, Debug)]
pub struct IoEv {
    pub side: Side,
    pub kind: IoEvKind,
}

#[derive(Default)]
pub struct Pipe {
    pub buf: VecDeque<u8>,
    /// writer has shut down (reader sees EOF after draining)
    pub closed: bool,
    /// reader is gone (writes fail with BrokenPipe)
    pub reader_gone: bool,
    pub reader_waker: Option<Waker>,
    pub total_written: u64,
    pub total_read: u64,
}

/// What alternatives a transport callback offers besides the default answer.
#[derive(Clone, Debug)]
pub struct IoPolicy {
    /// partial writes: offer "1 byte" and the structural cut offsets
    pub short_writes: bool,
    /// short reads: offer "1 byte" and cuts
    pub short_reads: bool,
    /// offer a spurious `Pending` (woken later by a transport-ready event)
    pub pending: bool,
    /// explicit cut offsets (relative to the offered buffer) in addition to the built-in ones
    pub dense_cut_limit: usize,
    /// if set, writes are capped at this many bytes per call by default (write budget; no choice involved)
    pub write_cap: Option<usize>,
    /// vectored writes advertised to h2 (switches the codec's chain threshold)
    pub vectored: bool,
    /// fault alternatives
    pub write_err: bool,
    pub write_zero: bool,
    pub read_err: bool,
    pub read_eof: bool,
    /// offer "the peer's next octets are not HTTP/2" (a frame that is a connection error for any receiver)
    pub read_garbage: bool,
    pub shutdown_alts: bool,
    /// writes are blocked (Pending, no choice) until `unblock` — models back-pressure
    pub write_blocked: bool,
    /// once the peer has dropped its transport, writes fail with BrokenPipe (otherwise they are accepted and discarded,
    /// which is what a half-closed TCP connection does until an RST arrives)
    pub error_on_peer_gone: bool,
    /// total number of octets the transport accepts before it applies back-pressure (Pending until the budget is lifted)
    pub write_budget: Option<usize>,
}

impl Default for IoPolicy {
    fn default() -> Self {
        IoPolicy {
            short_writes: false,
            short_reads: false,
            pending: false,
            dense_cut_limit: 48,
            write_cap: None,
            vectored: false,
            write_err: false,
            write_zero: false,
            read_err: false,
            read_eof: false,
            read_garbage: false,
            shutdown_alts: false,
            write_blocked: false,
            error_on_peer_gone: false,
            write_budget: None,
        }
    }
}

pub fn cut_offsets(len: usize, dense_limit: usize) -> Vec<usize> {
    let mut v = vec![];
    if len <= 1 {
        return v;
    }
    if len <= dense_limit {
        v.extend(1..len);
        return v;
    }
    for k in [1usize, 2, 3, 8, 9, 10, 17, 18, 23, 24, 25, 255, 256, 257, 1023, 1024, 1025, 16383, 16384, 16385, 16392, 16393, 16394] {
        if k < len {
            v.push(k);
        }
    }
    for k in [len - 1, len - 2, len - 9, len / 2] {
        if k >= 1 && k < len && !v.contains(&k) {
            v.push(k);
        }
    }
    v
}

pub struct Shared {
    pub chooser: Chooser,
    /// pipes[side] = bytes written by `side`, read by the other side
    pub pipes: [Pipe; 2],
    pub policy: [IoPolicy; 2],
    pub iolog: Vec<IoEv>,
    /// spurious-Pending wakers waiting for a transport-ready event: (side, waker)
    pub io_ready: Vec<(Side, &'static str, Waker)>,
    /// wakers of writers blocked by `write_blocked`
    pub blocked_writers: [Option<Waker>; 2],
    pub latched_write_err: [bool; 2],
    pub latched_read_err: [bool; 2],
    pub panics: Vec<String>,
    /// counters of mechanism coverage (harnesses add their own)
    pub partial_writes: u64,
    pub partial_reads: u64,
    pub pendings: u64,
    pub transport_calls: u64,
    /// C20: called at the start of every transport callback of `hook_side` (before the simulator's own lock is taken), i.e.
    /// at the points where the connection task has released h2's internal locks around I/O
    pub hook: Option<Arc<dyn Fn(&'static str) + Send + Sync>>,
    pub hook_side: Side,
    /// C19 on T1 (`Cfg::probe`): the stream-store snapshot each connection task took when its connection last returned
    /// Pending, and the SendRequest that keeps the client connection open until the judge lets go of it
    pub snaps: [Option<h2::verif::StreamsSnapshot>; 2],
    /// set by the judge before its final forced polls: only then are snapshots taken (they are dear)
    pub want_snaps: bool,
    pub keeper: Option<Box<dyn std::any::Any + Send>>,
}

pub type Sh = Arc<Mutex<Shared>>;

pub fn new_shared(prefix: Vec<u32>) -> Sh {
    Arc::new(Mutex::new(Shared {
        chooser: Chooser::new(prefix),
        pipes: [Pipe::default(), Pipe::default()],
        policy: [IoPolicy::default(), IoPolicy::default()],
        iolog: vec![],
        io_ready: vec![],
        blocked_writers: [None, None],
        latched_write_err: [false, false],
        latched_read_err: [false, false],
        panics: vec![],
        partial_writes: 0,
        partial_reads: 0,
        pendings: 0,
        transport_calls: 0,
        hook: None,
        hook_side: Side::Client,
        snaps: [None, None],
        want_snaps: false,
        keeper: None,
    }))
}

impl Shared {
    pub fn choose(&mut self, tag: u8, n: usize) -> usize {
        self.chooser.choose(tag, n, false)
    }
    pub fn bytes_in_flight(&self) -> usize {
        self.pipes[0].buf.len() + self.pipes[1].buf.len()
    }
    /// scripted peer: push bytes as if written by `side`
    pub fn inject(&mut self, side: Side, bytes: &[u8]) {
        let p = &mut self.pipes[side.idx()];
        p.buf.extend(bytes.iter().copied());
        p.total_written += bytes.len() as u64;
        self.iolog.push(IoEv { side, kind: IoEvKind::Write(bytes.to_vec()) });
        if let Some(w) = self.pipes[side.idx()].reader_waker.take() {
            w.wake();
        }
    }
    /// scripted peer: close its write half
    pub fn inject_eof(&mut self, side: Side) {
        self.pipes[side.idx()].closed = true;
        self.iolog.push(IoEv { side, kind: IoEvKind::Shutdown });
        if let Some(w) = self.pipes[side.idx()].reader_waker.take() {
            w.wake();
        }
    }
    /// scripted peer: take everything the other side wrote so far
    pub fn drain(&mut self, reader: Side) -> Vec<u8> {
        let w = reader.other();
        let p = &mut self.pipes[w.idx()];
        let v: Vec<u8> = p.buf.drain(..).collect();
        p.total_read += v.len() as u64;
        if !v.is_empty() {
            self.iolog.push(IoEv { side: reader, kind: IoEvKind::Read(v.len()) });
        }
        v
    }
    /// None lifts the budget (and wakes a writer that ran into it)
    pub fn set_write_budget(&mut self, side: Side, budget: Option<usize>) {
        self.policy[side.idx()].write_budget = budget;
        if budget.is_none() {
            if let Some(w) = self.blocked_writers[side.idx()].take() {
                w.wake();
            }
        }
    }
    pub fn set_write_blocked(&mut self, side: Side, blocked: bool) {
        self.policy[side.idx()].write_blocked = blocked;
        if !blocked {
            if let Some(w) = self.blocked_writers[side.idx()].take() {
                w.wake();
            }
        }
    }
}

pub struct SimIo {
    pub sh: Sh,
    pub side: Side,
}

impl Drop for SimIo {
    fn drop(&mut self) {
        if let Ok(mut s) = self.sh.lock() {
            let me = self.side.idx();
            let other = self.side.other().idx();
            // our write half closes, and nobody reads the other direction any more
            if !s.pipes[me].closed {
                s.pipes[me].closed = true;
                s.iolog.push(IoEv { side: self.side, kind: IoEvKind::Shutdown });
            }
            s.pipes[other].reader_gone = true;
            if let Some(w) = s.pipes[me].reader_waker.take() {
                w.wake();
            }
            if let Some(w) = s.blocked_writers[other].take() {
                w.wake();
            }
        }
    }
}

#[derive(Clone, Copy)]
enum WOpt {
    All,
    Bytes(usize),
    Pending,
    Err,
    Zero,
}

impl SimIo {
    fn pre(&self, kind: &'static str) {
        let hook = {
            let s = self.sh.lock().unwrap();
            if s.hook_side == self.side {
                s.hook.clone()
            } else {
                None
            }
        };
        if let Some(h) = hook {
            h(kind);
        }
    }
    fn do_write(&mut self, cx: &mut Context<'_>, data: &[u8]) -> Poll<io::Result<usize>> {
        self.pre("write");
        let mut s = self.sh.lock().unwrap();
        let me = self.side.idx();
        s.transport_calls += 1;
        if s.latched_write_err[me] {
            return Poll::Ready(Err(io::Error::new(io::ErrorKind::BrokenPipe, "sim: write error (latched)")));
        }
        if s.pipes[me].reader_gone && s.policy[me].error_on_peer_gone {
            s.iolog.push(IoEv { side: self.side, kind: IoEvKind::Error("write: peer gone") });
            return Poll::Ready(Err(io::Error::new(io::ErrorKind::BrokenPipe, "sim: peer gone")));
        }
        if s.pipes[me].closed {
            return Poll::Ready(Err(io::Error::new(io::ErrorKind::BrokenPipe, "sim: write after shutdown")));
        }
        if data.is_empty() {
            return Poll::Ready(Ok(0));
        }
        if s.policy[me].write_blocked || s.policy[me].write_budget == Some(0) {
            s.blocked_writers[me] = Some(cx.waker().clone());
            return Poll::Pending;
        }
        let pol = s.policy[me].clone();
        let budget_cap = pol.write_budget.unwrap_or(usize::MAX);
        let data = &data[..data.len().min(budget_cap)];
        if let Some(b) = s.policy[me].write_budget.as_mut() {
            *b -= data.len().min(*b);
        }
        let full = match pol.write_cap {
            Some(c) => data.len().min(c.max(1)),
            None => data.len(),
        };
        let mut opts = vec![WOpt::All];
        if pol.short_writes {
            for k in cut_offsets(full, pol.dense_cut_limit) {
                opts.push(WOpt::Bytes(k));
            }
        }
        if pol.pending {
            opts.push(WOpt::Pending);
        }
        if pol.write_err {
            opts.push(WOpt::Err);
        }
        if pol.write_zero {
            opts.push(WOpt::Zero);
        }
        let k = s.choose(tag::WRITE, opts.len());
        let n = match opts[k] {
            WOpt::All => full,
            WOpt::Bytes(k) => {
                s.partial_writes += 1;
                k
            }
            WOpt::Pending => {
                s.pendings += 1;
                s.io_ready.push((self.side, "write-ready", cx.waker().clone()));
                return Poll::Pending;
            }
            WOpt::Err => {
                s.latched_write_err[me] = true;
                s.iolog.push(IoEv { side: self.side, kind: IoEvKind::Error("write") });
                return Poll::Ready(Err(io::Error::new(io::ErrorKind::BrokenPipe, "sim: injected write error")));
            }
            WOpt::Zero => {
                s.iolog.push(IoEv { side: self.side, kind: IoEvKind::Error("write-zero") });
                return Poll::Ready(Ok(0));
            }
        };
        if n < data.len() && matches!(opts[k], WOpt::All) {
            s.partial_writes += 1;
        }
        let gone = s.pipes[me].reader_gone;
        let p = &mut s.pipes[me];
        if !gone {
            p.buf.extend(data[..n].iter().copied());
        }
        p.total_written += n as u64;
        let w = p.reader_waker.take();
        s.iolog.push(IoEv { side: self.side, kind: IoEvKind::Write(data[..n].to_vec()) });
        drop(s);
        if let Some(w) = w {
            w.wake();
        }
        Poll::Ready(Ok(n))
    }
}

impl AsyncWrite for SimIo {
    fn poll_write(mut self: Pin<&mut Self>, cx: &mut Context<'_>, buf: &[u8]) -> Poll<io::Result<usize>> {
        self.do_write(cx, buf)
    }
    fn poll_write_vectored(mut self: Pin<&mut Self>, cx: &mut Context<'_>, bufs: &[io::IoSlice<'_>]) -> Poll<io::Result<usize>> {
        let mut all = vec![];
        for b in bufs {
            all.extend_from_slice(b);
        }
        self.do_write(cx, &all)
    }
    fn is_write_vectored(&self) -> bool {
        self.sh.lock().unwrap().policy[self.side.idx()].vectored
    }
    fn poll_flush(self: Pin<&mut Self>, cx: &mut Context<'_>) -> Poll<io::Result<()>> {
        self.pre("flush");
        let mut s = self.sh.lock().unwrap();
        let me = self.side.idx();
        s.transport_calls += 1;
        if s.latched_write_err[me] {
            return Poll::Ready(Err(io::Error::new(io::ErrorKind::BrokenPipe, "sim: flush after write error")));
        }
        if s.policy[me].pending {
            let k = s.choose(tag::FLUSH, 2);
            if k == 1 {
                s.pendings += 1;
                s.io_ready.push((self.side, "flush-ready", cx.waker().clone()));
                return Poll::Pending;
            }
        }
        Poll::Ready(Ok(()))
    }
    fn poll_shutdown(self: Pin<&mut Self>, cx: &mut Context<'_>) -> Poll<io::Result<()>> {
        let mut s = self.sh.lock().unwrap();
        let me = self.side.idx();
        s.transport_calls += 1;
        if s.policy[me].shutdown_alts {
            let k = s.choose(tag::SHUTDOWN, 3);
            if k == 1 {
                s.pendings += 1;
                s.io_ready.push((self.side, "shutdown-ready", cx.waker().clone()));
                return Poll::Pending;
            }
            if k == 2 {
                s.iolog.push(IoEv { side: self.side, kind: IoEvKind::Error("shutdown") });
                return Poll::Ready(Err(io::Error::new(io::ErrorKind::Other, "sim: injected shutdown error")));
            }
        }
        if !s.pipes[me].closed {
            s.pipes[me].closed = true;
            s.iolog.push(IoEv { side: self.side, kind: IoEvKind::Shutdown });
            if let Some(w) = s.pipes[me].reader_waker.take() {
                drop(s);
                w.wake();
            }
        }
        Poll::Ready(Ok(()))
    }
}

#[derive(Clone, Copy)]
enum ROpt {
    All,
    Bytes(usize),
    Pending,
    Err,
    Eof,
    Garbage,
}

impl AsyncRead for SimIo {
    fn poll_read(self: Pin<&mut Self>, cx: &mut Context<'_>, buf: &mut ReadBuf<'_>) -> Poll<io::Result<()>> {
        self.pre("read");
        let mut s = self.sh.lock().unwrap();
        let me = self.side.idx();
        let from = self.side.other().idx();
        s.transport_calls += 1;
        if s.latched_read_err[me] {
            return Poll::Ready(Err(io::Error::new(io::ErrorKind::ConnectionReset, "sim: read error (latched)")));
        }
        let avail = s.pipes[from].buf.len();
        if avail == 0 {
            if s.pipes[from].closed {
                s.iolog.push(IoEv { side: self.side, kind: IoEvKind::Eof });
                return Poll::Ready(Ok(()));
            }
            // fault alternatives while idle: the transport may fail or end at any time
            let pol = s.policy[me].clone();
            if pol.read_err || pol.read_eof {
                let mut opts = vec![ROpt::Pending];
                if pol.read_err {
                    opts.push(ROpt::Err);
                }
                if pol.read_eof {
                    opts.push(ROpt::Eof);
                }
                let k = s.choose(tag::READ, opts.len());
                match opts[k] {
                    ROpt::Err => {
                        s.latched_read_err[me] = true;
                        s.iolog.push(IoEv { side: self.side, kind: IoEvKind::Error("read") });
                        return Poll::Ready(Err(io::Error::new(io::ErrorKind::ConnectionReset, "sim: injected read error")));
                    }
                    ROpt::Eof => {
                        s.pipes[from].closed = true;
                        s.iolog.push(IoEv { side: self.side, kind: IoEvKind::Eof });
                        return Poll::Ready(Ok(()));
                    }
                    _ => {}
                }
            }
            s.pipes[from].reader_waker = Some(cx.waker().clone());
            return Poll::Pending;
        }
        let pol = s.policy[me].clone();
        let full = avail.min(buf.remaining());
        if full == 0 {
            return Poll::Ready(Ok(()));
        }
        let mut opts = vec![ROpt::All];
        if pol.short_reads {
            for k in cut_offsets(full, pol.dense_cut_limit) {
                opts.push(ROpt::Bytes(k));
            }
        }
        if pol.pending {
            opts.push(ROpt::Pending);
        }
        if pol.read_err {
            opts.push(ROpt::Err);
        }
        if pol.read_eof {
            opts.push(ROpt::Eof);
        }
        if pol.read_garbage && buf.remaining() >= 10 {
            opts.push(ROpt::Garbage);
        }
        let k = s.choose(tag::READ, opts.len());
        let n = match opts[k] {
            ROpt::All => full,
            ROpt::Garbage => {
                // instead of what the peer wrote: a SETTINGS frame of length 1 (FRAME_SIZE_ERROR for every receiver), then
                // nothing more in this direction
                s.pipes[from].buf.clear();
                s.pipes[from].closed = true;
                s.iolog.push(IoEv { side: self.side, kind: IoEvKind::Error("read-garbage") });
                buf.put_slice(&[0, 0, 1, 4, 0, 0, 0, 0, 0, 0xff]);
                return Poll::Ready(Ok(()));
            }
            ROpt::Bytes(k) => {
                s.partial_reads += 1;
                k
            }
            ROpt::Pending => {
                s.pendings += 1;
                s.io_ready.push((self.side, "read-ready", cx.waker().clone()));
                return Poll::Pending;
            }
            ROpt::Err => {
                s.latched_read_err[me] = true;
                s.iolog.push(IoEv { side: self.side, kind: IoEvKind::Error("read") });
                return Poll::Ready(Err(io::Error::new(io::ErrorKind::ConnectionReset, "sim: injected read error")));
            }
            ROpt::Eof => {
                // the transport ends here: whatever was still in flight is lost
                s.pipes[from].buf.clear();
                s.pipes[from].closed = true;
                s.iolog.push(IoEv { side: self.side, kind: IoEvKind::Eof });
                return Poll::Ready(Ok(()));
            }
        };
        let p = &mut s.pipes[from];
        let (a, b) = p.buf.as_slices();
        if n <= a.len() {
            buf.put_slice(&a[..n]);
        } else {
            buf.put_slice(a);
            buf.put_slice(&b[..n - a.len()]);
        }
        p.buf.drain(..n);
        p.total_read += n as u64;
        s.iolog.push(IoEv { side: self.side, kind: IoEvKind::Read(n) });
        Poll::Ready(Ok(()))
    }
}

// ---------------------------------------------------------------------------------------------
// wakers and executor

pub struct Flag {
    pub set: AtomicBool,
    pub wakes: AtomicU64,
}

impl Flag {
    pub fn new(initial: bool) -> Arc<Flag> {
        Arc::new(Flag { set: AtomicBool::new(initial), wakes: AtomicU64::new(0) })
    }
    pub fn is_set(&self) -> bool {
        self.set.load(Ordering::SeqCst)
    }
    pub fn clear(&self) {
        self.set.store(false, Ordering::SeqCst)
    }
    /// set the flag from harness code (e.g. after a synchronous call on the connection object, which a real application
    /// makes from inside the task that polls the connection)
    pub fn wake_by_ref_pub(&self) {
        self.set.store(true, Ordering::SeqCst);
    }
}

impl Wake for Flag {
    fn wake(self: Arc<Self>) {
        self.set.store(true, Ordering::SeqCst);
        self.wakes.fetch_add(1, Ordering::SeqCst);
    }
    fn wake_by_ref(self: &Arc<Self>) {
        self.set.store(true, Ordering::SeqCst);
        self.wakes.fetch_add(1, Ordering::SeqCst);
    }
}

pub fn waker_of(f: &Arc<Flag>) -> Waker {
    Waker::from(f.clone())
}

pub type BoxFut = Pin<Box<dyn Future<Output = ()>>>;

pub struct Task {
    pub name: String,
    pub fut: Option<BoxFut>,
    pub flag: Arc<Flag>,
    pub polls: u64,
    /// consecutive polls caused only by a wake issued during its own previous poll
    pub self_wake_run: u64,
    pub max_self_wake_run: u64,
}

#[derive(Clone, Default)]
pub struct Spawner {
    pub queue: Arc<Mutex<Vec<(String, BoxFutSend)>>>,
}

/// futures are created and polled on one thread only; the wrapper lets them sit in the (Arc<Mutex>) spawn queue
pub struct BoxFutSend(pub BoxFut);
unsafe impl Send for BoxFutSend {}

impl Spawner {
    pub fn spawn<F: Future<Output = ()> + 'static>(&self, name: &str, f: F) {
        self.queue.lock().unwrap().push((name.to_string(), BoxFutSend(Box::pin(f))));
    }
}

#[derive(Clone, Copy, Debug, PartialEq, Eq)]
pub enum RunEnd {
    Quiescent,
    Horizon,
}

pub struct Exec {
    pub sh: Sh,
    pub tasks: Vec<Task>,
    pub spawner: Spawner,
    pub steps: u64,
    last_run: usize,
    /// if false, scheduling takes the default without recording choices
    pub explore_sched: bool,
    pub verbose: bool,
}

impl Exec {
    pub fn new(sh: Sh) -> Exec {
        Exec { sh, tasks: vec![], spawner: Spawner::default(), steps: 0, last_run: usize::MAX, explore_sched: true, verbose: std::env::var("VERIF_TRACE").is_ok() }
    }

    fn adopt_spawned(&mut self) {
        let mut q = self.spawner.queue.lock().unwrap();
        for (name, f) in q.drain(..) {
            self.tasks.push(Task { name, fut: Some(f.0), flag: Flag::new(true), polls: 0, self_wake_run: 0, max_self_wake_run: 0 });
        }
    }

    pub fn task_index(&self, name: &str) -> Option<usize> {
        self.tasks.iter().position(|t| t.name == name)
    }

    pub fn is_done(&self, name: &str) -> bool {
        self.tasks.iter().find(|t| t.name == name).map(|t| t.fut.is_none()).unwrap_or(false)
    }

    /// runnable entities in canonical order: tasks after the one that ran last (cyclic), then transport-ready events
    fn runnable(&self) -> Vec<usize> {
        let n = self.tasks.len();
        let mut v = vec![];
        let start = if self.last_run == usize::MAX { 0 } else { self.last_run + 1 };
        for k in 0..n {
            let i = (start + k) % n;
            if self.tasks[i].fut.is_some() && self.tasks[i].flag.is_set() {
                v.push(i);
            }
        }
        v
    }

    /// Poll task `i` once (flag cleared first). Panics are caught, recorded and the task is dropped (leaked).
    pub fn poll_task(&mut self, i: usize) {
        let t = &mut self.tasks[i];
        let Some(fut) = t.fut.as_mut() else { return };
        t.flag.clear();
        t.polls += 1;
        let w = waker_of(&t.flag);
        let mut cx = Context::from_waker(&w);
        let calls_before = self.sh.lock().unwrap().transport_calls;
        let r = catch_unwind(AssertUnwindSafe(|| fut.as_mut().poll(&mut cx)));
        let calls_after = self.sh.lock().unwrap().transport_calls;
        let t = &mut self.tasks[i];
        match r {
            Ok(Poll::Ready(())) => {
                t.fut = None;
            }
            Ok(Poll::Pending) => {
                if t.flag.is_set() && calls_after == calls_before {
                    t.self_wake_run += 1;
                    t.max_self_wake_run = t.max_self_wake_run.max(t.self_wake_run);
                } else {
                    t.self_wake_run = 0;
                }
            }
            Err(p) => {
                let msg = crate::c11::panic_text(&p);
                self.sh.lock().unwrap().panics.push(format!("task {}: {}", t.name, msg));
                // leak the future: its destructors would run into poisoned locks
                if let Some(f) = t.fut.take() {
                    std::mem::forget(f);
                }
            }
        }
        self.last_run = i;
    }

    /// One scheduling step. Returns false when nothing is runnable.
    pub fn step(&mut self) -> bool {
        self.adopt_spawned();
        let run = self.runnable();
        let n_io = self.sh.lock().unwrap().io_ready.len();
        let total = run.len() + n_io;
        if total == 0 {
            return false;
        }
        let k = if self.explore_sched { self.sh.lock().unwrap().choose(tag::SCHED, total) } else { 0 };
        self.steps += 1;
        if self.verbose {
            let names: Vec<&str> = run.iter().map(|&i| self.tasks[i].name.as_str()).collect();
            println!("  step {:>3}: runnable {:?} io_ready {} -> {}", self.steps, names, n_io, if k < run.len() { names[k] } else { "io-ready" });
        }
        if k < run.len() {
            self.poll_task(run[k]);
        } else {
            let (_, _, w) = self.sh.lock().unwrap().io_ready.remove(k - run.len());
            w.wake();
        }
        self.adopt_spawned();
        true
    }

    pub fn run(&mut self, horizon: u64) -> RunEnd {
        let limit = self.steps + horizon;
        while self.steps < limit {
            if !self.step() {
                return RunEnd::Quiescent;
            }
        }
        self.adopt_spawned();
        if self.runnable().is_empty() && self.sh.lock().unwrap().io_ready.is_empty() {
            RunEnd::Quiescent
        } else {
            RunEnd::Horizon
        }
    }

    /// Force-poll task `i` although its flag is not set (C06 lost-wakeup probe).
    pub fn force_poll(&mut self, i: usize) {
        self.poll_task(i);
    }

    pub fn pending_tasks(&self) -> Vec<usize> {
        (0..self.tasks.len()).filter(|&i| self.tasks[i].fut.is_some()).collect()
    }

    /// Drop all remaining futures (and with them the h2 objects they own).
    pub fn drop_all(&mut self) {
        for t in self.tasks.iter_mut() {
            if let Some(f) = t.fut.take() {
                let r = catch_unwind(AssertUnwindSafe(move || drop(f)));
                if let Err(p) = r {
                    let msg = crate::c11::panic_text(&p);
                    self.sh.lock().unwrap().panics.push(format!("drop of task {}: {}", t.name, msg));
                }
            }
        }
    }
}

/// A future that returns `Pending` once after waking itself: an explicit scheduling point between two operations.
pub struct YieldNow(bool);
impl Future for YieldNow {
    type Output = ();
    fn poll(mut self: Pin<&mut Self>, cx: &mut Context<'_>) -> Poll<()> {
        if self.0 {
            Poll::Ready(())
        } else {
            self.0 = true;
            cx.waker().wake_by_ref();
            Poll::Pending
        }
    }
}
pub fn yield_now() -> YieldNow {
    YieldNow(false)
}
