//! C18 — per-connection state is bounded by configuration, whatever the peer does (X2 on T2 with the snapshot hook,
//! plus long directed runs of each attack loop).

use crate::common::*;
use crate::sim::*;
use crate::t2::*;
use crate::x2::*;
use h2::server;
use h2wire::frame::{self as wf, Parsed, RawFrame};
use serde_json::json;
use std::task::{Context, Poll};

#[derive(Clone, Debug)]
pub enum Ev {
    Open,
    OpenRst,
    OpenEos,
    BigHeaders(usize),
    /// the same with END_STREAM on the HEADERS frame
    BigHeadersEos(usize),
    /// the same oversized list with its block cut into k pieces (HEADERS + CONTINUATIONs), the cuts falling inside fields
    BigHeadersSplit(usize, usize),
    HeadersNoEnd,
    ContinuationNoEnd,
    Data(usize),
    DataPadded,
    /// payload of n octets padded with p octets
    DataPad(usize, u8),
    DataOnOldStream,
    RstOld,
    WuStreamZero,
    WuFlood,
    PriorityFlood,
    Ping,
    Settings,
    AcceptToggle,
    ReadAll,
    DropAll,
    RespondAll,
    Drive,
    DriveBlocked,
    TimePasses,
}

pub struct World {
    pub next_sid: u32,
    pub opened: Vec<u32>,
    pub max_streams: usize,
    pub max_recv_buffered: usize,
    pub max_send_buffered: usize,
    pub max_text: usize,
    pub pings: u64,
}

pub struct Limits {
    pub max_streams: u32,
    pub reset_max: usize,
    pub pending_accept_reset_max: usize,
    pub local_error_reset_max: usize,
    pub header_list: u32,
    pub window: u32,
    pub data_budget: usize,
}

pub const LIMITS: Limits = Limits { max_streams: 2, reset_max: 2, pending_accept_reset_max: 2, local_error_reset_max: 3, header_list: 256, window: 64, data_budget: 512 };

pub struct HostileModel {
    pub events: Vec<Ev>,
    pub name: &'static str,
    pub expire_now: bool,
}

impl HostileModel {
    pub fn new(name: &'static str, quick: bool, expire_now: bool) -> HostileModel {
        let mut ev = vec![Ev::Open, Ev::OpenRst, Ev::BigHeaders(400), Ev::BigHeadersSplit(5, 61), Ev::HeadersNoEnd, Ev::ContinuationNoEnd, Ev::Data(1), Ev::Data(0), Ev::DataOnOldStream, Ev::RstOld, Ev::WuStreamZero, Ev::Ping, Ev::AcceptToggle, Ev::DropAll, Ev::Drive, Ev::DriveBlocked];
        if !quick {
            ev.extend([Ev::OpenEos, Ev::BigHeaders(1400), Ev::Data(40), Ev::DataPadded, Ev::WuFlood, Ev::PriorityFlood, Ev::Settings, Ev::ReadAll, Ev::RespondAll]);
        }
        if expire_now {
            ev.push(Ev::TimePasses);
        }
        HostileModel { events: ev, name, expire_now }
    }
}

pub fn server_builder(expire_now: bool) -> server::Builder {
    let mut sb = server::Builder::new();
    sb.max_concurrent_streams(LIMITS.max_streams);
    sb.max_concurrent_reset_streams(LIMITS.reset_max);
    sb.max_pending_accept_reset_streams(LIMITS.pending_accept_reset_max);
    sb.max_local_error_reset_streams(Some(LIMITS.local_error_reset_max));
    sb.max_header_list_size(LIMITS.header_list);
    sb.initial_window_size(LIMITS.window);
    sb.data_frame_budget(LIMITS.data_budget);
    sb.reset_stream_duration(if expire_now { std::time::Duration::from_secs(0) } else { std::time::Duration::from_secs(3600) });
    sb
}

/// bounds derived from the configured limits plus what the application itself holds on to
pub fn bounds(t: &T2) -> (usize, usize, usize) {
    let held = t.accepted.iter().filter(|a| a.body.is_some() || a.respond.is_some() || a.send.is_some()).count();
    let streams = LIMITS.max_streams as usize + LIMITS.reset_max + LIMITS.pending_accept_reset_max + LIMITS.local_error_reset_max + held + 2;
    // per stream at most: one head + window octets as 1-octet DATA events + the empty-frame allowance; plus the DATA budget
    let recv = streams * (2 + LIMITS.window as usize) + LIMITS.data_budget / 8 + 16;
    // what the library owes: one RST / refusal per tracked stream, a handful of control frames, plus what the application queued
    let send = streams * 2 + 8 + held * 3;
    (streams, recv, send)
}

pub fn apply_peer(t: &mut T2, w: &mut World, e: &Ev) {
    let req = T2::block(&[(":method", "POST"), (":scheme", "http"), (":authority", "h.example"), (":path", "/h")]);
    let current = w.opened.last().copied();
    match e {
        Ev::Open | Ev::OpenEos => {
            let sid = w.next_sid;
            w.next_sid += 2;
            t.peer_send(&wf::headers(sid, &req, matches!(e, Ev::OpenEos), true));
            w.opened.push(sid);
        }
        Ev::OpenRst => {
            let sid = w.next_sid;
            w.next_sid += 2;
            t.peer_send(&wf::headers(sid, &req, false, true));
            t.peer_send(&wf::rst_stream(sid, 8));
        }
        Ev::BigHeaders(n) | Ev::BigHeadersEos(n) => {
            let sid = w.next_sid;
            w.next_sid += 2;
            let mut b = req.clone();
            b.extend(T2::block(&[("x-big", &"b".repeat(*n))]));
            t.peer_send(&wf::headers(sid, &b, matches!(e, Ev::BigHeadersEos(_)), true));
        }
        Ev::BigHeadersSplit(n, k) => {
            let sid = w.next_sid;
            w.next_sid += 2;
            let mut b = req.clone();
            // n fields of 79 octets of list size each (name 7 + value 40 + 32) cut every k octets: the cuts fall inside fields
            // and every fragment completes one field, so that per fragment the list stays just below the limit (176 octets of
            // pseudo-header fields + 79 = 255) while as a whole it is far above; few enough fragments to stay below the
            // CONTINUATION flood limit
            for i in 0..*n {
                b.extend(T2::block(&[(&format!("x-f-{:03}", i), &"v".repeat(40))]));
            }
            let chunks: Vec<&[u8]> = b.chunks((*k).max(1)).collect();
            for (i, c) in chunks.iter().enumerate() {
                let last = i + 1 == chunks.len();
                if i == 0 {
                    t.peer_send(&wf::headers(sid, c, false, last));
                } else {
                    t.peer_send(&wf::continuation(sid, c, last));
                }
            }
        }
        Ev::HeadersNoEnd => {
            let sid = w.next_sid;
            w.next_sid += 2;
            t.peer_send(&wf::headers(sid, &req, false, false));
            w.opened.push(sid);
        }
        Ev::ContinuationNoEnd => {
            if let Some(sid) = current {
                // one more complete field per frame; END_HEADERS never comes
                let frag = T2::block(&[("x-c", &"c".repeat(60))]);
                t.peer_send(&wf::continuation(sid, &frag, false));
            }
        }
        Ev::Data(n) => {
            if let Some(sid) = current {
                t.peer_send(&wf::data(sid, &vec![b'h'; *n], false));
            }
        }
        Ev::DataPadded => {
            if let Some(sid) = current {
                t.peer_send(&wf::data_padded(sid, &[], 30, false));
            }
        }
        Ev::DataPad(n, p) => {
            if let Some(sid) = current {
                t.peer_send(&wf::data_padded(sid, &vec![b'p'; *n], *p, false));
            }
        }
        Ev::DataOnOldStream => {
            if w.opened.len() >= 1 {
                t.peer_send(&wf::data(w.opened[0], b"x", false));
            }
        }
        Ev::RstOld => {
            if w.opened.len() >= 1 {
                t.peer_send(&wf::rst_stream(w.opened[0], 8));
            }
        }
        Ev::WuStreamZero => {
            if let Some(sid) = current {
                t.peer_send(&wf::window_update(sid, 0));
            }
        }
        Ev::WuFlood => {
            for _ in 0..20 {
                t.peer_send(&wf::window_update(0, 1));
            }
        }
        Ev::PriorityFlood => {
            for i in 0..20u32 {
                t.peer_send(&wf::priority(1001 + 2 * i, false, 0, 1));
            }
        }
        Ev::Ping => {
            w.pings += 1;
            t.peer_send(&wf::ping((w.pings as u64).to_be_bytes(), false));
        }
        Ev::Settings => t.peer_send(&wf::settings(&[(wf::setting::INITIAL_WINDOW_SIZE, 100)])),
        _ => {}
    }
}

impl Model for HostileModel {
    type World = World;
    fn name(&self) -> &'static str {
        self.name
    }
    fn cfg(&self) -> T2Cfg {
        T2Cfg { role: Side::Server, peer_settings: vec![], client: None, server: Some(server_builder(self.expire_now)), policy: IoPolicy::default() }
    }
    fn init(&self, _t: &mut T2) -> World {
        World { next_sid: 1, opened: vec![], max_streams: 0, max_recv_buffered: 0, max_send_buffered: 0, max_text: 0, pings: 0 }
    }
    fn n_events(&self) -> usize {
        self.events.len()
    }
    fn event_name(&self, e: usize) -> String {
        format!("{:?}", self.events[e])
    }
    fn enabled(&self, t: &T2, w: &World, e: usize) -> bool {
        if !t.conn_alive() {
            return false;
        }
        match &self.events[e] {
            Ev::ContinuationNoEnd | Ev::Data(_) | Ev::DataPadded | Ev::DataPad(_, _) | Ev::WuStreamZero => !w.opened.is_empty(),
            Ev::DataOnOldStream | Ev::RstOld => !w.opened.is_empty(),
            Ev::ReadAll | Ev::DropAll | Ev::RespondAll => !t.accepted.is_empty(),
            _ => true,
        }
    }
    fn apply(&self, t: &mut T2, w: &mut World, e: usize) {
        let mut panics = vec![];
        let ev = self.events[e].clone();
        match &ev {
            Ev::AcceptToggle => t.accept_enabled = !t.accept_enabled,
            Ev::ReadAll => {
                let f = Flag::new(false);
                let wk = waker_of(&f);
                let mut cx = Context::from_waker(&wk);
                for a in t.accepted.iter_mut() {
                    if let Some(b) = a.body.as_mut() {
                        for _ in 0..100 {
                            match guarded(&mut panics, "poll_data", || b.poll_data(&mut cx)) {
                                Some(Poll::Ready(Some(Ok(d)))) => {
                                    let _ = b.flow_control().release_capacity(d.len());
                                }
                                _ => break,
                            }
                        }
                    }
                }
            }
            Ev::DropAll => {
                for a in t.accepted.iter_mut() {
                    safe_drop(&mut panics, "RecvStream", a.body.take());
                    safe_drop(&mut panics, "SendResponse", a.respond.take());
                    safe_drop(&mut panics, "SendStream", a.send.take());
                }
                t.accepted.clear();
            }
            Ev::RespondAll => {
                for a in t.accepted.iter_mut() {
                    if let Some(mut r) = a.respond.take() {
                        let _ = guarded(&mut panics, "send_response", || r.send_response(simple_response(200), true).map(drop));
                    }
                }
            }
            Ev::Drive => {
                t.drive(300);
            }
            Ev::DriveBlocked => {
                t.sh.lock().unwrap().set_write_blocked(t.role, true);
                t.drive(300);
                // stays blocked: the peer is not reading; a later plain Drive lifts it
            }
            Ev::TimePasses => {
                std::thread::sleep(std::time::Duration::from_micros(30));
                t.conn_flag.wake_by_ref_pub();
            }
            peer => apply_peer(t, w, peer),
        }
        if matches!(ev, Ev::Drive) {
            t.sh.lock().unwrap().set_write_blocked(t.role, false);
            t.drive(300);
        }
        t.panics.extend(panics);
        t.catch_up();
    }
    fn invariant(&self, t: &mut T2, w: &mut World) -> V3 {
        let mut v = vec![];
        // a request whose header list exceeds the advertised SETTINGS_MAX_HEADER_LIST_SIZE is refused, not accommodated
        for a in &t.accepted {
            let size: usize = a.req_head.fields.iter().map(|(n, val)| n.len() + val.len() + 32).sum::<usize>() + 4 * 32 + ":method".len() + a.req_head.method.len() + ":scheme:authority:path".len() - 2 + a.req_head.uri.len();
            if size > LIMITS.header_list as usize + 64 {
                v.push(("C18.oversized-headers-accepted".to_string(), "accept".into(), format!("stream {} was handed to the application with a header list of about {} octets; the advertised limit is {}", a.sid, size, LIMITS.header_list)));
            }
        }
        if let Conn::Server(c) = &t.conn {
            let s = c.verif_snapshot();
            let (bs, br, bq) = bounds(t);
            w.max_streams = w.max_streams.max(s.streams.len());
            w.max_recv_buffered = w.max_recv_buffered.max(s.recv_buffered);
            w.max_send_buffered = w.max_send_buffered.max(s.send_buffered);
            if s.streams.len() > bs {
                v.push(("C18.stream-records-unbounded".to_string(), "streams".into(), format!("{} stream records are kept; the configured limits allow {} ({} concurrent + {} reset memory + {} pending-accept resets + {} library resets + handles the application holds)", s.streams.len(), bs, LIMITS.max_streams, LIMITS.reset_max, LIMITS.pending_accept_reset_max, LIMITS.local_error_reset_max)));
            }
            if s.recv_buffered > br {
                v.push(("C18.recv-buffer-unbounded".into(), "recv".into(), format!("{} received events are buffered; the windows and the DATA budget allow {}", s.recv_buffered, br)));
            }
            if s.send_buffered > bq {
                v.push(("C18.send-queue-unbounded".into(), "send".into(), format!("{} frames are queued for sending; quotas allow {}", s.send_buffered, bq)));
            }
            // everything else (partial header block, codec buffers, settings / ping state) shows in the Debug text
            let text = conn_text(t).len();
            w.max_text = w.max_text.max(text);
            if text > 60_000 {
                v.push(("C18.connection-state-unbounded".into(), "debug-text".into(), format!("the connection's state (Debug text) has grown to {} characters", text)));
            }
        }
        v
    }
    fn epilogue(&self, _t: &mut T2, _w: &mut World) -> V3 {
        vec![]
    }
    fn digest_extra(&self, t: &T2, w: &World) -> String {
        // stream ids renamed by rank: h2 depends on id order and parity only (id-exhaustion is C04's)
        format!("opened_rank={} accept={} accepted={:?} goaway={:?} pings_owed={}", w.opened.len().min(3), t.accept_enabled, t.accepted.iter().map(|a| (a.body.is_some(), a.respond.is_some())).collect::<Vec<_>>(), t.goaway_sent().map(|g| g.1), w.pings.min(3))
    }
    fn teardown(&self, t: T2, _w: World) -> Vec<String> {
        t.finish()
    }
    fn counters(&self, t: &T2, w: &World) -> Vec<(&'static str, u64)> {
        let refused = t.subject_frames().iter().filter(|f| matches!(&f.parsed, Ok(Parsed::RstStream { code: 7, .. }))).count() as u64;
        let goaway = t.goaway_sent().map(|g| (g.1 != 0) as u64).unwrap_or(0);
        let answered_431 = t.subject_frames().iter().filter(|f| f.block.as_ref().and_then(|b| b.fields.as_ref().ok()).map(|fs| fs.iter().any(|(n, v)| n == b":status" && v == b"431")).unwrap_or(false)).count() as u64;
        vec![("max_stream_records", w.max_streams as u64), ("streams_refused", refused), ("goaway_with_error", goaway), ("streams_accepted", t.accepted.len() as u64), ("max_recv_events_buffered", w.max_recv_buffered as u64), ("answered_431", answered_431)]
    }
}

/// Each attack loop run linearly far beyond any quota: retained state must not keep growing.
fn directed_runs(quick: bool, vios: &mut VioSet) -> Vec<serde_json::Value> {
    let loops: Vec<(&str, Vec<Ev>, bool, bool)> = vec![
        // (name, events of one round, writes blocked, accept enabled)
        ("open-and-reset", vec![Ev::OpenRst], false, true),
        ("open-and-reset-not-accepting", vec![Ev::OpenRst], false, false),
        ("open-and-reset-writes-blocked", vec![Ev::OpenRst], true, true),
        ("open-beyond-limit", vec![Ev::Open], false, true),
        ("open-beyond-limit-writes-blocked", vec![Ev::Open], true, true),
        ("oversized-headers", vec![Ev::BigHeaders(400)], false, true),
        ("oversized-headers-writes-blocked", vec![Ev::BigHeaders(1400)], true, true),
        // between the limit and four times the limit: answered by the endpoint itself with 431 + RST_STREAM, replies that pile up
        // while writes are blocked unless these streams count against the concurrency limit like any other
        ("oversized-headers-431-writes-blocked", vec![Ev::BigHeaders(400)], true, true),
        ("oversized-headers-431-eos-writes-blocked", vec![Ev::BigHeadersEos(400)], true, true),
        ("oversized-headers-split-inside-fields", vec![Ev::BigHeadersSplit(5, 61)], false, true),
        ("oversized-headers-split-two-fields-per-piece", vec![Ev::BigHeadersSplit(6, 101)], false, true),
        ("continuation-flood", vec![Ev::ContinuationNoEnd], false, true),
        ("tiny-data", vec![Ev::Data(1)], false, true),
        ("empty-data", vec![Ev::Data(0)], false, true),
        // default-sized windows, so that only the DATA-frame budget stands between the peer and 65535 buffered events
        ("tiny-data-large-window", vec![Ev::Data(1)], false, true),
        ("tiny-data-padded-2-large-window", vec![Ev::DataPad(1, 2)], false, true),
        ("tiny-data-padded-254-large-window", vec![Ev::DataPad(1, 254)], false, true),
        ("tiny-data-padded-255-large-window", vec![Ev::DataPad(1, 255)], false, true),
        ("small-data-padded-large-window", vec![Ev::DataPad(100, 200)], false, true),
        ("padding-only-data-large-window", vec![Ev::DataPad(0, 255)], false, true),
        // the other side of the DATA-frame budget: an application that reads every frame at once gives the budget back, so a
        // peer that sends any number of tiny frames is never penalised
        ("tiny-data-read-at-once-large-window", vec![Ev::Data(1)], false, true),
        ("ping-flood-writes-blocked", vec![Ev::Ping], true, true),
        ("settings-flood-writes-blocked", vec![Ev::Settings], true, true),
        // the transport takes a few partial writes and then stalls for good (a reader that falls asleep), 50 PINGs per round
        ("ping-flood-writes-trickle", vec![Ev::Ping], true, true),
        ("ping-flood-writes-trickle-vectored", vec![Ev::Ping], true, true),
        ("window-update-zero-on-streams", vec![Ev::Open, Ev::WuStreamZero], false, true),
        ("data-on-reset-stream", vec![Ev::DataOnOldStream], false, true),
        ("priority-flood", vec![Ev::PriorityFlood], false, true),
    ];
    let rounds = if quick { 3000 } else { 12_000 };
    let mut report = vec![];
    for (name, evs, blocked, accept) in loops {
        let mut sb = server_builder(false);
        if name.contains("large-window") {
            sb.initial_window_size(65_535);
        }
        let trickle = name.contains("trickle");
        let cfg = T2Cfg { role: Side::Server, peer_settings: vec![], client: None, server: Some(sb), policy: IoPolicy { vectored: name.contains("vectored"), ..IoPolicy::default() } };
        let mut t = T2::new(&cfg, vec![]);
        t.accept_enabled = accept;
        let mut w = World { next_sid: 1, opened: vec![], max_streams: 0, max_recv_buffered: 0, max_send_buffered: 0, max_text: 0, pings: 0 };
        if name.contains("continuation") {
            apply_peer(&mut t, &mut w, &Ev::HeadersNoEnd);
        }
        if name.contains("data") && !name.contains("reset") {
            apply_peer(&mut t, &mut w, &Ev::Open);
        }
        if name.contains("data-on-reset") {
            apply_peer(&mut t, &mut w, &Ev::OpenRst);
            w.opened.push(1);
        }
        t.drive(100);
        if blocked {
            t.sh.lock().unwrap().set_write_blocked(Side::Server, true);
            t.peer_reads = false;
        }
        let mut sizes: Vec<(usize, usize, usize, usize, usize)> = vec![];
        let mut consumed_while_blocked = 0u64;
        let mut ended_at = None;
        let mut stalled = 0u64;
        let mut dropped_by_app = 0u64;
        if trickle {
            // a first burst whose replies exceed what the transport will take
            for _ in 0..400 {
                apply_peer(&mut t, &mut w, &Ev::Ping);
            }
        }
        for r in 0..rounds {
            if trickle && r < 4 {
                // 1500 octets of output are taken, then the transport stalls again
                let mut s = t.sh.lock().unwrap();
                s.set_write_blocked(Side::Server, false);
                s.set_write_budget(Side::Server, Some(1500));
                drop(s);
                t.drive(100);
                let mut s = t.sh.lock().unwrap();
                s.set_write_budget(Side::Server, None);
                s.set_write_blocked(Side::Server, true);
            }
            for e in &evs {
                for _ in 1..if trickle { 50 } else { 1 } {
                    apply_peer(&mut t, &mut w, e);
                }
                if let (Ev::DataPad(n, p), Some(sid)) = (e, w.opened.last().copied()) {
                    // this flood stays inside the windows the peer sees (otherwise it is simply a flow-control error)
                    t.catch_up();
                    let pv = crate::c03::peer_view(&t);
                    let need = (*n + *p as usize + 1) as i64;
                    if name.contains("large-window") && (pv.v0() < need || pv.vs(sid) < need) {
                        stalled += 1;
                        continue;
                    }
                }
                apply_peer(&mut t, &mut w, e);
            }
            t.drive(100);
            if name.contains("read-at-once") {
                let f = Flag::new(false);
                let wk = waker_of(&f);
                let mut cx = Context::from_waker(&wk);
                let mut panics = vec![];
                for a in t.accepted.iter_mut() {
                    if let Some(b) = a.body.as_mut() {
                        for _ in 0..100 {
                            match guarded(&mut panics, "poll_data", || b.poll_data(&mut cx)) {
                                Some(Poll::Ready(Some(Ok(d)))) => {
                                    let _ = b.flow_control().release_capacity(d.len());
                                }
                                _ => break,
                            }
                        }
                    }
                }
                t.panics.extend(panics);
                t.drive(100);
            }
            if name.contains("oversized") && !t.accepted.is_empty() && r < 3 {
                vios.add(Violation { rule: "C18.oversized-headers-accepted".into(), signature: name.to_string(), what: format!("attack loop '{}': a request with a header list far above the advertised limit of {} was handed to the application", name, LIMITS.header_list), replay: json!({"harness": "c18.directed", "loop": name}) });
            }
            if !name.contains("data") {
                // the application lets go of every request it is handed (what it keeps is its own business, not the peer's doing)
                let acc = std::mem::take(&mut t.accepted);
                let mut panics = vec![];
                for a in acc {
                    safe_drop(&mut panics, "RecvStream", a.body);
                    safe_drop(&mut panics, "SendResponse", a.respond);
                    safe_drop(&mut panics, "SendStream", a.send);
                    dropped_by_app += 1;
                }
                t.panics.extend(panics);
                t.drive(100);
            }
            if !t.conn_alive() {
                ended_at = Some(r);
                break;
            }
            if r == rounds / 2 || r == rounds - 1 {
                if let Conn::Server(c) = &t.conn {
                    let s = c.verif_snapshot();
                    sizes.push((r, s.streams.len(), s.recv_buffered, s.send_buffered, conn_text(&t).len()));
                }
                consumed_while_blocked = t.sh.lock().unwrap().pipes[Side::Client.idx()].total_read;
            }
        }
        if std::env::var("VERIF_C18_DEBUG").ok().as_deref() == Some(name) {
            t.catch_up();
            let pv = crate::c03::peer_view(&t);
            eprintln!("--- {}: peer view conn={} stream={:?} acked_initial={}", name, pv.v0(), w.opened.last().map(|s| pv.vs(*s)), pv.acked_initial);
            for f in t.mon.frames.iter().take(14) {
                eprintln!("  {:?} {} sid={} len={}", f.sender, wf::type_name(f.raw.ty), f.raw.stream(), f.raw.payload.len());
            }
            eprintln!("{}", conn_text(&t));
        }
        let replay = json!({"harness": "c18.directed", "loop": name});
        let outcome = if let Some(r) = ended_at { format!("connection ended after {} rounds: {:?}, GOAWAY {:?}", r, t.conn_result, t.goaway_sent()) } else { "still serving".to_string() };
        if sizes.len() == 2 {
            let (a, b) = (sizes[0], sizes[1]);
            // twice as many rounds (both well past every quota and buffer size) must not mean more retained state
            if b.1 > a.1 + 2 || b.2 > a.2 + 8 || b.3 > a.3 + 8 || b.4 > a.4 + a.4 / 2 + 2000 {
                vios.add(Violation {
                    rule: "C18.growth-under-attack".into(),
                    signature: name.to_string(),
                    what: format!("attack loop '{}': after {} rounds (records, recv events, send frames, state text) = {:?}, after {} rounds {:?}", name, a.0, (a.1, a.2, a.3, a.4), b.0, (b.1, b.2, b.3, b.4)),
                    replay: replay.clone(),
                });
            }
            if name.contains("large-window") && b.2 > 400 {
                // budget 512 and 64 KiB windows: at most ~257 DATA events of 255 octets, 100 empty frames, two heads
                vios.add(Violation { rule: "C18.recv-buffer-unbounded".into(), signature: name.to_string(), what: format!("attack loop '{}': {} received events are buffered after {} rounds; the DATA-frame budget ({}) and the windows allow at most 400", name, b.2, b.0, LIMITS.data_budget), replay: replay.clone() });
            }
            if blocked {
                // with its own writes blocked the endpoint must stop consuming input once what it owes no longer fits
                let pending_in_pipe = t.sh.lock().unwrap().pipes[Side::Client.idx()].buf.len();
                if pending_in_pipe == 0 && b.3 > 64 {
                    vios.add(Violation { rule: "C18.replies-unbounded-while-blocked".into(), signature: name.to_string(), what: format!("attack loop '{}' with writes blocked: all {} octets of input were consumed and {} frames are queued", name, consumed_while_blocked, b.3), replay: replay.clone() });
                }
                // PING / SETTINGS: every frame read is answered by a frame of (about) its own size, held in the codec's write
                // buffer: what has been read and not yet answered on the transport is what the endpoint owes
                if name.contains("ping-flood") {
                    let (read, written) = {
                        let s = t.sh.lock().unwrap();
                        (s.pipes[Side::Client.idx()].total_read, s.pipes[Side::Server.idx()].total_written)
                    };
                    let owed = read.saturating_sub(written);
                    if owed > 48 * 1024 {
                        vios.add(Violation { rule: "C18.replies-unbounded-while-blocked".into(), signature: format!("{}:owed", name), what: format!("attack loop '{}': the transport has stalled, yet the endpoint has read {} octets of PINGs and written {} octets: it owes {} octets of replies (its write buffer is meant to hold about 16 KiB)", name, read, written, owed), replay: replay.clone() });
                    }
                }
            }
        }
        if name.contains("read-at-once") {
            if let Some(r) = ended_at {
                vios.add(Violation { rule: "C18.legal-traffic-penalised".into(), signature: name.to_string(), what: format!("attack loop '{}': the peer stayed inside its windows and the application read every DATA frame at once, yet the connection ended after {} rounds: {:?}, GOAWAY {:?}", name, r, t.conn_result, t.goaway_sent()), replay: replay.clone() });
            }
        }
        for p in t.panics.clone() {
            vios.add(Violation { rule: "C18.panic".into(), signature: name.to_string(), what: format!("attack loop '{}': panic {}", name, p.lines().next().unwrap_or("")), replay: replay.clone() });
        }
        report.push(json!({"loop": name, "rounds": ended_at.unwrap_or(rounds), "outcome": outcome, "rounds_stalled_by_flow_control": stalled, "requests_accepted_and_dropped_by_app": dropped_by_app, "sizes(round,records,recv_events,send_frames,state_text)": sizes}));
        let _ = t.finish();
    }
    report
}

pub fn run(ctx: &Ctx) -> Outcome {
    let mut out = Outcome::default();
    let quick = ctx.tier.is_quick();
    let budget = ctx.tier.budget_s();
    let m1 = HostileModel::new(if quick { "hostile-remember-q" } else { "hostile-remember-t" }, quick, false);
    let m2 = HostileModel::new(if quick { "hostile-expire-q" } else { "hostile-expire-t" }, quick, true);
    // quick: explicit, machine-independent depth
    let maxd = if quick { 5 } else { 14 };
    let r1 = search(ctx, &m1, "C18", maxd, budget * 0.45, true);
    let r2 = search(ctx, &m2, "C18", maxd, budget * 0.85, true);
    fill_outcome(&mut out, &[(m1.name, &r1), (m2.name, &r2)]);
    let mut vs = VioSet::default();
    vs.merge(r1.agg.vios);
    vs.merge(r2.agg.vios);
    let directed = directed_runs(quick, &mut vs);
    out.add_count("evaluations", directed.len() as u64);
    out.harness("directed-attack-loops (single deep executions, not exploration)", json!(directed));
    out.set("exhaustive", json!(false));
    out.set("limits", json!({"max_concurrent_streams": LIMITS.max_streams, "reset_stream_max": LIMITS.reset_max, "pending_accept_reset_max": LIMITS.pending_accept_reset_max, "local_error_reset_max": LIMITS.local_error_reset_max, "max_header_list_size": LIMITS.header_list, "initial_window_size": LIMITS.window, "data_frame_budget": LIMITS.data_budget}));
    out.set("alphabet", json!(m2.events.iter().map(|e| format!("{:?}", e)).collect::<Vec<_>>()));
    out.set("rule", json!("X2 on T2 (real server with tiny limits, hostile scripted peer): open, open+RST_STREAM, oversized header lists (1.5x and 5x), HEADERS / CONTINUATION without END_HEADERS, DATA of 0 / 1 / 40 octets and padded, DATA / RST_STREAM on old streams, zero WINDOW_UPDATE on streams (library resets), WINDOW_UPDATE / PRIORITY floods, PING, SETTINGS; application accepting or not, reading, responding, dropping; writes open or blocked; reset memory never / at once expiring. Invariant in every state from the snapshot hook: stream records, buffered received events and queued frames within bounds computed from the configured limits plus what the application holds; connection Debug text bounded. Plus 23 attack loops (six of them with default-sized windows, where only the DATA-frame budget limits tiny / padded DATA) each run linearly for 3000 (quick) / 12000 (thorough) rounds: retained state after twice the rounds must not have grown"));
    out.add_sample(json!({"harness": format!("x2.{}", m1.name), "depth": 3, "choices": [2, 2, 14]}));
    out.violations = vs.into_vec();
    out.guard_nonzero("streams refused", out.coverage.get("mechanism_counters").and_then(|m| m.get("streams_refused")).and_then(|v| v.as_u64()).unwrap_or(0));
    out
}

pub fn replay(v: &serde_json::Value) -> Option<bool> {
    let h = v["harness"].as_str().unwrap_or("");
    if h == "c18.directed" {
        let mut vs = VioSet::default();
        let rep = directed_runs(true, &mut vs);
        for r in rep {
            if r["loop"] == v["loop"] {
                println!("{}", serde_json::to_string_pretty(&r).unwrap());
            }
        }
        for x in vs.map.values() {
            println!("RULE VIOLATED: {} {}", x.rule, x.what);
        }
        return Some(!vs.map.is_empty());
    }
    for quick in [true, false] {
        for (n, e) in [("hostile-remember", false), ("hostile-expire", true)] {
            let name: &'static str = Box::leak(format!("{}-{}", n, if quick { "q" } else { "t" }).into_boxed_str());
            if h == format!("x2.{}", name) {
                return Some(replay_model(&HostileModel::new(name, quick, e), "C18", v));
            }
        }
    }
    None
}

#[allow(dead_code)]
fn _unused(_: RawFrame) {}
