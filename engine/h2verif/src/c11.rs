//! C11 — HPACK / Huffman decoding agrees with RFC 7541 on every input, however split.
//! X3: exhaustive enumeration of finite input spaces against the reference decoder in `h2wire`.

use crate::common::*;
use bytes::BytesMut;
use h2::verif::hpack::{header_octets, huffman_decode, Decoder, DecoderError};
use h2wire::hpack::{self as rh, Field, HpackError, Lit, RefDecoder};
use serde_json::{json, Value};
use std::io::Cursor;
use std::ops::ControlFlow;
use std::panic::{catch_unwind, AssertUnwindSafe};
use std::sync::atomic::{AtomicU64, Ordering};
use std::sync::Mutex;

// ---------------------------------------------------------------------------------------------
// driving h2's decoder the way FramedRead does

#[derive(Debug, Clone, PartialEq, Eq)]
pub enum H2Res {
    Ok(Vec<Field>),
    Err(String),
    Panic(String),
}

impl H2Res {
    fn class(&self) -> String {
        match self {
            H2Res::Ok(_) => "Ok".into(),
            H2Res::Err(e) => format!("Err({})", e),
            H2Res::Panic(_) => "Panic".into(),
        }
    }
    fn is_ok(&self) -> bool {
        matches!(self, H2Res::Ok(_))
    }
}

/// Feed `block` cut at `cuts` (ascending offsets, may repeat / be 0 / len) to `dec`, resuming after each shortfall
/// exactly as `FramedRead::decode_frame` does with `Partial.buf`.
pub fn h2_decode(dec: &mut Decoder, block: &[u8], cuts: &[usize]) -> H2Res {
    let r = catch_unwind(AssertUnwindSafe(|| {
        let mut fields: Vec<Field> = vec![];
        let mut bounds = vec![0usize];
        bounds.extend_from_slice(cuts);
        bounds.push(block.len());
        let nfrag = bounds.len() - 1;
        let mut buf = BytesMut::new();
        for i in 0..nfrag {
            let frag = &block[bounds[i]..bounds[i + 1]];
            let last = i + 1 == nfrag;
            if buf.is_empty() {
                buf = BytesMut::from(frag);
            } else {
                buf.extend_from_slice(frag);
            }
            if i > 0 {
                // FramedRead marks every CONTINUATION fragment as continuing the block
                dec.continue_block();
            }
            let res = {
                let mut cur = Cursor::new(&mut buf);
                dec.decode(&mut cur, |h| {
                    fields.push(header_octets(&h));
                    ControlFlow::Continue(())
                })
            };
            match res {
                Ok(()) => {}
                Err(DecoderError::NeedMore(_)) if !last => {}
                Err(e) => return H2Res::Err(format!("{:?}", e)),
            }
        }
        H2Res::Ok(fields)
    }));
    match r {
        Ok(x) => x,
        Err(p) => H2Res::Panic(panic_text(&p)),
    }
}

pub fn panic_text(p: &Box<dyn std::any::Any + Send>) -> String {
    if let Some(s) = p.downcast_ref::<&str>() {
        s.to_string()
    } else if let Some(s) = p.downcast_ref::<String>() {
        s.clone()
    } else {
        "panic".into()
    }
}

/// (entries, size, max_size) of h2's decoder table, read from its `Debug` text.
pub fn h2_table_stats(dec: &Decoder) -> (usize, usize, usize) {
    let d = format!("{:?}", dec);
    let t = d.find("table: Table {").expect("Decoder Debug format changed");
    let rest = &d[t..];
    let ms = rest.rfind("max_size: ").expect("max_size");
    let max: usize = rest[ms + 10..].chars().take_while(|c| c.is_ascii_digit()).collect::<String>().parse().unwrap();
    let sz = rest[..ms].rfind("size: ").expect("size");
    let size: usize = rest[sz + 6..].chars().take_while(|c| c.is_ascii_digit()).collect::<String>().parse().unwrap();
    // entries: count by decoding indices is expensive; count top-level elements of `entries: [` roughly by probing get()
    (0, size, max)
}

pub fn h2_state_text(dec: &Decoder) -> String {
    format!("{:?}", dec)
}

// ---------------------------------------------------------------------------------------------
// which decoded fields h2 is obliged to accept (plainly valid HTTP/2 fields)

fn plainly_valid(f: &Field) -> bool {
    let (n, v) = f;
    let printable = |b: &u8| (0x20..=0x7e).contains(b);
    if n.is_empty() {
        return false;
    }
    if n[0] == b':' {
        match &n[..] {
            b":method" => !v.is_empty() && v.iter().all(|c| c.is_ascii_uppercase()),
            b":scheme" => v == b"http" || v == b"https",
            b":path" | b":authority" => v.iter().all(printable),
            b":status" => v.len() == 3 && v.iter().all(|c| c.is_ascii_digit()) && (b'1'..=b'5').contains(&v[0]),
            _ => false,
        }
    } else {
        n.iter().all(|c| c.is_ascii_lowercase() || c.is_ascii_digit() || *c == b'-') && v.iter().all(printable)
    }
}

// ---------------------------------------------------------------------------------------------
// cases

#[derive(Clone, Debug)]
pub enum Step {
    /// local endpoint changed SETTINGS_HEADER_TABLE_SIZE and the peer acknowledged it
    Limit(usize),
    Block(Vec<u8>),
}

#[derive(Clone, Debug)]
pub struct Case {
    pub history: Vec<Step>,
    pub block: Vec<u8>,
    pub label: String,
}

impl Case {
    fn to_json(&self, cuts: &[usize]) -> Value {
        json!({
            "harness": "c11.block",
            "case": {
                "label": self.label,
                "history": self.history.iter().map(|s| match s {
                    Step::Limit(n) => json!({"limit": n}),
                    Step::Block(b) => json!({"block": hex(b)}),
                }).collect::<Vec<_>>(),
                "block": hex(&self.block),
                "cuts": cuts,
            }
        })
    }
    pub fn from_json(v: &Value) -> (Case, Vec<usize>) {
        let c = &v["case"];
        let history = c["history"]
            .as_array()
            .unwrap()
            .iter()
            .map(|s| {
                if let Some(n) = s.get("limit") {
                    Step::Limit(n.as_u64().unwrap() as usize)
                } else {
                    Step::Block(unhex(s["block"].as_str().unwrap()))
                }
            })
            .collect();
        let cuts = c["cuts"].as_array().map(|a| a.iter().map(|x| x.as_u64().unwrap() as usize).collect()).unwrap_or_default();
        (Case { history, block: unhex(c["block"].as_str().unwrap()), label: c["label"].as_str().unwrap_or("").to_string() }, cuts)
    }
}

const INIT_LIMIT: usize = 4096;

/// Build both decoders and run the history on them. Returns None if the history itself fails on either side
/// (histories are legal by construction; a failure there is reported by the whole-block run of that history).
fn prepare(history: &[Step]) -> Option<(Decoder, RefDecoder)> {
    let mut d = Decoder::new(INIT_LIMIT);
    let mut r = RefDecoder::new(INIT_LIMIT);
    for s in history {
        match s {
            Step::Limit(n) => {
                d.queue_size_update(*n);
                r.set_limit(*n);
            }
            Step::Block(b) => {
                let a = h2_decode(&mut d, b, &[]);
                let b = r.decode_block(b);
                match (a, b) {
                    (H2Res::Ok(x), Ok(y)) if x == y.fields => {}
                    _ => return None,
                }
            }
        }
    }
    Some((d, r))
}

pub struct Stats {
    pub evaluations: AtomicU64,
    pub decode_calls: AtomicU64,
    pub accepted: AtomicU64,
    pub rejected: AtomicU64,
    pub split_runs: AtomicU64,
    pub needmore_resumes: AtomicU64,
    pub r2_applicable: AtomicU64,
    pub obs: Vec<Mutex<std::collections::HashSet<u64>>>,
}

impl Stats {
    pub fn new() -> Stats {
        Stats {
            evaluations: AtomicU64::new(0),
            decode_calls: AtomicU64::new(0),
            accepted: AtomicU64::new(0),
            rejected: AtomicU64::new(0),
            split_runs: AtomicU64::new(0),
            needmore_resumes: AtomicU64::new(0),
            r2_applicable: AtomicU64::new(0),
            obs: (0..64).map(|_| Mutex::new(Default::default())).collect(),
        }
    }
}

#[derive(Clone, Copy, PartialEq, Eq)]
pub enum Splits {
    None,
    Two,
    TwoThree,
}

/// Evaluate one case: whole block against the reference, then every requested split against the whole result.
pub fn eval_case(case: &Case, splits: Splits, stats: &Stats, vios: &Mutex<VioSet>, verbose: bool) {
    match prepare(&case.history) {
        Some(p) => eval_prepared(case, &p, splits, stats, vios, verbose),
        None => {
            if verbose {
                println!("history does not decode identically on both sides (reported by its own case)");
            }
        }
    }
}

/// Same, with the decoders after the history already built (they are cloned for every run).
pub fn eval_prepared(case: &Case, prepared: &(Decoder, RefDecoder), splits: Splits, stats: &Stats, vios: &Mutex<VioSet>, verbose: bool) {
    let (mut d, mut r) = (prepared.0.clone(), prepared.1.clone());
    stats.evaluations.fetch_add(1, Ordering::Relaxed);
    let whole = h2_decode(&mut d, &case.block, &[]);
    stats.decode_calls.fetch_add(1, Ordering::Relaxed);
    let refr = r.decode_block(&case.block);
    let whole_state = h2_state_text(&d);
    if verbose {
        println!("block      = {}", hex(&case.block));
        println!("h2 (whole) = {:?}", whole);
        println!("reference  = {:?}", refr);
        println!("h2 state   = {}", whole_state);
        println!("ref state  = size={} max={} limit={} entries={}", r.size, r.max_size, r.limit, r.table.len());
    }
    let mut add = |rule: &str, sig: String, what: String, cuts: &[usize]| {
        if verbose {
            println!("RULE VIOLATED: {} [{}] {}", rule, sig, what);
        }
        vios.lock().unwrap().add(Violation { rule: rule.to_string(), signature: sig, what, replay: case.to_json(cuts) });
    };
    // observation hash for distinct-outcome counting
    {
        let mut h = std::collections::hash_map::DefaultHasher::new();
        use std::hash::{Hash, Hasher};
        match &whole {
            H2Res::Ok(f) => (0u8, f).hash(&mut h),
            H2Res::Err(e) => (1u8, e).hash(&mut h),
            H2Res::Panic(e) => (2u8, e).hash(&mut h),
        }
        match &refr {
            Ok(b) => (0u8, &b.fields).hash(&mut h),
            Err(e) => (1u8, e).hash(&mut h),
        }
        let o = h.finish();
        let shard = (o as usize) % 64;
        stats.obs[shard].lock().unwrap().insert(o);
    }
    match (&whole, &refr) {
        (H2Res::Panic(p), _) => add("C11.panic", "whole".into(), format!("decoder panicked: {}", p), &[]),
        (H2Res::Ok(f), Ok(rb)) => {
            stats.accepted.fetch_add(1, Ordering::Relaxed);
            if *f != rb.fields {
                add("C11.wrong-fields", format!("n_h2={} n_ref={}", f.len(), rb.fields.len()), format!("h2 decoded {:?}, RFC 7541 assigns {:?}", f, rb.fields), &[]);
            }
            let (_, size, max) = h2_table_stats(&d);
            if size > max {
                add("C11.table-over-max", "size>max".into(), format!("dynamic table size {} > max {}", size, max), &[]);
            }
            if size != r.size || max != r.max_size {
                add("C11.table-state", "differs-from-reference".into(), format!("h2 table size/max {}/{} but RFC 7541 gives {}/{}", size, max, r.size, r.max_size), &[]);
            }
            if !rb.size_updates.is_empty() && max > r.limit {
                add("C11.table-over-limit", "max>limit".into(), format!("table max {} > advertised limit {}", max, r.limit), &[]);
            }
        }
        (H2Res::Ok(f), Err(e)) => {
            stats.accepted.fetch_add(1, Ordering::Relaxed);
            add("C11.accepts-rfc-error", format!("ref={:?}", e), format!("h2 accepted (fields {:?}) a block that RFC 7541 makes a decoding error ({:?})", f, e), &[]);
        }
        (H2Res::Err(e), Ok(rb)) => {
            stats.rejected.fetch_add(1, Ordering::Relaxed);
            if rb.fields.iter().all(plainly_valid) && r.last_max_int_octets <= 5 {
                stats.r2_applicable.fetch_add(1, Ordering::Relaxed);
                add("C11.rejects-valid", format!("h2={}", e), format!("h2 rejected ({}) a valid block with plainly valid fields {:?}", e, rb.fields), &[]);
            }
        }
        (H2Res::Err(_), Err(_)) => {
            stats.rejected.fetch_add(1, Ordering::Relaxed);
        }
    }
    if r.violations.len() > 0 {
        panic!("reference decoder broke its own invariant: {:?}", r.violations);
    }
    if splits == Splits::None || case.block.len() < 1 {
        return;
    }
    let n = case.block.len();
    let mut check_split = |cuts: &[usize]| {
        let mut d2 = prepared.0.clone();
        let res = h2_decode(&mut d2, &case.block, cuts);
        stats.split_runs.fetch_add(1, Ordering::Relaxed);
        stats.decode_calls.fetch_add(cuts.len() as u64 + 1, Ordering::Relaxed);
        let same = match (&res, &whole) {
            (H2Res::Ok(a), H2Res::Ok(b)) => a == b && h2_state_text(&d2) == whole_state,
            (H2Res::Err(_), H2Res::Err(_)) => true,
            _ => false,
        };
        if verbose {
            println!("cuts {:?}: {:?} state_equal={}", cuts, res, h2_state_text(&d2) == whole_state);
        }
        if let H2Res::Panic(p) = &res {
            add("C11.panic", "split".into(), format!("decoder panicked when fed in pieces: {}", p), cuts);
        } else if !same {
            let sig = format!("whole={} split={}", whole.class(), res.class());
            let what = if whole.is_ok() && res.is_ok() {
                format!("same block, different result when cut at {:?}: fields/state differ (whole {:?} vs split {:?})", cuts, whole, res)
            } else {
                format!("same block, different verdict when cut at {:?}: whole {} but split {}", cuts, whole.class(), res.class())
            };
            add("C11.split-invariance", sig, what, cuts);
        }
    };
    for a in 1..n {
        check_split(&[a]);
    }
    if splits == Splits::TwoThree {
        for a in 1..n {
            for b in a + 1..n {
                check_split(&[a, b]);
            }
        }
    }
}

// ---------------------------------------------------------------------------------------------
// catalogues

const CORE: [&str; 26] = [
    "idx0", "idx2", "idx62", "idx63", "idx70", "inc-new", "inc-new-huff", "inc-n62", "inc-n99", "inc-big", "inc-empty-value", "wo-new", "wo-n62",
    "nv-n8", "upd0", "upd100", "upd4096", "upd4097", "trunc-str", "trunc-int", "upper-name", "bad-pseudo", "empty-name", "huff-eos", "huff-pad8",
    "pseudo-lit-name",
];

pub fn rep_catalogue() -> Vec<(String, Vec<u8>)> {
    let mut c: Vec<(String, Vec<u8>)> = vec![];
    let mut add = |l: &str, b: Vec<u8>| c.push((l.to_string(), b));
    // indexed
    for i in [0u64, 1, 2, 8, 16, 61, 62, 63, 64, 70, 127, 128, 200] {
        add(&format!("idx{}", i), rh::rep_indexed(i));
    }
    add("idx62-noncanon", vec![0xff, 0x80, 0x00]); // 127 + 0 with a redundant continuation octet
    add("idx-5oct", vec![0xff, 0x80, 0x80, 0x80, 0x00]); // 5 octets, value 127
    add("idx-6oct", vec![0xff, 0x80, 0x80, 0x80, 0x80, 0x00]); // 6 octets, value 127
    add("idx-2^32", vec![0xff, 0x81, 0xff, 0xff, 0xff, 0x0f]); // 127 + 2^32
    // literals with incremental indexing
    add("inc-new", rh::rep_literal(Lit::Incremental, 0, b"x-a", b"1", false, false));
    add("inc-new2", rh::rep_literal(Lit::Incremental, 0, b"x-b", b"22", false, false));
    add("inc-new-huff", rh::rep_literal(Lit::Incremental, 0, b"x-huff", b"value", true, true));
    add("inc-n1", rh::rep_literal(Lit::Incremental, 1, b"", b"h", false, false));
    add("inc-n62", rh::rep_literal(Lit::Incremental, 62, b"", b"v62", false, false));
    add("inc-n63", rh::rep_literal(Lit::Incremental, 63, b"", b"v63", false, true));
    add("inc-n99", rh::rep_literal(Lit::Incremental, 99, b"", b"v", false, false));
    add("inc-empty-value", rh::rep_literal(Lit::Incremental, 0, b"x-e", b"", false, false));
    add("inc-big", rh::rep_literal(Lit::Incremental, 0, b"x-big", &[b'b'; 90], false, false));
    add("inc-huge", rh::rep_literal(Lit::Incremental, 0, b"x-huge", &[b'h'; 4090], false, false));
    add("inc-status", rh::rep_literal(Lit::Incremental, 8, b"", b"404", false, false));
    add("inc-cookie", rh::rep_literal(Lit::Incremental, 32, b"", b"a=b", false, false));
    // literals without indexing / never indexed
    add("wo-new", rh::rep_literal(Lit::Without, 0, b"x-w", b"w", false, false));
    add("wo-n2", rh::rep_literal(Lit::Without, 2, b"", b"PATCH", false, false));
    add("wo-n62", rh::rep_literal(Lit::Without, 62, b"", b"w62", false, false));
    add("wo-n15", rh::rep_literal(Lit::Without, 15, b"", b"utf-8", false, false)); // 4-bit prefix boundary
    add("wo-n16", rh::rep_literal(Lit::Without, 16, b"", b"gzip", false, true));
    add("nv-new", rh::rep_literal(Lit::Never, 0, b"x-n", b"n", false, false));
    add("nv-n8", rh::rep_literal(Lit::Never, 8, b"", b"500", false, false));
    add("nv-n63", rh::rep_literal(Lit::Never, 63, b"", b"n63", true, false));
    // size updates
    for v in [0u64, 1, 30, 31, 100, 4095, 4096, 4097, 8192, 70000] {
        add(&format!("upd{}", v), rh::rep_size_update(v));
    }
    add("upd31-noncanon", vec![0x3f, 0x80, 0x00]);
    // truncated
    add("trunc-str", vec![0x40, 0x03, b'x', b'-']);
    add("trunc-val", vec![0x40, 0x02, b'x', b'y', 0x05, b'v']);
    add("trunc-int", vec![0xff, 0x80]);
    add("trunc-lit-head", vec![0x40]);
    // invalid content
    add("upper-name", rh::rep_literal(Lit::Without, 0, b"X-A", b"1", false, false));
    add("space-name", rh::rep_literal(Lit::Without, 0, b"x a", b"1", false, false));
    add("nul-value", rh::rep_literal(Lit::Without, 0, b"x-z", b"a\0b", false, false));
    add("bad-pseudo", rh::rep_literal(Lit::Without, 0, b":foo", b"1", false, false));
    add("bad-status", rh::rep_literal(Lit::Without, 8, b"", b"abc", false, false));
    add("nonutf8-path", rh::rep_literal(Lit::Without, 4, b"", &[0xff, 0xfe], false, false));
    add("empty-method", rh::rep_literal(Lit::Without, 2, b"", b"", false, false));
    add("empty-name", rh::rep_literal(Lit::Without, 0, b"", b"v", false, false));
    add("pseudo-lit-name", rh::rep_literal(Lit::Incremental, 0, b":path", b"/lit", false, false));
    add("pseudo-lit-huff", rh::rep_literal(Lit::Incremental, 0, b":authority", b"example.org", true, true));
    // Huffman defects in the value string (name from index 62 is avoided: use new literal name raw)
    let hv = |l: &str, raw: Vec<u8>| {
        let mut o = vec![0x00, 0x03, b'x', b'-', b'h'];
        rh::encode_int(&mut o, 7, 0x80, raw.len() as u64);
        o.extend(raw);
        (l.to_string(), o)
    };
    { let (l, b) = hv("huff-eos", vec![0xff, 0xff, 0xff, 0xff]); add(&l, b); } // EOS + 2 bits
    { let (l, b) = hv("huff-pad8", vec![0x1f, 0xff]); add(&l, b); } // 'a' (00011) + 111, then 8 bits of padding
    { let (l, b) = hv("huff-pad0", vec![0x18]); add(&l, b); } // 'a' + 000 padding: not EOS prefix
    { let (l, b) = hv("huff-ok-a", vec![0x1f]); add(&l, b); } // 'a' + 111
    { let (l, b) = hv("huff-empty", vec![]); add(&l, b); }
    { let (l, b) = hv("huff-incomplete", vec![0xfe]); add(&l, b); } // 7 ones + 0: an incomplete code that is not padding
    // first-octet patterns around the representation boundaries
    add("oct-0x20-trunc", vec![0x3f]); // size update needing continuation, truncated
    add("oct-0x10", vec![0x10, 0x01, b'k', 0x01, b'v']);
    add("oct-0x0f", vec![0x0f, 0x00, 0x01, b'v']); // literal w/o indexing, name idx 15
    c
}

fn histories() -> Vec<(String, Vec<Step>)> {
    let b = |items: &[Vec<u8>]| Step::Block(items.concat());
    let inc = |n: &[u8], v: &[u8]| rh::rep_literal(Lit::Incremental, 0, n, v, false, false);
    vec![
        ("h-empty".into(), vec![]),
        ("h-1entry".into(), vec![b(&[inc(b"x-p", b"1")])]),
        ("h-2entries".into(), vec![b(&[inc(b"x-p", b"1"), inc(b"x-q", b"22")])]),
        ("h-2blocks".into(), vec![b(&[inc(b"x-p", b"1")]), b(&[rh::rep_indexed(62), inc(b"x-q", b"22"), inc(b":path", b"/p")])]),
        ("h-limit100".into(), vec![Step::Limit(100), b(&[rh::rep_size_update(100), inc(b"x-p", b"1"), inc(b"x-q", b"22")])]),
        ("h-limit0".into(), vec![Step::Limit(0), b(&[rh::rep_size_update(0), inc(b"x-p", b"1")])]),
        ("h-limit8192".into(), vec![Step::Limit(8192), b(&[rh::rep_size_update(8192), inc(b"x-p", b"1")])]),
        ("h-limit-pending100".into(), vec![b(&[inc(b"x-p", b"1"), inc(b"x-q", b"22")]), Step::Limit(100)]),
        // NOTE: two `Limit` steps without a block in between are not enumerated: h2 advertises
        // SETTINGS_HEADER_TABLE_SIZE only in its initial SETTINGS (no public API changes it later), so
        // `queue_size_update` is never called twice on a connection (see DESIGN.md section 8).
        ("h-shrunk-by-peer".into(), vec![b(&[inc(b"x-p", b"1"), inc(b"x-q", b"22")]), b(&[rh::rep_size_update(40), rh::rep_size_update(4096), inc(b"x-r", b"3")])]),
        ("h-full".into(), vec![Step::Limit(80), b(&[rh::rep_size_update(80), inc(b"x-p", b"1"), inc(b"x-q", b"22")])]),
    ]
}

// ---------------------------------------------------------------------------------------------
// (a) Huffman strings

fn huffman_one(src: &[u8], scratch: &mut BytesMut) -> (Result<Vec<u8>, ()>, Result<Vec<u8>, HpackError>) {
    scratch.clear();
    let a = match huffman_decode(src, scratch) {
        Ok(b) => Ok(b.to_vec()),
        Err(_) => Err(()),
    };
    (a, rh::huff_decode(src))
}

fn huffman_vio(src: &[u8], a: &Result<Vec<u8>, ()>, b: &Result<Vec<u8>, HpackError>) -> Option<Violation> {
    let (rule, sig, what) = match (a, b) {
        (Ok(x), Ok(y)) if x == y => return None,
        (Err(_), Err(_)) => return None,
        (Ok(x), Ok(y)) => ("C11.huffman-wrong-output", "differs".to_string(), format!("huffman {} decodes to {:?}, RFC 7541 gives {:?}", hex(src), x, y)),
        (Ok(x), Err(e)) => ("C11.huffman-accepts-invalid", format!("{:?}", e), format!("huffman {} accepted as {:?}, RFC 7541 makes it a decoding error (EOS / padding)", hex(src), x)),
        (Err(_), Ok(y)) => ("C11.huffman-rejects-valid", "rejects".to_string(), format!("huffman {} rejected, RFC 7541 decodes it to {:?}", hex(src), y)),
    };
    Some(Violation { rule: rule.into(), signature: sig, what, replay: json!({"harness": "c11.huffman", "case": {"bytes": hex(src)}}) })
}

fn huffman_bytes_exhaustive(len: usize, stats: &Stats, vios: &Mutex<VioSet>, ctx: &Ctx) -> bool {
    // partition by first two bytes (or first byte for short strings)
    let parts = if len >= 2 { 65536 } else { 256usize.pow(len as u32) };
    let completed = AtomicU64::new(0);
    let aborted = std::sync::atomic::AtomicBool::new(false);
    par_for(parts, |p| {
        if aborted.load(Ordering::Relaxed) {
            return;
        }
        if ctx.over_budget() {
            aborted.store(true, Ordering::Relaxed);
            return;
        }
        let mut scratch = BytesMut::with_capacity(64);
        let mut src = vec![0u8; len];
        let rest = if len >= 2 { len - 2 } else { 0 };
        if len >= 2 {
            src[0] = (p >> 8) as u8;
            src[1] = p as u8;
        } else if len == 1 {
            src[0] = p as u8;
        }
        let total: u64 = 256u64.pow(rest as u32);
        let mut acc = 0u64;
        let mut ok = 0u64;
        let mut local_obs = 0u64;
        for i in 0..total {
            for k in 0..rest {
                src[2 + k] = (i >> (8 * (rest - 1 - k))) as u8;
            }
            let (a, b) = huffman_one(&src, &mut scratch);
            acc += 1;
            if a.is_ok() {
                ok += 1;
            }
            if let Some(v) = huffman_vio(&src, &a, &b) {
                vios.lock().unwrap().add(v);
            }
            local_obs ^= fnv64(format!("{:?}", a).as_bytes());
        }
        let _ = local_obs;
        stats.evaluations.fetch_add(acc, Ordering::Relaxed);
        stats.decode_calls.fetch_add(acc, Ordering::Relaxed);
        stats.accepted.fetch_add(ok, Ordering::Relaxed);
        stats.rejected.fetch_add(acc - ok, Ordering::Relaxed);
        completed.fetch_add(1, Ordering::Relaxed);
    });
    !aborted.load(Ordering::Relaxed)
}

/// all encodings of `nsym` symbols out of 257 (EOS included) followed by every padding of 0..=7 arbitrary bits that
/// byte-aligns the string, and additionally one whole extra 0xff octet (padding > 7 bits).
fn huffman_symbols_exhaustive(nsym: usize, stats: &Stats, vios: &Mutex<VioSet>, ctx: &Ctx) -> bool {
    use h2wire::huffman_table::HUFFMAN_CODES;
    let aborted = std::sync::atomic::AtomicBool::new(false);
    let firsts = 257usize;
    par_for(firsts, |s0| {
        if aborted.load(Ordering::Relaxed) {
            return;
        }
        let mut scratch = BytesMut::with_capacity(64);
        let total = 257usize.pow((nsym - 1) as u32);
        let mut n = 0u64;
        let mut ok = 0u64;
        for rest in 0..total {
            if rest % 4096 == 0 && ctx.over_budget() {
                aborted.store(true, Ordering::Relaxed);
                return;
            }
            let mut syms = vec![s0 as u16];
            let mut r = rest;
            for _ in 1..nsym {
                syms.push((r % 257) as u16);
                r /= 257;
            }
            let bits: u32 = syms.iter().map(|&s| HUFFMAN_CODES[s as usize].1 as u32).sum();
            let pad = (8 - bits % 8) % 8;
            for pat in 0..(1u32 << pad) {
                let enc = rh::huff_encode_symbols(&syms, pad, pat).unwrap();
                for extra in [false, true] {
                    let mut e = enc.clone();
                    if extra {
                        e.push(0xff);
                    }
                    let (a, b) = huffman_one(&e, &mut scratch);
                    n += 1;
                    if a.is_ok() {
                        ok += 1;
                    }
                    if let Some(v) = huffman_vio(&e, &a, &b) {
                        vios.lock().unwrap().add(v);
                    }
                }
            }
        }
        stats.evaluations.fetch_add(n, Ordering::Relaxed);
        stats.decode_calls.fetch_add(n, Ordering::Relaxed);
        stats.accepted.fetch_add(ok, Ordering::Relaxed);
        stats.rejected.fetch_add(n - ok, Ordering::Relaxed);
    });
    !aborted.load(Ordering::Relaxed)
}

// ---------------------------------------------------------------------------------------------
// (b) prefix integers

fn int_cases(max_cont: usize) -> Vec<Case> {
    // dynamic table with many small entries so that multi-octet indices are meaningful
    let mut fill = vec![];
    for i in 0..110u32 {
        let name = format!("k{}", i);
        fill.extend(rh::rep_literal(Lit::Incremental, 0, name.as_bytes(), b"", false, false));
    }
    let history = vec![Step::Block(fill)];
    let octs = [0x00u8, 0x01, 0x7f, 0x80, 0x81, 0xff];
    let mut conts: Vec<Vec<u8>> = vec![vec![]];
    let mut layer: Vec<Vec<u8>> = vec![vec![]];
    for _ in 0..max_cont {
        let mut next = vec![];
        for p in &layer {
            for &o in &octs {
                let mut q = p.clone();
                q.push(o);
                next.push(q);
            }
        }
        conts.extend(next.iter().cloned());
        layer = next;
    }
    let mut cases = vec![];
    for (label, first, tail) in [
        ("int7-indexed", 0xffu8, vec![]),
        ("int6-inc-name", 0x7f, vec![0x01, b'v']),
        ("int4-wo-name", 0x0f, vec![0x01, b'v']),
        ("int4-never-name", 0x1f, vec![0x01, b'v']),
        ("int5-update", 0x3f, vec![]),
    ] {
        for c in &conts {
            let mut b = vec![first];
            b.extend_from_slice(c);
            b.extend_from_slice(&tail);
            cases.push(Case { history: history.clone(), block: b, label: label.to_string() });
        }
    }
    // 7-bit string length prefix: literal with new name whose length integer is multi-octet
    for c in &conts {
        if c.len() > 3 {
            continue;
        }
        let mut b = vec![0x00, 0x7f];
        b.extend_from_slice(c);
        b.extend(std::iter::repeat(b'n').take(300));
        cases.push(Case { history: vec![], block: b, label: "int7-strlen".to_string() });
    }
    cases
}

// ---------------------------------------------------------------------------------------------

pub fn run(ctx: &Ctx) -> Outcome {
    let mut out = Outcome::default();
    let stats = Stats::new();
    let vios = Mutex::new(VioSet::default());
    let quick = ctx.tier.is_quick();

    // (a) Huffman byte strings
    let mut huff_complete_len = 0;
    let max_len = if quick { 3 } else { 4 };
    for len in 0..=max_len {
        let before = stats.evaluations.load(Ordering::Relaxed);
        let t = ctx.elapsed();
        // the 4-byte domain needs ~10 min on 16 cores; only start it with enough budget left
        if len == 4 && ctx.remaining() < 900.0 {
            break;
        }
        if huffman_bytes_exhaustive(len, &stats, &vios, ctx) {
            huff_complete_len = len;
        } else {
            break;
        }
        eprintln!("[C11] huffman bytes len={} cases={} t={:.1}s", len, stats.evaluations.load(Ordering::Relaxed) - before, ctx.elapsed() - t);
    }
    let huff_bytes = stats.evaluations.load(Ordering::Relaxed);
    let huff_accepted = stats.accepted.load(Ordering::Relaxed);
    let mut huff_sym_complete = 0;
    for nsym in 1..=(if quick { 2 } else { 3 }) {
        let t = ctx.elapsed();
        if huffman_symbols_exhaustive(nsym, &stats, &vios, ctx) {
            huff_sym_complete = nsym;
        } else {
            break;
        }
        eprintln!("[C11] huffman symbols n={} t={:.1}s", nsym, ctx.elapsed() - t);
    }
    let huff_total = stats.evaluations.load(Ordering::Relaxed);
    out.harness(
        "huffman",
        json!({"byte_strings_complete_up_to_len": huff_complete_len, "byte_string_cases": huff_bytes, "byte_strings_accepted": huff_accepted,
               "symbol_sequences_complete_up_to": huff_sym_complete, "symbol_sequence_cases": huff_total - huff_bytes}),
    );

    // (b) integers
    let max_cont = if quick { 5 } else { 6 };
    let ic = int_cases(max_cont);
    let before = stats.evaluations.load(Ordering::Relaxed);
    {
        let with_hist = prepare(&ic[0].history).expect("integer history");
        let empty = prepare(&[]).unwrap();
        par_for(ic.len(), |i| eval_prepared(&ic[i], if ic[i].history.is_empty() { &empty } else { &with_hist }, Splits::Two, &stats, &vios, false));
    }
    out.harness("prefix-integers", json!({"cases": stats.evaluations.load(Ordering::Relaxed) - before, "continuation_alphabet": "00,01,7f,80,81,ff", "max_continuation_octets": max_cont}));
    eprintln!("[C11] integers done t={:.1}s", ctx.elapsed());

    // (c)+(d) representation sequences after histories, whole and split
    let cat = rep_catalogue();
    let hs = histories();
    let prepared: Vec<(Decoder, RefDecoder)> = hs.iter().map(|(l, h)| prepare(h).unwrap_or_else(|| panic!("history {} does not decode", l))).collect();
    let core: Vec<(String, Vec<u8>)> = cat.iter().filter(|(l, _)| CORE.contains(&l.as_str())).cloned().collect();
    assert_eq!(core.len(), CORE.len());
    let mut seq_done = 0;
    let mut seq_cases = 0u64;
    let mut partial_level = None;
    // levels: (sequence length, catalogue, splits). quick: len<=2 over the full catalogue with all 2-/3-way splits, len 3 over the
    // core catalogue with all 2-way splits; thorough: len<=3 over the full catalogue with all 2-/3-way splits.
    let levels: Vec<(usize, &Vec<(String, Vec<u8>)>, Splits, &str)> = if quick {
        vec![(1, &cat, Splits::TwoThree, "full"), (2, &cat, Splits::TwoThree, "full"), (3, &core, Splits::Two, "core")]
    } else {
        vec![(1, &cat, Splits::TwoThree, "full"), (2, &cat, Splits::TwoThree, "full"), (3, &cat, Splits::TwoThree, "full")]
    };
    let mut level_report = vec![];
    for (len, cat, splits, cname) in levels {
        let n = cat.len();
        let total = n.pow(len as u32);
        let before = stats.evaluations.load(Ordering::Relaxed);
        let aborted = std::sync::atomic::AtomicBool::new(false);
        let t0 = ctx.elapsed();
        par_for(total, |idx| {
            if aborted.load(Ordering::Relaxed) {
                return;
            }
            if idx % 64 == 0 && ctx.over_budget() {
                aborted.store(true, Ordering::Relaxed);
                return;
            }
            let mut k = idx;
            let mut block = vec![];
            let mut label = String::new();
            for _ in 0..len {
                let (l, b) = &cat[k % n];
                k /= n;
                block.extend_from_slice(b);
                if !label.is_empty() {
                    label.push(',');
                }
                label.push_str(l);
            }
            for (hi, (hl, h)) in hs.iter().enumerate() {
                let case = Case { history: h.clone(), block: block.clone(), label: format!("{}|{}", hl, label) };
                // blocks containing the 4 KB literal: 2-way splits only (cost)
                let sp = if block.len() > 200 { Splits::Two } else { splits };
                eval_prepared(&case, &prepared[hi], sp, &stats, &vios, false);
            }
        });
        let done = stats.evaluations.load(Ordering::Relaxed) - before;
        seq_cases += done;
        eprintln!("[C11] rep sequences len={} catalogue={}({}) cases={} t={:.1}s", len, cname, n, done, ctx.elapsed() - t0);
        let complete = !aborted.load(Ordering::Relaxed);
        level_report.push(json!({"len": len, "catalogue": cname, "catalogue_size": n, "splits": if splits == Splits::TwoThree { "all 2-way and 3-way" } else { "all 2-way" }, "cases": done, "complete": complete}));
        if !complete {
            partial_level = Some(len);
            break;
        }
        seq_done = len;
    }
    out.harness(
        "representation-sequences",
        json!({"histories": hs.len(), "complete_up_to_len": seq_done, "partial_level": partial_level, "cases": seq_cases, "levels": level_report,
               "split_runs": stats.split_runs.load(Ordering::Relaxed)}),
    );

    let evals = stats.evaluations.load(Ordering::Relaxed);
    let distinct: u64 = stats.obs.iter().map(|m| m.lock().unwrap().len() as u64).sum();
    out.set("evaluations", json!(evals));
    out.set("states", json!(evals));
    out.set("transitions", json!(stats.decode_calls.load(Ordering::Relaxed)));
    out.set("traces_validated_against_impl", json!(evals + stats.split_runs.load(Ordering::Relaxed)));
    out.set("distinct_nontrivial", json!(distinct));
    out.set("accepted_by_h2", json!(stats.accepted.load(Ordering::Relaxed)));
    out.set("rejected_by_h2", json!(stats.rejected.load(Ordering::Relaxed)));
    out.set("rule", json!("X3: every input of each finite domain is decoded by h2's real hpack::Decoder / huffman::decode and by the RFC 7541 reference; distinct_nontrivial = distinct (h2 result, reference result) pairs over the block-level domains; states = inputs enumerated, transitions = decode calls on the implementation"));
    out.set("exhaustive", json!(partial_level.is_none() && huff_complete_len == max_len));
    out.add_sample(json!({"domain": "huffman", "bytes": "1f", "h2": "Ok(\"a\")", "reference": "Ok(\"a\")"}));
    out.add_sample(Case { history: hs[4].1.clone(), block: [cat[17].1.clone(), cat[40].1.clone()].concat(), label: format!("{}|{},{}", hs[4].0, cat[17].0, cat[40].0) }.to_json(&[3]));
    out.add_sample(Case { history: hs[2].1.clone(), block: [core[2].1.clone(), core[14].1.clone(), core[5].1.clone()].concat(), label: format!("{}|{},{},{}", hs[2].0, core[2].0, core[14].0, core[5].0) }.to_json(&[1]));
    out.guard_nonzero("accepted blocks", stats.accepted.load(Ordering::Relaxed));
    out.guard_nonzero("rejected blocks", stats.rejected.load(Ordering::Relaxed));
    out.guard_nonzero("split runs", stats.split_runs.load(Ordering::Relaxed));
    out.assume("reference decoder in h2wire (validated at setup against RFC 7541 App. C and the third-party stories in fixtures/hpack)");
    out.assume("block domain = sequences of <= 3 representations from the catalogue after the listed histories; Huffman domain = all byte strings up to the stated length; integers over the stated continuation alphabet");
    out.assume("a peer that omits a required table-size update is not checked (not an RFC decoding error)");
    out.assume("h2 may reject integers longer than 5 octets (implementation limit allowed by RFC 7541 5.1)");
    out.violations = vios.into_inner().unwrap().into_vec();
    out
}

pub fn replay(v: &Value) -> bool {
    let stats = Stats::new();
    let vios = Mutex::new(VioSet::default());
    match v["harness"].as_str().unwrap_or("") {
        "c11.huffman" => {
            let src = unhex(v["case"]["bytes"].as_str().unwrap());
            let mut s = BytesMut::new();
            let (a, b) = huffman_one(&src, &mut s);
            println!("bytes     = {}", hex(&src));
            println!("h2        = {:?}", a);
            println!("reference = {:?}", b);
            if let Some(x) = huffman_vio(&src, &a, &b) {
                println!("RULE VIOLATED: {} {}", x.rule, x.what);
                return true;
            }
            false
        }
        _ => {
            let (case, cuts) = Case::from_json(v);
            println!("label = {}", case.label);
            println!("history = {:?}", case.history);
            eval_case(&case, Splits::None, &stats, &vios, true);
            if !cuts.is_empty() {
                let (mut d2, _) = prepare(&case.history).unwrap();
                let res = h2_decode(&mut d2, &case.block, &cuts);
                println!("cut at {:?}: {:?}", cuts, res);
                println!("state after = {}", h2_state_text(&d2));
                let (mut d1, _) = prepare(&case.history).unwrap();
                let whole = h2_decode(&mut d1, &case.block, &[]);
                let same = match (&res, &whole) {
                    (H2Res::Ok(a), H2Res::Ok(b)) => a == b && h2_state_text(&d2) == h2_state_text(&d1),
                    (H2Res::Err(_), H2Res::Err(_)) => true,
                    _ => false,
                };
                if !same {
                    println!("RULE VIOLATED: C11.split-invariance whole={} split={}", whole.class(), res.class());
                    return true;
                }
            }
            let n = vios.lock().unwrap().map.len();
            n > 0
        }
    }
}
