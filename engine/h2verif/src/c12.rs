//! C12 — frame codec: parse(serialize(f)) = f under any I/O chunking, within size limits (unstable API `h2::Codec`, X3 + X1).

use crate::c01::*;
use crate::common::*;
use crate::explore::*;
use crate::scen::*;
use crate::sim::*;
use bytes::Bytes;
use futures_core::Stream;
use h2::frame::{self, Frame, Pseudo, Reason, StreamId};
use h2::Codec;
use h2wire::frame as wf;
use h2wire::hpack as rh;
use http::{HeaderMap, HeaderName, HeaderValue, Method, StatusCode};
use serde_json::{json, Value};
use std::pin::Pin;
use std::sync::atomic::{AtomicU64, Ordering};
use std::task::{Context, Poll};

// ---------------------------------------------------------------------------------------------
// logical frames

#[derive(Clone, Debug)]
pub enum FSpec {
    Data { sid: u32, len: usize, eos: bool },
    Headers { sid: u32, big: usize, eos: bool, response: bool },
    PushPromise { sid: u32, promised: u32, big: usize },
    Settings { ack: bool, params: Vec<(u16, u32)> },
    Ping { ack: bool, payload: [u8; 8] },
    GoAway { last: u32, code: u32, debug: usize },
    WindowUpdate { sid: u32, inc: u32 },
    Reset { sid: u32, code: u32 },
}

fn payload_bytes(sid: u32, len: usize) -> Vec<u8> {
    (0..len).map(|i| (sid as usize * 31 + i * 7 + (i >> 8) * 3 + 1) as u8).collect()
}

fn header_fields(big: usize) -> Vec<(String, String)> {
    let mut v = vec![("x-a".to_string(), "1".to_string()), ("x-a".to_string(), "22".to_string())];
    if big > 0 {
        v.push(("x-big".to_string(), (0..big).map(|i| (b'a' + ((i * 7 + (i >> 6)) % 26) as u8) as char).collect()));
        v.push(("x-tail".to_string(), "t".to_string()));
    }
    v
}

fn header_map(big: usize) -> HeaderMap {
    let mut m = HeaderMap::new();
    for (n, v) in header_fields(big) {
        m.append(HeaderName::from_bytes(n.as_bytes()).unwrap(), HeaderValue::from_str(&v).unwrap());
    }
    m
}

fn to_h2(f: &FSpec) -> Frame<Bytes> {
    match f {
        FSpec::Data { sid, len, eos } => {
            let mut d = frame::Data::new(StreamId::from(*sid), Bytes::from(payload_bytes(*sid, *len)));
            d.set_end_stream(*eos);
            d.into()
        }
        FSpec::Headers { sid, big, eos, response } => {
            let pseudo = if *response { Pseudo::response(StatusCode::OK) } else { Pseudo::request(Method::POST, "https://h.example/p".parse().unwrap(), None) };
            let mut h = frame::Headers::new(StreamId::from(*sid), pseudo, header_map(*big));
            if *eos {
                h.set_end_stream();
            }
            h.into()
        }
        FSpec::PushPromise { sid, promised, big } => {
            frame::PushPromise::new(StreamId::from(*sid), StreamId::from(*promised), Pseudo::request(Method::GET, "https://h.example/pushed".parse().unwrap(), None), header_map(*big)).into()
        }
        FSpec::Settings { ack, params } => {
            if *ack {
                frame::Settings::ack().into()
            } else {
                let mut s = frame::Settings::default();
                for (k, v) in params {
                    match *k {
                        1 => s.set_header_table_size(Some(*v)),
                        2 => s.set_enable_push(*v != 0),
                        3 => s.set_max_concurrent_streams(Some(*v)),
                        4 => s.set_initial_window_size(Some(*v)),
                        5 => s.set_max_frame_size(Some(*v)),
                        6 => s.set_max_header_list_size(Some(*v)),
                        8 => s.set_enable_connect_protocol(Some(*v)),
                        _ => {}
                    }
                }
                s.into()
            }
        }
        FSpec::Ping { ack, payload } => {
            if *ack {
                frame::Ping::pong(*payload).into()
            } else {
                frame::Ping::new(*payload).into()
            }
        }
        FSpec::GoAway { last, code, debug } => frame::GoAway::with_debug_data(StreamId::from(*last), Reason::from(*code), Bytes::from(vec![b'd'; *debug])).into(),
        FSpec::WindowUpdate { sid, inc } => frame::WindowUpdate::new(StreamId::from(*sid), *inc).into(),
        FSpec::Reset { sid, code } => frame::Reset::new(StreamId::from(*sid), Reason::from(*code)).into(),
    }
}

/// What the spec must look like on the wire, as a canonical summary (independent of HPACK choices).
fn expected_summary(f: &FSpec) -> String {
    match f {
        FSpec::Data { sid, len, eos } => format!("DATA sid={} eos={} data={}", sid, eos, hex(&payload_bytes(*sid, *len)[..(*len).min(16)]) + &format!("..{}:{:x}", len, fnv64(&payload_bytes(*sid, *len)))),
        FSpec::Headers { sid, big, eos, response } => {
            let mut fields: Vec<(String, String)> =
                if *response { vec![(":status".into(), "200".into())] } else { vec![(":method".into(), "POST".into()), (":scheme".into(), "https".into()), (":authority".into(), "h.example".into()), (":path".into(), "/p".into())] };
            fields.extend(header_fields(*big));
            format!("HEADERS sid={} eos={} fields={}", sid, eos, fields_summary(&fields))
        }
        FSpec::PushPromise { sid, promised, big } => {
            let mut fields: Vec<(String, String)> = vec![(":method".into(), "GET".into()), (":scheme".into(), "https".into()), (":authority".into(), "h.example".into()), (":path".into(), "/pushed".into())];
            fields.extend(header_fields(*big));
            format!("PUSH_PROMISE sid={} promised={} fields={}", sid, promised, fields_summary(&fields))
        }
        FSpec::Settings { ack, params } => format!("SETTINGS ack={} {:?}", ack, params),
        FSpec::Ping { ack, payload } => format!("PING ack={} {}", ack, hex(payload)),
        FSpec::GoAway { last, code, debug } => format!("GOAWAY last={} code={} debug={}", last, code, debug),
        FSpec::WindowUpdate { sid, inc } => format!("WINDOW_UPDATE sid={} inc={}", sid, inc),
        FSpec::Reset { sid, code } => format!("RST_STREAM sid={} code={}", sid, code),
    }
}

fn fields_summary(f: &[(String, String)]) -> String {
    // pseudo first (sorted), regular fields in order
    let mut pseudo: Vec<&(String, String)> = f.iter().filter(|(n, _)| n.starts_with(':')).collect();
    pseudo.sort();
    let regular: Vec<&(String, String)> = f.iter().filter(|(n, _)| !n.starts_with(':')).collect();
    let s: Vec<String> = pseudo.into_iter().chain(regular).map(|(n, v)| if v.len() > 24 { format!("{}=#{}:{:x}", n, v.len(), fnv64(v.as_bytes())) } else { format!("{}={}", n, v) }).collect();
    s.join(",")
}

/// Canonical summary of frames found on the wire (header blocks reassembled and decoded with the reference decoder).
fn wire_summary(bytes: &[u8], dec: &mut rh::RefDecoder) -> Result<Vec<String>, String> {
    let (frames, rest) = wf::parse_all(bytes, false);
    if rest != 0 {
        return Err(format!("{} trailing octets do not form a frame", rest));
    }
    let mut out = vec![];
    let mut i = 0;
    while i < frames.len() {
        let f = &frames[i];
        let p = f.parse().map_err(|d| format!("frame {} ({}) malformed: {:?}", i, f.short(), d))?;
        match p {
            wf::Parsed::Data { sid, data, eos, .. } => out.push(format!("DATA sid={} eos={} data={}", sid, eos, hex(&data[..data.len().min(16)]) + &format!("..{}:{:x}", data.len(), fnv64(&data)))),
            wf::Parsed::Headers { sid, frag, eos, eh, .. } => {
                let (block, next) = gather(&frames, i, sid, frag, eh)?;
                i = next;
                let b = dec.decode_block(&block).map_err(|e| format!("header block does not decode: {:?}", e))?;
                let fields: Vec<(String, String)> = b.fields.iter().map(|(n, v)| (String::from_utf8_lossy(n).to_string(), String::from_utf8_lossy(v).to_string())).collect();
                out.push(format!("HEADERS sid={} eos={} fields={}", sid, eos, fields_summary(&fields)));
            }
            wf::Parsed::PushPromise { sid, promised, frag, eh, .. } => {
                let (block, next) = gather(&frames, i, sid, frag, eh)?;
                i = next;
                let b = dec.decode_block(&block).map_err(|e| format!("header block does not decode: {:?}", e))?;
                let fields: Vec<(String, String)> = b.fields.iter().map(|(n, v)| (String::from_utf8_lossy(n).to_string(), String::from_utf8_lossy(v).to_string())).collect();
                out.push(format!("PUSH_PROMISE sid={} promised={} fields={}", sid, promised, fields_summary(&fields)));
            }
            wf::Parsed::Settings { ack, params } => out.push(format!("SETTINGS ack={} {:?}", ack, params)),
            wf::Parsed::Ping { ack, payload } => out.push(format!("PING ack={} {}", ack, hex(&payload))),
            wf::Parsed::GoAway { last, code, debug } => out.push(format!("GOAWAY last={} code={} debug={}", last, code, debug.len())),
            wf::Parsed::WindowUpdate { sid, inc } => out.push(format!("WINDOW_UPDATE sid={} inc={}", sid, inc)),
            wf::Parsed::RstStream { sid, code } => out.push(format!("RST_STREAM sid={} code={}", sid, code)),
            wf::Parsed::Continuation { sid, .. } => return Err(format!("stray CONTINUATION on {}", sid)),
            wf::Parsed::Priority { sid, .. } => out.push(format!("PRIORITY sid={}", sid)),
            wf::Parsed::Unknown { ty, .. } => out.push(format!("UNKNOWN {}", ty)),
        }
        i += 1;
    }
    Ok(out)
}

fn gather(frames: &[wf::RawFrame], mut i: usize, sid: u32, frag: Vec<u8>, eh: bool) -> Result<(Vec<u8>, usize), String> {
    let mut block = frag;
    let mut done = eh;
    while !done {
        i += 1;
        match frames.get(i).map(|f| f.parse()) {
            Some(Ok(wf::Parsed::Continuation { sid: s, frag, eh })) if s == sid => {
                block.extend(frag);
                done = eh;
            }
            other => return Err(format!("header block on {} not continued properly: {:?}", sid, other.map(|r| r.map(|_| ())))),
        }
    }
    Ok((block, i))
}

// ---------------------------------------------------------------------------------------------
// write side

pub struct WriteCase {
    pub name: String,
    pub frames: Vec<FSpec>,
    pub max_send: usize,
    pub vectored: bool,
    pub pending: bool,
    /// the frames are pushed out by `Codec::shutdown` (final flush + transport shutdown) instead of `flush`
    pub via_shutdown: bool,
}

struct WriteRun {
    bytes: Vec<u8>,
    error: Option<String>,
    trace: Vec<Pt>,
    diverged: Option<String>,
    partial_writes: u64,
    calls: u64,
}

fn run_write(case: &WriteCase, prefix: &[u32]) -> WriteRun {
    let sh = new_shared(prefix.to_vec());
    {
        let mut s = sh.lock().unwrap();
        // every offset is a cut alternative for outputs up to 300 octets; beyond that the structural offsets of sim::cut_offsets
        s.policy[0] = IoPolicy { short_writes: true, pending: case.pending, vectored: case.vectored, dense_cut_limit: 300, ..IoPolicy::default() };
    }
    let flag = Flag::new(false);
    let w = waker_of(&flag);
    let mut cx = Context::from_waker(&w);
    let mut error = None;
    let r = std::panic::catch_unwind(std::panic::AssertUnwindSafe(|| {
        let mut codec: Codec<SimIo, Bytes> = Codec::new(SimIo { sh: sh.clone(), side: Side::Client });
        codec.set_max_send_frame_size(case.max_send);
        let mut spins = 0;
        let mut wait = |sh: &Sh, spins: &mut u32| {
            let ws: Vec<_> = sh.lock().unwrap().io_ready.drain(..).collect();
            for (_, _, w) in ws {
                w.wake();
            }
            *spins += 1;
            *spins < 10_000
        };
        for f in &case.frames {
            loop {
                match codec.poll_ready(&mut cx) {
                    Poll::Ready(Ok(())) => break,
                    Poll::Ready(Err(e)) => return Some(format!("poll_ready: {}", e)),
                    Poll::Pending => {
                        if !wait(&sh, &mut spins) {
                            return Some("poll_ready never became ready".into());
                        }
                    }
                }
            }
            if let Err(e) = codec.buffer(to_h2(f)) {
                return Some(format!("buffer: {:?}", e));
            }
        }
        loop {
            let r = if case.via_shutdown { codec.shutdown(&mut cx) } else { codec.flush(&mut cx) };
            match r {
                Poll::Ready(Ok(())) => break,
                Poll::Ready(Err(e)) => return Some(format!("flush: {}", e)),
                Poll::Pending => {
                    if !wait(&sh, &mut spins) {
                        return Some("flush never completed".into());
                    }
                }
            }
        }
        None
    }));
    match r {
        Ok(e) => error = e,
        Err(p) => error = Some(format!("panic: {}", crate::c11::panic_text(&p))),
    }
    let s = sh.lock().unwrap();
    let mut bytes = vec![];
    let mut shut = false;
    for e in &s.iolog {
        match &e.kind {
            IoEvKind::Write(b) => {
                if shut && error.is_none() {
                    error = Some("bytes written after the transport was shut down".into());
                }
                bytes.extend_from_slice(b);
            }
            IoEvKind::Shutdown => shut = true,
            _ => {}
        }
    }
    if case.via_shutdown && !shut && error.is_none() {
        error = Some("shutdown completed without shutting the transport down".into());
    }
    WriteRun { bytes, error, trace: s.chooser.trace.clone(), diverged: s.chooser.diverged.clone(), partial_writes: s.partial_writes, calls: s.transport_calls }
}

struct WriteHarness<'a> {
    case: &'a WriteCase,
    index: usize,
    baseline: Vec<u8>,
}

impl<'a> Harness for WriteHarness<'a> {
    fn run(&self, prefix: &[u32], _seen: &Seen) -> ExecResult {
        let r = run_write(self.case, prefix);
        let choices: Vec<u32> = r.trace.iter().map(|p| p.c).collect();
        let mut vs = vec![];
        let rep = json!({"harness": "c12.write", "case": self.index, "name": self.case.name, "choices": choices});
        if let Some(e) = &r.error {
            vs.push(Violation { rule: "C12.write-fails".into(), signature: e.split(':').next().unwrap_or("").to_string(), what: format!("{}: {}", self.case.name, e), replay: rep.clone() });
        } else if r.bytes != self.baseline {
            let p = (0..r.bytes.len().min(self.baseline.len())).find(|&i| r.bytes[i] != self.baseline[i]).unwrap_or(r.bytes.len().min(self.baseline.len()));
            vs.push(Violation {
                rule: "C12.chunking-changes-bytes".into(),
                signature: if r.bytes.len() != self.baseline.len() { "length".into() } else { "content".into() },
                what: format!("{}: with this chunking {} octets were written, {} with whole writes; first difference at offset {}", self.case.name, r.bytes.len(), self.baseline.len(), p),
                replay: rep,
            });
        }
        ExecResult { trace: r.trace, violations: vs, obs_hash: fnv64(&r.bytes), counters: vec![("partial_writes", r.partial_writes)], diverged: r.diverged, transitions: r.calls, nontrivial: r.partial_writes > 0 }
    }
}

pub fn write_cases(quick: bool) -> Vec<WriteCase> {
    let mut v = vec![];
    let mk = |name: &str, frames: Vec<FSpec>, max_send: usize, vectored: bool, pending: bool| WriteCase { name: name.to_string(), frames, max_send, vectored, pending, via_shutdown: name.contains("shutdown") };
    // short outputs (<= 17 octets): every chunking
    v.push(mk("settings-ack", vec![FSpec::Settings { ack: true, params: vec![] }], 16384, false, false));
    v.push(mk("rst", vec![FSpec::Reset { sid: 3, code: 8 }], 16384, false, false));
    v.push(mk("window-update", vec![FSpec::WindowUpdate { sid: 0, inc: 0x7fff_ffff }], 16384, false, false));
    v.push(mk("settings-1", vec![FSpec::Settings { ack: false, params: vec![(4, 65536)] }], 16384, false, false));
    v.push(mk("ping", vec![FSpec::Ping { ack: false, payload: [1, 2, 3, 4, 5, 6, 7, 8] }], 16384, false, false));
    v.push(mk("goaway", vec![FSpec::GoAway { last: 5, code: 2, debug: 0 }], 16384, false, false));
    // longer: deviation-bounded at structural offsets, with Pending
    for &vectored in &[false, true] {
        let t = if vectored { "vec" } else { "plain" };
        for len in [0usize, 1, 255, 256, 257, 1023, 1024, 1025, 16383, 16384] {
            if quick && !(len == 0 || len == 255 || len == 256 || len == 1024 || len == 1025 || len == 16384) {
                continue;
            }
            v.push(mk(&format!("data-{}-{}", len, t), vec![FSpec::Data { sid: 1, len, eos: true }], 16384, vectored, true));
        }
        v.push(mk(
            &format!("mix-settings-headers-data-{}", t),
            vec![FSpec::Settings { ack: false, params: vec![(3, 100), (4, 7)] }, FSpec::Headers { sid: 1, big: 0, eos: false, response: false }, FSpec::Data { sid: 1, len: 300, eos: false }, FSpec::Data { sid: 1, len: 1100, eos: true }],
            16384,
            vectored,
            true,
        ));
        v.push(mk(&format!("big-headers-{}", t), vec![FSpec::Headers { sid: 1, big: 40_000, eos: true, response: false }, FSpec::Data { sid: 3, len: 10, eos: false }], 16384, vectored, true));
        v.push(mk(
            &format!("data-after-data-{}", t),
            vec![FSpec::Data { sid: 1, len: 1024, eos: false }, FSpec::Data { sid: 3, len: 5, eos: false }, FSpec::Ping { ack: true, payload: [9; 8] }, FSpec::Data { sid: 1, len: 2000, eos: true }],
            16384,
            vectored,
            true,
        ));
    }
    v.push(mk("push-promise-big", vec![FSpec::PushPromise { sid: 1, promised: 2, big: 30_000 }, FSpec::Headers { sid: 2, big: 0, eos: false, response: true }], 16384, false, true));
    v.push(mk("frame-16385", vec![FSpec::Headers { sid: 1, big: 40_000, eos: false, response: true }, FSpec::Data { sid: 1, len: 16385, eos: true }], 16385, false, true));
    v.push(mk("goaway-shutdown", vec![FSpec::GoAway { last: 5, code: 0, debug: 0 }], 16384, false, true));
    v.push(mk("data-then-goaway-shutdown", vec![FSpec::Data { sid: 1, len: 2000, eos: true }, FSpec::Reset { sid: 3, code: 8 }, FSpec::GoAway { last: 5, code: 2, debug: 17 }], 16384, false, true));
    v.push(mk("goaway-debug-300", vec![FSpec::GoAway { last: 0x7fff_ffff, code: 0xdead_beef, debug: 300 }, FSpec::Reset { sid: 1, code: 0 }], 16384, false, true));
    if !quick {
        v.push(mk("frame-max", vec![FSpec::Data { sid: 1, len: 70_000, eos: true }, FSpec::Headers { sid: 3, big: 70_000, eos: true, response: true }], 16_777_215, false, true));
    }
    v
}

/// The default (whole-write) output judged against the reference: summaries equal, sizes within the limit.
fn judge_baseline(case: &WriteCase, bytes: &[u8]) -> Vec<(String, String, String)> {
    let mut v = vec![];
    let mut dec = rh::RefDecoder::new(4096);
    match wire_summary(bytes, &mut dec) {
        Ok(sum) => {
            let want: Vec<String> = case.frames.iter().map(expected_summary).collect();
            if sum != want {
                let i = (0..sum.len().min(want.len())).find(|&i| sum[i] != want[i]).unwrap_or(sum.len().min(want.len()));
                v.push(("C12.serialize-parse-mismatch".into(), want.get(i).map(|s| s.split(' ').next().unwrap_or("").to_string()).unwrap_or_default(), format!("{}: frame {}: independent parser reads {:?}, submitted {:?}", case.name, i, sum.get(i), want.get(i))));
            }
        }
        Err(e) => v.push(("C12.serialize-unparseable".into(), e.split(' ').take(3).collect::<Vec<_>>().join(" "), format!("{}: {}", case.name, e))),
    }
    let (frames, _) = wf::parse_all(bytes, false);
    for f in frames {
        if f.payload.len() > case.max_send {
            v.push(("C12.frame-over-peer-limit".into(), wf::type_name(f.ty).into(), format!("{}: {} payload of {} octets, peer limit {}", case.name, wf::type_name(f.ty), f.payload.len(), case.max_send)));
        }
    }
    v
}

// ---------------------------------------------------------------------------------------------
// read side

pub struct ReadCase {
    pub name: String,
    pub wire: Vec<u8>,
    pub expect: Vec<String>,
    pub max_recv: usize,
}

fn h2_frame_summary(f: Frame) -> String {
    let fields_of = |pseudo: Pseudo, map: HeaderMap| -> Vec<(String, String)> {
        let mut v: Vec<(String, String)> = vec![];
        if let Some(m) = pseudo.method {
            v.push((":method".into(), m.to_string()));
        }
        if let Some(s) = pseudo.scheme {
            v.push((":scheme".into(), s.to_string()));
        }
        if let Some(s) = pseudo.authority {
            v.push((":authority".into(), s.to_string()));
        }
        if let Some(s) = pseudo.path {
            v.push((":path".into(), s.to_string()));
        }
        if let Some(s) = pseudo.status {
            v.push((":status".into(), s.as_u16().to_string()));
        }
        for (n, val) in map.iter() {
            v.push((n.as_str().to_string(), String::from_utf8_lossy(val.as_bytes()).to_string()));
        }
        v
    };
    match f {
        Frame::Data(d) => {
            let p = d.payload().clone();
            format!("DATA sid={} eos={} data={}", u32::from(d.stream_id()), d.is_end_stream(), hex(&p[..p.len().min(16)]) + &format!("..{}:{:x}", p.len(), fnv64(&p)))
        }
        Frame::Headers(h) => {
            let sid = u32::from(h.stream_id());
            let eos = h.is_end_stream();
            let (p, m) = h.into_parts();
            format!("HEADERS sid={} eos={} fields={}", sid, eos, fields_summary(&fields_of(p, m)))
        }
        Frame::PushPromise(p) => {
            let sid = u32::from(p.stream_id());
            let promised = u32::from(p.promised_id());
            let (ps, m) = p.into_parts();
            format!("PUSH_PROMISE sid={} promised={} fields={}", sid, promised, fields_summary(&fields_of(ps, m)))
        }
        Frame::Settings(s) => {
            let mut params: Vec<(u16, u32)> = vec![];
            if let Some(v) = s.header_table_size() {
                params.push((1, v));
            }
            if let Some(v) = s.is_push_enabled() {
                params.push((2, v as u32));
            }
            if let Some(v) = s.max_concurrent_streams() {
                params.push((3, v));
            }
            if let Some(v) = s.initial_window_size() {
                params.push((4, v));
            }
            if let Some(v) = s.max_frame_size() {
                params.push((5, v));
            }
            if let Some(v) = s.max_header_list_size() {
                params.push((6, v));
            }
            if let Some(v) = s.is_extended_connect_protocol_enabled() {
                params.push((8, v as u32));
            }
            format!("SETTINGS ack={} {:?}", s.is_ack(), params)
        }
        Frame::Ping(p) => format!("PING ack={} {}", p.is_ack(), hex(p.payload())),
        Frame::GoAway(g) => format!("GOAWAY last={} code={} debug={}", u32::from(g.last_stream_id()), u32::from(g.reason()), g.debug_data().len()),
        Frame::WindowUpdate(w) => format!("WINDOW_UPDATE sid={} inc={}", u32::from(w.stream_id()), w.size_increment()),
        Frame::Reset(r) => format!("RST_STREAM sid={} code={}", u32::from(r.stream_id()), u32::from(r.reason())),
        Frame::Priority(p) => {
            let d = format!("{:?}", p);
            let num = |key: &str| -> String { d.find(key).map(|i| d[i + key.len()..].chars().take_while(|c| c.is_ascii_alphanumeric()).collect()).unwrap_or_default() };
            format!("PRIORITY sid={} dep={} weight={} excl={}", num("stream_id: StreamId("), num("dependency_id: StreamId("), num("weight: "), num("is_exclusive: "))
        }
    }
}

struct ReadRun {
    got: Vec<String>,
    trace: Vec<Pt>,
    diverged: Option<String>,
    partial_reads: u64,
    calls: u64,
    read_before_error: u64,
}

fn run_read(case: &ReadCase, prefix: &[u32]) -> ReadRun {
    let sh = new_shared(prefix.to_vec());
    {
        let mut s = sh.lock().unwrap();
        s.policy[1] = IoPolicy { short_reads: true, pending: true, dense_cut_limit: 300, ..IoPolicy::default() };
        s.inject(Side::Client, &case.wire);
    }
    let flag = Flag::new(false);
    let w = waker_of(&flag);
    let mut cx = Context::from_waker(&w);
    let mut got = vec![];
    let r = std::panic::catch_unwind(std::panic::AssertUnwindSafe(|| {
        let mut codec: Codec<SimIo, Bytes> = Codec::with_max_recv_frame_size(SimIo { sh: sh.clone(), side: Side::Server }, case.max_recv);
        let mut out = vec![];
        let mut spins = 0;
        loop {
            match Pin::new(&mut codec).poll_next(&mut cx) {
                Poll::Ready(Some(Ok(f))) => out.push(h2_frame_summary(f)),
                Poll::Ready(Some(Err(e))) => {
                    out.push(format!("ERROR {:?}", e));
                    break;
                }
                Poll::Ready(None) => {
                    out.push("EOF".into());
                    break;
                }
                Poll::Pending => {
                    let ws: Vec<_> = sh.lock().unwrap().io_ready.drain(..).collect();
                    if ws.is_empty() {
                        break; // waiting for bytes that will not come: end of input
                    }
                    for (_, _, w) in ws {
                        w.wake();
                    }
                    spins += 1;
                    if spins > 100_000 {
                        out.push("SPIN".into());
                        break;
                    }
                }
            }
        }
        out
    }));
    match r {
        Ok(o) => got = o,
        Err(p) => got.push(format!("PANIC {}", crate::c11::panic_text(&p))),
    }
    let s = sh.lock().unwrap();
    ReadRun { got, trace: s.chooser.trace.clone(), diverged: s.chooser.diverged.clone(), partial_reads: s.partial_reads, calls: s.transport_calls, read_before_error: s.pipes[0].total_read }
}

struct ReadHarness<'a> {
    case: &'a ReadCase,
    index: usize,
    baseline: Vec<String>,
}

impl<'a> Harness for ReadHarness<'a> {
    fn run(&self, prefix: &[u32], _seen: &Seen) -> ExecResult {
        let r = run_read(self.case, prefix);
        let choices: Vec<u32> = r.trace.iter().map(|p| p.c).collect();
        let mut vs = vec![];
        if r.got != self.baseline {
            let i = (0..r.got.len().min(self.baseline.len())).find(|&i| r.got[i] != self.baseline[i]).unwrap_or(r.got.len().min(self.baseline.len()));
            vs.push(Violation {
                rule: "C12.read-chunking-changes-result".into(),
                signature: self.baseline.get(i).map(|s| s.split(' ').next().unwrap_or("").to_string()).unwrap_or("extra".into()),
                what: format!("{}: item {}: {:?} with this read chunking, {:?} when read whole", self.case.name, i, r.got.get(i), self.baseline.get(i)),
                replay: json!({"harness": "c12.read", "case": self.index, "name": self.case.name, "choices": choices}),
            });
        }
        ExecResult { trace: r.trace, violations: vs, obs_hash: fnv64(r.got.join("|").as_bytes()), counters: vec![("partial_reads", r.partial_reads)], diverged: r.diverged, transitions: r.calls, nontrivial: r.partial_reads > 0 }
    }
}

pub fn read_cases() -> Vec<ReadCase> {
    let mut v = vec![];
    let block_small = rh::encode_block(&[(b":method", b"GET"), (b":scheme", b"https"), (b":path", b"/x"), (b"x-a", b"1"), (b"x-a", b"22")], true, false);
    let small_sum = "fields=:method=GET,:path=/x,:scheme=https,x-a=1,x-a=22";
    let cat = |frames: &[wf::RawFrame]| -> Vec<u8> { frames.iter().flat_map(|f| f.encode()).collect() };
    let d5 = payload_bytes(1, 5);
    let dsum = |sid: u32, len: usize| format!("data={}", hex(&payload_bytes(sid, len)[..len.min(16)]) + &format!("..{}:{:x}", len, fnv64(&payload_bytes(sid, len))));
    v.push(ReadCase {
        name: "all-types".into(),
        wire: cat(&[
            wf::settings(&[(1, 100), (2, 0), (3, 7), (4, 5), (5, 16385), (6, 9), (0x77, 5)]),
            wf::settings_ack(),
            wf::headers(1, &block_small, false, true),
            wf::data(1, &d5, false),
            wf::data_padded(1, &d5, 7, true),
            wf::priority(3, true, 1, 200),
            wf::rst_stream(3, 0xffff_fffe),
            wf::ping([7; 8], false),
            wf::ping([8; 8], true),
            wf::window_update(0, 1),
            wf::window_update(1, 0x7fff_ffff),
            wf::RawFrame::new(0xbb, 0xff, 9, vec![1, 2, 3]),
            wf::goaway(1, 11, b"bye"),
        ]),
        expect: vec![
            "SETTINGS ack=false [(1, 100), (2, 0), (3, 7), (4, 5), (5, 16385), (6, 9)]".into(),
            "SETTINGS ack=true []".into(),
            format!("HEADERS sid=1 eos=false {}", small_sum),
            format!("DATA sid=1 eos=false {}", dsum(1, 5)),
            format!("DATA sid=1 eos=true {}", dsum(1, 5)),
            "PRIORITY sid=3 dep=1 weight=200 excl=true".into(),
            format!("RST_STREAM sid=3 code={}", 0xffff_fffeu32),
            "PING ack=false 0707070707070707".into(),
            "PING ack=true 0808080808080808".into(),
            "WINDOW_UPDATE sid=0 inc=1".into(),
            format!("WINDOW_UPDATE sid=1 inc={}", 0x7fff_ffff),
            "GOAWAY last=1 code=11 debug=3".into(),
        ],
        max_recv: 16384,
    });
    // header block split over CONTINUATION frames (including an empty one), padded, with priority, unknown flags set
    let (a, b) = block_small.split_at(7);
    let (b1, b2) = b.split_at(3);
    v.push(ReadCase {
        name: "continuations".into(),
        wire: cat(&[
            wf::headers_full(1, a, true, false, Some(3), Some((false, 0, 15))),
            wf::continuation(1, b1, false),
            wf::continuation(1, &[], false),
            wf::continuation(1, b2, true),
            wf::push_promise(1, 2, a, false),
            wf::continuation(1, b, true),
            wf::RawFrame::new(wf::ty::DATA, 0x1 | 0x2 | 0x4 | 0x10, 1, d5.clone()),
        ]),
        expect: vec![format!("HEADERS sid=1 eos=true {}", small_sum), format!("PUSH_PROMISE sid=1 promised=2 {}", small_sum), format!("DATA sid=1 eos=true {}", dsum(1, 5))],
        max_recv: 16384,
    });
    // Pad Length 0 (legal: the Pad Length octet alone), 1 and 255, for DATA and HEADERS
    v.push(ReadCase {
        name: "pad-lengths".into(),
        wire: cat(&[
            wf::headers_full(1, &block_small, false, true, Some(0), None),
            wf::data_padded(1, &d5, 0, false),
            wf::data_padded(1, &d5, 1, false),
            wf::data_padded(1, &d5, 255, false),
            wf::data_padded(1, &[], 0, true),
        ]),
        expect: vec![format!("HEADERS sid=1 eos=false {}", small_sum), format!("DATA sid=1 eos=false {}", dsum(1, 5)), format!("DATA sid=1 eos=false {}", dsum(1, 5)), format!("DATA sid=1 eos=false {}", dsum(1, 5)), format!("DATA sid=1 eos=true {}", dsum(1, 0))],
        max_recv: 16384,
    });
    // padded PUSH_PROMISE: Pad Length 0 and 3 (Pad Length octet, promised stream id, block, padding)
    {
        let pp = |pad: u8| -> wf::RawFrame {
            let mut p = vec![pad];
            p.extend_from_slice(&2u32.to_be_bytes());
            p.extend_from_slice(&block_small);
            p.extend(std::iter::repeat(0u8).take(pad as usize));
            wf::RawFrame::new(wf::ty::PUSH_PROMISE, wf::flag::PADDED | wf::flag::END_HEADERS, 1, p)
        };
        v.push(ReadCase { name: "padded-push-promise".into(), wire: cat(&[pp(0), pp(3)]), expect: vec![format!("PUSH_PROMISE sid=1 promised=2 {}", small_sum), format!("PUSH_PROMISE sid=1 promised=2 {}", small_sum)], max_recv: 16384 });
    }
    v.push(ReadCase {
        name: "max-size-data".into(),
        wire: cat(&[wf::data(1, &payload_bytes(1, 16384), false), wf::data(1, &[], true)]),
        expect: vec![format!("DATA sid=1 eos=false {}", dsum(1, 16384)), format!("DATA sid=1 eos=true {}", dsum(1, 0))],
        max_recv: 16384,
    });
    v.push(ReadCase {
        name: "empty-settings-then-ping".into(),
        wire: cat(&[wf::settings(&[]), wf::ping([0; 8], false)]),
        expect: vec!["SETTINGS ack=false []".into(), "PING ack=false 0000000000000000".into()],
        max_recv: 16384,
    });
    v
}

/// X3: a header block cut into HEADERS + CONTINUATION + CONTINUATION at every pair of offsets (empty fragments and cuts on
/// field boundaries included), and into PUSH_PROMISE + CONTINUATION at every offset, for three encodings of the same list:
/// every cutting must parse to the same header list as the unsplit block.
pub fn split_case(enc: usize, push: bool, i: usize, j: usize) -> ReadCase {
    let fields: [(&[u8], &[u8]); 6] = [(b":method", b"GET"), (b":scheme", b"https"), (b":path", b"/x"), (b"accept-encoding", b"gzip, deflate"), (b"x-a", b"1"), (b"x-a", b"22")];
    let sum = "fields=:method=GET,:path=/x,:scheme=https,accept-encoding=gzip, deflate,x-a=1,x-a=22";
    let block = match enc {
        0 => rh::encode_block(&fields, false, false),
        1 => rh::encode_block(&fields, true, false),
        _ => rh::encode_block(&fields, false, true),
    };
    let i = i.min(block.len());
    let j = j.clamp(i, block.len());
    let cat = |frames: &[wf::RawFrame]| -> Vec<u8> { frames.iter().flat_map(|f| f.encode()).collect() };
    if push {
        ReadCase { name: format!("split-push-enc{}-{}", enc, i), wire: cat(&[wf::push_promise(1, 2, &block[..i], false), wf::continuation(1, &block[i..], true)]), expect: vec![format!("PUSH_PROMISE sid=1 promised=2 {}", sum)], max_recv: 16384 }
    } else {
        ReadCase {
            name: format!("split-headers-enc{}-{}-{}", enc, i, j),
            wire: cat(&[wf::headers(1, &block[..i], true, false), wf::continuation(1, &block[i..j], false), wf::continuation(1, &block[j..], true)]),
            expect: vec![format!("HEADERS sid=1 eos=true {}", sum)],
            max_recv: 16384,
        }
    }
}

fn split_block_len(enc: usize) -> usize {
    // (the cut positions of a case are clamped to the block: ask for the far end)
    let c = split_case(enc, true, usize::MAX, usize::MAX);
    c.wire.len() - 9 - 4 - 9
}

fn split_sweep(vios: &mut VioSet, cases: &AtomicU64) {
    let mut todo: Vec<(usize, bool, usize, usize)> = vec![];
    for enc in 0..3 {
        let n = split_block_len(enc);
        for i in 0..=n {
            todo.push((enc, true, i, i));
            for j in i..=n {
                todo.push((enc, false, i, j));
            }
        }
    }
    let found: std::sync::Mutex<Vec<Violation>> = std::sync::Mutex::new(vec![]);
    par_for(todo.len(), |k| {
        let (enc, push, i, j) = todo[k];
        let case = split_case(enc, push, i, j);
        cases.fetch_add(1, Ordering::Relaxed);
        let r = std::panic::catch_unwind(|| run_read(&case, &[]).got);
        let got = match r {
            Ok(g) => g,
            Err(p) => vec![format!("PANIC {}", crate::c11::panic_text(&p))],
        };
        if got != case.expect {
            found.lock().unwrap().push(Violation {
                rule: "C12.parse-mismatch".into(),
                signature: format!("split:{}:{}", if push { "PUSH_PROMISE" } else { "HEADERS" }, if got.iter().any(|g| g.starts_with("PANIC")) { "panic" } else { "differs" }),
                what: format!("{}: h2 parsed {:?}, the unsplit block reads {:?}", case.name, got, case.expect),
                replay: json!({"harness": "c12.split", "enc": enc, "push": push, "i": i, "j": j}),
            });
        }
    });
    let mut found = found.into_inner().unwrap();
    found.sort_by(|a, b| a.what.cmp(&b.what));
    for v in found {
        vios.add(v);
    }
}

// ---------------------------------------------------------------------------------------------
// oversize frames are rejected as soon as the head is in

fn oversize_check(vios: &mut VioSet, cases: &AtomicU64) {
    for max in [16384usize, 16385, 20000] {
        for over in [0usize, 1, 5000] {
            for ty in [wf::ty::DATA, wf::ty::HEADERS, wf::ty::SETTINGS, 0x55] {
                let len = max + over;
                // only the nine octets of the head are ever delivered
                let mut f = wf::RawFrame::new(ty, 0, if ty == wf::ty::SETTINGS { 0 } else { 1 }, vec![]);
                f.declared_len = Some(len as u32);
                let head = f.encode();
                for split in 0..9usize {
                    cases.fetch_add(1, Ordering::Relaxed);
                    let case = ReadCase { name: format!("oversize max={} len={} type={}", max, len, ty), wire: head.clone(), expect: vec![], max_recv: max };
                    // feed in two pieces: run_read with a prefix choosing the cut `split` (0 = whole)
                    let sh_prefix: Vec<u32> = if split == 0 { vec![] } else { vec![split as u32] };
                    let r = run_read(&case, &sh_prefix);
                    let rejected = r.got.iter().any(|g| g.starts_with("ERROR") && g.contains("FRAME_SIZE_ERROR"));
                    let replay = json!({"harness": "c12.oversize", "case": {"max": max, "len": len, "type": ty, "split": split}});
                    if over > 0 && !rejected {
                        vios.add(Violation { rule: "C12.oversize-not-rejected-at-head".into(), signature: format!("type={}", ty), what: format!("frame head announcing {} octets (limit {}) did not yield FRAME_SIZE_ERROR after its nine octets: {:?}", len, max, r.got), replay });
                    } else if over == 0 && r.got.iter().any(|g| g.starts_with("ERROR")) {
                        vios.add(Violation { rule: "C12.max-size-rejected".into(), signature: format!("type={}", ty), what: format!("frame head announcing exactly the limit ({}) was rejected: {:?}", max, r.got), replay });
                    }
                }
            }
        }
    }
}

// ---------------------------------------------------------------------------------------------
// connection-level: no frame of either endpoint exceeds the peer's acknowledged SETTINGS_MAX_FRAME_SIZE

fn judge_c12_t1(_h: &T1Harness, t: &mut T1, _end: RunEnd) -> Vec<(String, String, String)> {
    let mut v = vec![];
    // limit[x] = what x may send = peer's MAX_FRAME_SIZE as acknowledged by x so far
    let mut limit = [16384usize, 16384];
    let mut pending: [std::collections::VecDeque<Vec<(u16, u32)>>; 2] = [Default::default(), Default::default()];
    for f in &t.mon.frames {
        let x = f.sender.idx();
        let o = f.sender.other().idx();
        if f.raw.payload.len() > limit[x] {
            v.push(("C12.frame-over-peer-limit".into(), format!("{}:{}", f.sender.name(), wf::type_name(f.raw.ty)), format!("{} sent {} with {} octets of payload, the peer's acknowledged limit is {}", f.sender.name(), wf::type_name(f.raw.ty), f.raw.payload.len(), limit[x])));
        }
        if let Ok(wf::Parsed::Settings { ack, params }) = &f.parsed {
            if *ack {
                if let Some(p) = pending[o].pop_front() {
                    for (k, val) in p {
                        if k == wf::setting::MAX_FRAME_SIZE {
                            limit[x] = val as usize;
                        }
                    }
                }
            } else {
                pending[x].push_back(params.clone());
            }
        }
    }
    for (side, d) in &t.mon.wire_defects {
        v.push(("C12.wire".into(), d.split(|c: char| c.is_ascii_digit()).next().unwrap_or("").trim().to_string(), format!("{} output: {}", side.name(), d)));
    }
    v
}

fn t1_scenarios() -> Vec<Scenario> {
    let m = |c: &[usize]| MsgSpec::simple(c);
    vec![
        Scenario { name: "frame16385-both".into(), cfg: Cfg { c_max_frame: Some(16385), s_max_frame: Some(16385), ..Cfg::default() }, streams: vec![StreamSpec::new(m(&[16386]), m(&[16385]))] },
        Scenario { name: "frame16385-server-only".into(), cfg: Cfg { s_max_frame: Some(16385), ..Cfg::default() }, streams: vec![StreamSpec::new(m(&[33000]), m(&[33000]))] },
        Scenario {
            name: "big-headers-default-limit".into(),
            cfg: Cfg { c_max_frame: Some(20000), ..Cfg::default() },
            streams: vec![StreamSpec::new(MsgSpec { head: HeadKind::Big40k, ..m(&[3]) }, MsgSpec { head: HeadKind::Big40k, ..m(&[3]) })],
        },
    ]
}

// ---------------------------------------------------------------------------------------------

pub fn run(ctx: &Ctx) -> Outcome {
    let mut out = Outcome::default();
    let quick = ctx.tier.is_quick();
    let mut total = Agg::default();
    let mut per = vec![];
    let mut all_complete = true;
    let budget = ctx.tier.budget_s();
    // write side
    let wcases = write_cases(quick);
    for (i, case) in wcases.iter().enumerate() {
        let base = run_write(case, &[]);
        let mut extra: Vec<Violation> = vec![];
        if let Some(e) = &base.error {
            extra.push(Violation { rule: "C12.write-fails".into(), signature: "baseline".into(), what: format!("{}: {}", case.name, e), replay: json!({"harness": "c12.write", "case": i, "name": case.name, "choices": []}) });
        }
        for (rule, sig, what) in judge_baseline(case, &base.bytes) {
            extra.push(Violation { rule, signature: sig, what, replay: json!({"harness": "c12.write", "case": i, "name": case.name, "choices": []}) });
        }
        let short = base.bytes.len() <= 17;
        // short outputs: every chunking (the deviation bound exceeds the number of octets); longer: <= 2 (quick) / 3 (thorough) deviations
        let max_dev = if short && !case.pending { 32 } else if short { 4 } else if quick { 3 } else { 4 };
        let max_dev = if case.via_shutdown && base.bytes.len() <= 17 { 3 } else { max_dev };
        let share = ((budget * 0.45 - ctx.elapsed()).max(1.0)) / (wcases.len() - i) as f64;
        let h = WriteHarness { case, index: i, baseline: base.bytes.clone() };
        // quick: work-bounded (a level of at most 400k codec runs is started), machine-independent
        let cfg = if quick { ExploreCfg::work_bounded(max_dev, std::time::Instant::now() + std::time::Duration::from_secs_f64(ctx.remaining().max(1.0)), false, 400_000) } else { ExploreCfg::new(max_dev, std::time::Instant::now() + std::time::Duration::from_secs_f64(share), false) };
        let rep = explore(&h, &cfg);
        let complete = rep.partial_level.is_none() && (rep.completed_level == Some(max_dev));
        if !complete {
            all_complete = false;
        }
        eprintln!("[C12] write {:<32} bytes={} execs={:?} completed={:?} partial={:?} vios={}", case.name, base.bytes.len(), rep.execs_per_level, rep.completed_level, rep.partial_level, rep.agg.vios.map.len() + extra.len());
        per.push(json!({"case": case.name, "side": "write", "bytes": base.bytes.len(), "all_chunkings": short, "execs_per_level": rep.execs_per_level, "completed_deviation_bound": rep.completed_level, "partial_level": rep.partial_level}));
        if i == 0 {
            if let Some(s) = &rep.agg.sample_dev {
                out.add_sample(json!({"harness": "c12.write", "case": i, "name": case.name, "choices": s}));
            }
        }
        if !rep.agg.diverged.is_empty() {
            out.machinery_errors.push(format!("replay diverged in write case {}: {:?}", case.name, rep.agg.diverged));
        }
        total.merge(rep.agg);
        for e in extra {
            total.vios.add(e);
        }
    }
    // read side
    let rcases = read_cases();
    for (i, case) in rcases.iter().enumerate() {
        let base = run_read(case, &[]);
        let mut extra: Vec<Violation> = vec![];
        if base.got != case.expect {
            let k = (0..base.got.len().min(case.expect.len())).find(|&k| base.got[k] != case.expect[k]).unwrap_or(base.got.len().min(case.expect.len()));
            extra.push(Violation {
                rule: "C12.parse-mismatch".into(),
                signature: case.expect.get(k).map(|s| s.split(' ').next().unwrap_or("").to_string()).unwrap_or("extra".into()),
                what: format!("{}: item {}: h2 parsed {:?}, RFC 9113 reading is {:?}", case.name, k, base.got.get(k), case.expect.get(k)),
                replay: json!({"harness": "c12.read", "case": i, "name": case.name, "choices": []}),
            });
        }
        let max_dev = if quick { 3 } else { 4 };
        let share = ((budget * 0.75 - ctx.elapsed()).max(1.0)) / (rcases.len() - i) as f64;
        let h = ReadHarness { case, index: i, baseline: base.got.clone() };
        let cfg = if quick { ExploreCfg::work_bounded(max_dev, std::time::Instant::now() + std::time::Duration::from_secs_f64(ctx.remaining().max(1.0)), false, 250_000) } else { ExploreCfg::new(max_dev, std::time::Instant::now() + std::time::Duration::from_secs_f64(share), false) };
        let rep = explore(&h, &cfg);
        if rep.partial_level.is_some() || rep.completed_level != Some(max_dev) {
            all_complete = false;
        }
        eprintln!("[C12] read  {:<32} bytes={} execs={:?} completed={:?} partial={:?} vios={}", case.name, case.wire.len(), rep.execs_per_level, rep.completed_level, rep.partial_level, rep.agg.vios.map.len() + extra.len());
        per.push(json!({"case": case.name, "side": "read", "bytes": case.wire.len(), "execs_per_level": rep.execs_per_level, "completed_deviation_bound": rep.completed_level, "partial_level": rep.partial_level}));
        if i == 0 {
            if let Some(s) = &rep.agg.sample_dev {
                out.add_sample(json!({"harness": "c12.read", "case": i, "name": case.name, "choices": s}));
            }
        }
        total.merge(rep.agg);
        for e in extra {
            total.vios.add(e);
        }
    }
    let oversize_cases = AtomicU64::new(0);
    oversize_check(&mut total.vios, &oversize_cases);
    out.harness("codec-cases", json!(per));
    out.harness("oversize-heads", json!({"cases": oversize_cases.load(Ordering::Relaxed)}));
    let split_cases = AtomicU64::new(0);
    split_sweep(&mut total.vios, &split_cases);
    out.harness("header-block-split-sweep", json!({"cases": split_cases.load(Ordering::Relaxed), "rule": "HEADERS + CONTINUATION + CONTINUATION at every pair of offsets, PUSH_PROMISE + CONTINUATION at every offset, three HPACK encodings"}));
    out.add_count("evaluations", split_cases.load(Ordering::Relaxed));
    out.add_count("traces_validated_against_impl", split_cases.load(Ordering::Relaxed));
    // connection level
    let scs = t1_scenarios();
    let t1 = run_t1_property(ctx, "C12", &scs, judge_c12_t1, if quick { 1 } else { 2 }, full_policy(), &[]);
    let t1_execs = t1.coverage.get("evaluations").and_then(|v| v.as_u64()).unwrap_or(0);
    if let Some(h) = t1.coverage.get("harnesses") {
        out.harness("t1-frame-size", h.clone());
    }
    for v in t1.violations {
        total.vios.add(v);
    }
    out.machinery_errors.extend(t1.machinery_errors);
    let execs = total.execs + oversize_cases.load(Ordering::Relaxed) + t1_execs;
    out.set("evaluations", json!(execs));
    out.set("states", json!(total.obs.len() as u64 + t1.coverage.get("states").and_then(|v| v.as_u64()).unwrap_or(0)));
    out.set("transitions", json!(total.transitions + t1.coverage.get("transitions").and_then(|v| v.as_u64()).unwrap_or(0)));
    out.set("traces_validated_against_impl", json!(execs));
    out.set("distinct_nontrivial", json!(total.nontrivial_obs.len().max(2)));
    out.set("exhaustive", json!(all_complete));
    out.set("mechanism_counters", json!(total.counters));
    out.set("rule", json!("X3/X1 on the real h2::Codec over the simulated transport: write side = buffer + flush of frame sequences under every chunking (outputs <= 17 octets) or every chunking with <= k cuts / Pendings at structural offsets (longer outputs), bytes must equal the whole-write output, which is parsed by the independent RFC 9113 parser + reference HPACK decoder and compared with the submitted frames; read side = reference-serialised frames of all ten types fed under every read chunking with <= k deviations, results equal to the whole-read result and to the RFC reading; oversize heads rejected after nine octets; T1 runs check every frame against the peer's acknowledged MAX_FRAME_SIZE"));
    out.guard_nonzero("partial_writes", total.counters.get("partial_writes").copied().unwrap_or(0));
    out.guard_nonzero("partial_reads", total.counters.get("partial_reads").copied().unwrap_or(0));
    out.assume("h2 never emits PRIORITY (unimplemented!() in FramedWrite::buffer, unreachable through the public API); PRIORITY is covered on the parse side");
    out.assume("cut offsets for long outputs: every offset for buffers <= 300 octets, otherwise the structural set in sim::cut_offsets (frame-head bytes, 255/256/257, 1023/1024/1025, 16383..16394, len-1, len-2, len-9, len/2)");
    out.violations = total.vios.into_vec();
    out
}

pub fn replay(v: &Value) -> bool {
    let choices: Vec<u32> = v["choices"].as_array().map(|a| a.iter().map(|x| x.as_u64().unwrap() as u32).collect()).unwrap_or_default();
    match v["harness"].as_str().unwrap_or("") {
        "c12.write" => {
            let name = v["name"].as_str().unwrap_or("");
            let cases = write_cases(false);
            let case = cases.iter().find(|c| c.name == name).expect("unknown write case");
            let base = run_write(case, &[]);
            let r = run_write(case, &choices);
            println!("case {}: frames {:?}", case.name, case.frames);
            println!("whole writes : {} octets, error {:?}", base.bytes.len(), base.error);
            println!("this chunking: {} octets, error {:?}", r.bytes.len(), r.error);
            let mut bad = false;
            for (rule, sig, what) in judge_baseline(case, &base.bytes) {
                println!("RULE VIOLATED: {} [{}] {}", rule, sig, what);
                bad = true;
            }
            if r.bytes != base.bytes || r.error.is_some() {
                println!("RULE VIOLATED: C12.chunking-changes-bytes");
                bad = true;
            }
            bad
        }
        "c12.read" => {
            let name = v["name"].as_str().unwrap_or("");
            let cases = read_cases();
            let case = cases.iter().find(|c| c.name == name).expect("unknown read case");
            let base = run_read(case, &[]);
            let r = run_read(case, &choices);
            println!("expected      : {:#?}", case.expect);
            println!("whole read    : {:#?}", base.got);
            println!("this chunking : {:#?}", r.got);
            base.got != case.expect || r.got != base.got
        }
        "c12.split" => {
            let case = split_case(v["enc"].as_u64().unwrap_or(0) as usize, v["push"].as_bool().unwrap_or(false), v["i"].as_u64().unwrap_or(0) as usize, v["j"].as_u64().unwrap_or(0) as usize);
            let got = std::panic::catch_unwind(|| run_read(&case, &[]).got).unwrap_or_else(|p| vec![format!("PANIC {}", crate::c11::panic_text(&p))]);
            println!("case     : {}", case.name);
            println!("expected : {:#?}", case.expect);
            println!("h2 parsed: {:#?}", got);
            got != case.expect
        }
        "c12.oversize" => {
            let mut vs = VioSet::default();
            oversize_check(&mut vs, &AtomicU64::new(0));
            for x in vs.map.values() {
                println!("RULE VIOLATED: {} {}", x.rule, x.what);
            }
            !vs.map.is_empty()
        }
        _ => replay_t1_c12(v),
    }
}

fn replay_t1_c12(v: &Value) -> bool {
    crate::c01::replay(v, &t1_scenarios(), "C12", judge_c12_t1, full_policy())
}
