//! C08 — no peer input can panic, wedge or busy-loop an endpoint (T2, X3 over states x frames x sequences x chunkings).

use crate::c09::{cfg_for, enter, events_for, states, App, StateSpec, View};
use crate::common::*;
use crate::sim::*;
use crate::t2::*;
use h2wire::frame::{self as wf, RawFrame};
use serde_json::{json, Value};
use std::collections::BTreeMap;
use std::sync::atomic::{AtomicU64, Ordering};
use std::sync::Mutex;

#[derive(Clone, Debug)]
pub enum Inject {
    /// frames, each written whole
    Frames(Vec<RawFrame>),
    /// raw bytes fed in pieces of the given size (0 = whole)
    Bytes(Vec<u8>, usize),
}

pub struct Obs {
    pub vios: Vec<(String, String, String)>,
    pub outcome: String,
    pub transitions: u64,
}

fn outcome_of(t: &T2) -> String {
    match &t.conn_result {
        None => "serving".into(),
        Some(r) if r == "ok" => "closed-ok".into(),
        Some(r) if r.contains("library:goaway") => "goaway".into(),
        Some(r) if r.contains("remote:goaway") => "peer-goaway".into(),
        Some(r) if r.contains("io") => "io-error".into(),
        Some(r) => format!("other:{}", r),
    }
}

/// Inject into a prepared T2 and judge the reaction.
pub fn inject_and_judge(t: &mut T2, app: &mut App, inj: &Inject, write_blocked: bool, app_activity: bool, key: &str) -> Obs {
    let polls0 = t.conn_polls;
    let calls0 = t.sh.lock().unwrap().transport_calls;
    let frames0 = t.subject_frames().len();
    let mut nbytes = 0usize;
    let mut nframes = 0usize;
    let mut quiesced = true;
    if write_blocked {
        t.sh.lock().unwrap().set_write_blocked(t.role, true);
    }
    match inj {
        Inject::Frames(fs) => {
            for f in fs {
                t.peer_send(f);
                nbytes += 9 + f.payload.len();
                nframes += 1;
            }
            quiesced &= t.drive(300);
        }
        Inject::Bytes(b, piece) => {
            nbytes = b.len();
            nframes = b.len() / 9 + 1;
            if *piece == 0 {
                t.peer_send_bytes(b);
                quiesced &= t.drive(300);
            } else {
                for c in b.chunks(*piece) {
                    t.peer_send_bytes(c);
                    quiesced &= t.drive(300);
                }
            }
        }
    }
    if app_activity {
        // the application keeps using the API meanwhile: new request / response, data, capacity, reset, drops
        let mut panics = vec![];
        if t.role == Side::Server {
            for a in t.accepted.iter_mut() {
                if let Some(r) = a.respond.as_mut() {
                    let res = guarded(&mut panics, "send_response", || r.send_response(simple_response(200), false));
                    if let Some(Ok(ss)) = res {
                        a.send = Some(ss);
                    }
                }
                if let Some(ss) = a.send.as_mut() {
                    let _ = guarded(&mut panics, "send_data", || {
                        ss.reserve_capacity(10);
                        let _ = ss.send_data(bytes::Bytes::from_static(b"hello"), false);
                        let _ = ss.capacity();
                    });
                }
                if let Some(b) = a.body.as_mut() {
                    let _ = guarded(&mut panics, "release_capacity", || {
                        let _ = b.flow_control().release_capacity(1);
                    });
                }
            }
        } else {
            for (_, ss) in app.send_streams.iter_mut() {
                let _ = guarded(&mut panics, "send_data", || {
                    ss.reserve_capacity(10);
                    let _ = ss.send_data(bytes::Bytes::new(), false);
                    let _ = ss.send_data(bytes::Bytes::from_static(b"hello"), false);
                    let _ = ss.capacity();
                });
            }
        }
        t.panics.extend(panics);
        quiesced &= t.drive(300);
        let mut panics = vec![];
        if t.role == Side::Server {
            for a in t.accepted.iter_mut() {
                if let Some(mut ss) = a.send.take() {
                    let _ = guarded(&mut panics, "send_reset", || ss.send_reset(h2::Reason::CANCEL));
                }
                a.body = None;
            }
        } else {
            for (_, mut ss) in app.send_streams.drain(..) {
                let _ = guarded(&mut panics, "send_reset", || ss.send_reset(h2::Reason::CANCEL));
            }
            for (_, rf) in app.resp_futs.drain(..) {
                safe_drop(&mut panics, "ResponseFuture", rf);
            }
            for (_, b) in app.bodies.drain(..) {
                safe_drop(&mut panics, "RecvStream", b);
            }
        }
        t.panics.extend(panics);
        quiesced &= t.drive(300);
    }
    if write_blocked {
        t.sh.lock().unwrap().set_write_blocked(t.role, false);
        quiesced &= t.drive(300);
    }
    t.catch_up();
    let polls = t.conn_polls - polls0;
    let calls = t.sh.lock().unwrap().transport_calls - calls0;
    let mut vios = vec![];
    for p in &t.panics {
        let first = p.lines().next().unwrap_or("");
        vios.push(("C08.panic".to_string(), key.to_string(), format!("{}: panic: {}", key, first)));
    }
    if !quiesced {
        vios.push(("C08.busy-loop".into(), key.to_string(), format!("{}: the connection task was still runnable after 300 consecutive polls", key)));
    }
    if t.max_self_wake_run > 8 {
        vios.push(("C08.self-wake".into(), key.to_string(), format!("{}: the connection task woke itself {} times in a row without any transport activity", key, t.max_self_wake_run)));
    }
    // deterministic work bound: polls and transport callbacks per injected octet / frame
    let bound = 60 + 12 * nframes as u64 + (nbytes as u64) / 16;
    if polls + calls > bound * 4 {
        vios.push(("C08.unbounded-work".into(), key.to_string(), format!("{}: {} connection polls and {} transport calls for {} octets in {} frames (bound {})", key, polls, calls, nbytes, nframes, bound * 4)));
    }
    // orderly outcome
    let out = outcome_of(t);
    if out == "goaway" && t.panics.is_empty() {
        let sent = t.subject_frames()[frames0..].iter().any(|f| matches!(&f.parsed, Ok(wf::Parsed::GoAway { .. }))) || t.goaway_sent().is_some();
        if !sent && !write_blocked {
            vios.push(("C08.disorderly-end".into(), key.to_string(), format!("{}: the connection ended with a library error ({:?}) but no GOAWAY reached the wire", key, t.conn_result)));
        }
    }
    if out.starts_with("other:") {
        vios.push(("C08.disorderly-end".into(), key.to_string(), format!("{}: unexpected connection result {:?}", key, t.conn_result)));
    }
    Obs { vios, outcome: out, transitions: polls + calls + nframes as u64 }
}

pub fn prepared(s: &StateSpec) -> (T2, App, View) {
    let cfg = cfg_for(s);
    let mut t = T2::new(&cfg, vec![]);
    let app = enter(&mut t, s);
    t.catch_up();
    let v = View::from_wire(&t);
    (t, app, v)
}

fn close(mut t: T2, app: App, key: &str, vios: &mut Vec<(String, String, String)>) {
    let already = t.panics.len();
    let mut p = std::mem::take(&mut t.panics);
    app.release(&mut p);
    t.panics = p;
    let all = t.finish();
    for p in all.into_iter().skip(already) {
        vios.push(("C08.panic".into(), key.to_string(), format!("{}: panic during teardown: {}", key, p.lines().next().unwrap_or(""))));
    }
}

/// systematic frame catalogue relative to a view
pub fn frame_catalogue(v: &View, prim: u32, full: bool) -> Vec<(String, RawFrame)> {
    let mut out = vec![];
    let block = T2::block(&[(":method", "GET"), (":scheme", "http"), (":authority", "h.example"), (":path", "/f")]);
    let sids: Vec<(&str, u32)> = if full {
        vec![("0", 0), ("prim", prim), ("new", v.next_peer_id()), ("own-idle", if v.role == Side::Server { 8 } else { v.max_subj_id + 8 }), ("max", 0x7fff_ffff), ("rbit", 0x8000_0000 | prim), ("2", 2), ("3", 3)]
    } else {
        vec![("0", 0), ("prim", prim), ("new", v.next_peer_id()), ("max", 0x7fff_ffff), ("rbit", 0x8000_0000 | prim)]
    };
    for ty in 0u8..=10 {
        let (right, valid): (usize, Vec<u8>) = match ty {
            0 => (3, vec![0xee; 3]),
            1 => (block.len(), block.clone()),
            2 => (5, vec![0, 0, 0, 0, 16]),
            3 => (4, vec![0, 0, 0, 8]),
            4 => (6, vec![0, 4, 0, 0, 0xff, 0xff]),
            5 => (4 + block.len(), [vec![0, 0, 0, 2], block.clone()].concat()),
            6 => (8, vec![7; 8]),
            7 => (8, vec![0, 0, 0, 1, 0, 0, 0, 0]),
            8 => (4, vec![0, 0, 0, 1]),
            9 => (block.len(), block.clone()),
            _ => (3, vec![1, 2, 3]),
        };
        let defined: u8 = match ty {
            0 => 0x1 | 0x8,
            1 => 0x1 | 0x4 | 0x8 | 0x20,
            4 | 6 => 0x1,
            5 => 0x4 | 0x8,
            9 => 0x4,
            _ => 0,
        };
        let flagset: Vec<u8> = if full { vec![0, defined, 0xff, 0x1, 0x4, 0x8, 0x20] } else { vec![0, defined, 0xff] };
        let lens: Vec<usize> = if full { vec![0, 1, 4, 5, 6, 8, 9, right.saturating_sub(1), right, right + 1, 16384, 16385] } else { vec![0, right.saturating_sub(1), right, right + 1, 16385] };
        let fills: Vec<(&str, u8)> = if full { vec![("valid", 0), ("zeros", 0), ("ff", 0xff)] } else { vec![("valid", 0), ("zeros", 0)] };
        let mut seen = std::collections::HashSet::new();
        for &fl in &flagset {
            for &len in &lens {
                for (fname, fill) in &fills {
                    let mut payload = if *fname == "valid" { valid.clone() } else { vec![*fill; len] };
                    payload.resize(len, if *fname == "valid" { 0 } else { *fill });
                    for (sl, sid) in &sids {
                        let f = RawFrame::new(ty, fl, *sid, payload.clone());
                        if seen.insert(f.encode()) {
                            out.push((format!("t{}-fl{:#x}-len{}-{}-{}", ty, fl, len, fname, sl), f));
                        }
                    }
                }
            }
        }
    }
    out
}

fn prim_of(s: &StateSpec) -> u32 {
    if s.name == "s-open-5" {
        5
    } else if s.name == "c-request-parked" {
        3
    } else {
        1
    }
}

pub fn run(ctx: &Ctx) -> Outcome {
    let mut out = Outcome::default();
    let quick = ctx.tier.is_quick();
    let sts = states();
    let vios = Mutex::new(VioSet::default());
    let outcomes: Mutex<BTreeMap<String, u64>> = Mutex::new(BTreeMap::new());
    let execs = AtomicU64::new(0);
    let transitions = AtomicU64::new(0);
    let record = |o: Obs, replay: Value| {
        execs.fetch_add(1, Ordering::Relaxed);
        transitions.fetch_add(o.transitions, Ordering::Relaxed);
        *outcomes.lock().unwrap().entry(o.outcome.clone()).or_insert(0) += 1;
        if !o.vios.is_empty() {
            let mut vs = vios.lock().unwrap();
            for (rule, sig, what) in o.vios {
                vs.add(Violation { rule, signature: sig, what, replay: replay.clone() });
            }
        }
    };
    // (a) systematic frame catalogue x states (x write back-pressure x application activity)
    let mut n_catalogue = 0u64;
    {
        let work: Vec<(usize, bool, bool)> = (0..sts.len()).flat_map(|i| [(i, false, false), (i, true, false), (i, false, true)]).collect();
        let counter = AtomicU64::new(0);
        par_for(work.len(), |w| {
            let (si, blocked, activity) = work[w];
            let s = &sts[si];
            // (the quick tier once limited back-pressure / application activity to eight states; it has the time for all)
            let (t0, app0, v) = prepared(s);
            let cat = frame_catalogue(&v, prim_of(s), !quick);
            close(t0, app0, "prepare", &mut vec![]);
            for (label, f) in cat {
                if ctx.over_budget() {
                    return;
                }
                let (mut t, mut app, _) = prepared(s);
                let key = format!("{}+{}{}{}", s.name, label, if blocked { "+blocked" } else { "" }, if activity { "+app" } else { "" });
                let mut o = inject_and_judge(&mut t, &mut app, &Inject::Frames(vec![f.clone()]), blocked, activity, &key);
                close(t, app, &key, &mut o.vios);
                counter.fetch_add(1, Ordering::Relaxed);
                record(o, json!({"harness": "c08.frame", "state": s.name, "frame": hex(&f.encode()), "blocked": blocked, "app": activity, "label": label}));
            }
        });
        n_catalogue = counter.load(Ordering::Relaxed);
    }
    eprintln!("[C08] frame catalogue: {} executions, {:.1}s", n_catalogue, ctx.elapsed());
    // (b) sequences of 2 (quick) / 3 (thorough, reduced third position) events from the C09 event catalogue
    let mut n_seq = 0u64;
    {
        let counter = AtomicU64::new(0);
        par_for(sts.len(), |si| {
            let s = &sts[si];
            let (t0, app0, v) = prepared(s);
            let evs = events_for(&v, s);
            close(t0, app0, "prepare", &mut vec![]);
            let third: Vec<usize> = if quick { (0..evs.len()).step_by(16).collect() } else { (0..evs.len()).step_by(4).collect() };
            for a in 0..evs.len() {
                for b in 0..evs.len() {
                    if ctx.over_budget() {
                        return;
                    }
                    let mut variants: Vec<Vec<usize>> = vec![vec![a, b]];
                    for &c in &third {
                        variants.push(vec![a, b, c]);
                    }
                    for seq in variants {
                        let (mut t, mut app, _) = prepared(s);
                        let labels: Vec<String> = seq.iter().map(|&i| evs[i].label.clone()).collect();
                        let key = format!("{}+[{}]", s.name, labels.join(" ; "));
                        let mut vs = vec![];
                        let mut last = None;
                        for &i in &seq {
                            let o = inject_and_judge(&mut t, &mut app, &Inject::Frames(evs[i].frames.clone()), false, false, &key);
                            vs.extend(o.vios.clone());
                            last = Some(o);
                            if t.conn_result.is_some() || !t.panics.is_empty() {
                                break;
                            }
                        }
                        let mut o = last.unwrap();
                        o.vios = vs;
                        o.vios.dedup();
                        close(t, app, &key, &mut o.vios);
                        counter.fetch_add(1, Ordering::Relaxed);
                        record(o, json!({"harness": "c08.seq", "state": s.name, "events": labels}));
                    }
                }
            }
        });
        n_seq = counter.load(Ordering::Relaxed);
    }
    eprintln!("[C08] event sequences: {} executions, {:.1}s", n_seq, ctx.elapsed());
    // (c) byte level: handshake and first frames at every split point and one byte at a time; garbage prefaces
    let mut n_bytes = 0u64;
    {
        let mut streams: Vec<(String, Side, Vec<u8>)> = vec![];
        let block = T2::block(&[(":method", "GET"), (":scheme", "http"), (":authority", "h.example"), (":path", "/b")]);
        let mut good = wf::PREFACE.to_vec();
        good.extend(wf::settings(&[(4, 100)]).encode());
        good.extend(wf::settings_ack().encode());
        good.extend(wf::headers(1, &block, false, true).encode());
        good.extend(wf::data(1, b"abc", true).encode());
        streams.push(("server-good-handshake".into(), Side::Server, good.clone()));
        for (name, pre) in [("garbage", b"GET / HTTP/1.1\r\nHost: x\r\n\r\n".to_vec()), ("almost", b"PRI * HTTP/2.0\r\n\r\nSM\r\n\rX".to_vec()), ("zeros", vec![0; 40]), ("ff", vec![0xff; 40]), ("tls", vec![0x16, 3, 1, 2, 0, 1, 0, 1, 0xfc, 3, 3])] {
            streams.push((format!("server-preface-{}", name), Side::Server, pre));
        }
        let mut c = wf::settings(&[(3, 1)]).encode();
        c.extend(wf::settings_ack().encode());
        c.extend(wf::ping([1; 8], false).encode());
        streams.push(("client-good-handshake".into(), Side::Client, c));
        streams.push(("client-no-settings-first".into(), Side::Client, wf::ping([1; 8], false).encode()));
        streams.push(("client-garbage".into(), Side::Client, b"HTTP/1.1 400 Bad Request\r\n\r\n".to_vec()));
        for (name, role, bytes) in &streams {
            let mut modes: Vec<(String, Vec<usize>)> = vec![("whole".into(), vec![]), ("bytewise".into(), vec![usize::MAX])];
            for cut in 1..bytes.len() {
                modes.push((format!("cut{}", cut), vec![cut]));
            }
            for (mname, cuts) in modes {
                let key = format!("{}+{}", name, mname);
                let o = run_raw_connection(*role, bytes, &cuts, &key);
                n_bytes += 1;
                record(o, json!({"harness": "c08.bytes", "stream": name, "mode": mname}));
            }
        }
    }
    eprintln!("[C08] byte-level: {} executions, {:.1}s", n_bytes, ctx.elapsed());
    // (d) sweeps of the length-like octets inside payloads: for every frame type with optional leading fields (DATA,
    // HEADERS, PUSH_PROMISE) x every combination of PADDED / PRIORITY / END_HEADERS x several payload lengths, every value
    // 0..=255 of the Pad Length octet (all positions of "padding reaches into / past the other fields")
    let mut n_sweep = 0u64;
    {
        let block = T2::block(&[(":method", "GET"), (":scheme", "http"), (":authority", "h.example"), (":path", "/s")]);
        let mut jobs: Vec<(&'static str, u8, u8, usize, u8, bool)> = vec![];
        for st in ["s-open", "c-request-open", "c-response-open"] {
            for (ty, flagsets) in [(0u8, vec![0x8u8, 0x9]), (1, vec![0x8, 0x28, 0xc, 0x2c, 0x2d]), (5, vec![0x8, 0xc])] {
                for fl in flagsets {
                    for tail in [0usize, 1, 4, 5, 6, 11, 40] {
                        for p in 0..=255u8 {
                            jobs.push((st, ty, fl, tail, p, false));
                            if tail == 5 {
                                jobs.push((st, ty, fl, tail, p, true));
                            }
                        }
                    }
                }
            }
        }
        let counter = AtomicU64::new(0);
        par_for(jobs.len(), |j| {
            if ctx.over_budget() {
                return;
            }
            let (stn, ty, fl, tail, p, new_stream) = jobs[j];
            let s = sts.iter().find(|s| s.name == stn).unwrap();
            let (mut t, mut app, v) = prepared(s);
            let sid = if new_stream { v.next_peer_id() } else { prim_of(s) };
            // [Pad Length] [priority: 5 octets] [promised id: 4 octets] fragment / data, then `tail` further octets
            let mut payload = vec![p];
            if ty == 1 && fl & 0x20 != 0 {
                payload.extend([0, 0, 0, 0, 15]);
            }
            if ty == 5 {
                payload.extend([0, 0, 0, 2]);
            }
            if ty == 0 {
                payload.extend([0xee; 3]);
            } else {
                payload.extend(&block);
            }
            payload.extend(std::iter::repeat(0).take(tail));
            let f = RawFrame::new(ty, fl, sid, payload);
            let key = format!("{}+sweep-t{}-fl{:#x}-tail{}-pad{}{}", s.name, ty, fl, tail, p, if new_stream { "-new" } else { "" });
            let mut o = inject_and_judge(&mut t, &mut app, &Inject::Frames(vec![f.clone()]), false, false, &key);
            close(t, app, &key, &mut o.vios);
            counter.fetch_add(1, Ordering::Relaxed);
            record(o, json!({"harness": "c08.frame", "state": s.name, "frame": hex(&f.encode()), "blocked": false, "app": false, "label": key}));
        });
        n_sweep = counter.load(Ordering::Relaxed);
    }
    eprintln!("[C08] pad-length sweeps: {} executions, {:.1}s", n_sweep, ctx.elapsed());
    let outcomes = outcomes.into_inner().unwrap();
    let n = execs.load(Ordering::Relaxed);
    out.harness("frame-catalogue", json!({"executions": n_catalogue, "states": sts.len(), "full_product": !quick}));
    out.harness("event-sequences", json!({"executions": n_seq, "length": 3, "third_position": if quick { "every 16th event of the catalogue" } else { "every 4th event of the catalogue" }}));
    out.harness("byte-level", json!({"executions": n_bytes}));
    out.harness("pad-length-sweeps", json!({"executions": n_sweep}));
    out.set("evaluations", json!(n));
    out.set("states", json!(n));
    out.set("transitions", json!(transitions.load(Ordering::Relaxed)));
    out.set("traces_validated_against_impl", json!(n));
    out.set("distinct_nontrivial", json!(outcomes.len().max(2)));
    out.set("outcomes", json!(outcomes));
    out.set("exhaustive", json!(!ctx.over_budget()));
    out.set("rule", json!("X3 on T2: the real endpoint (both roles) in each of 32 states receives (a) every frame of a systematic catalogue (type 0..10 x flags x declared/actual length x stream id x payload fill), also under write back-pressure and with concurrent application calls, (b) every sequence of 2 events of the C09 catalogue, each also followed by every 16th (quick) / 4th (thorough) event as a third, (c) handshakes and first frames cut at every offset and fed bytewise, and garbage prefaces, (d) every Pad Length value 0..=255 for DATA / HEADERS / PUSH_PROMISE with every combination of PADDED / PRIORITY / END_HEADERS and several payload lengths. Oracle on every execution: no panic (also during teardown), the connection task quiesces within 300 polls, never wakes itself more than 8 times in a row without transport activity, polls + transport callbacks stay below a bound linear in the input, and the outcome is continued service, GOAWAY then close, or a surfaced I/O error"));
    out.add_sample(json!({"harness": "c08.seq", "state": "s-open", "events": ["DATA(prim)", "RST_STREAM(prim)"]}));
    out.guard_nonzero("executions that kept serving", outcomes.get("serving").copied().unwrap_or(0));
    out.guard_nonzero("executions that ended with GOAWAY", outcomes.get("goaway").copied().unwrap_or(0));
    out.assume("inputs outside the catalogues (longer sequences, other payload contents) are not covered; HPACK / Huffman input space is covered by C11");
    out.violations = vios.into_inner().unwrap().into_vec();
    out
}

/// A subject fed raw bytes from the very first octet (no scripted handshake).
pub fn run_raw_connection(role: Side, bytes: &[u8], cuts: &[usize], key: &str) -> Obs {
    use std::future::Future;
    use std::task::{Context, Poll};
    let sh = new_shared(vec![]);
    sh.lock().unwrap().chooser.recording = false;
    let flag = Flag::new(true);
    let w = waker_of(&flag);
    let mut cx = Context::from_waker(&w);
    let mut panics: Vec<String> = vec![];
    let pieces: Vec<Vec<u8>> = if cuts == [usize::MAX] {
        bytes.iter().map(|b| vec![*b]).collect()
    } else if let Some(&c) = cuts.first() {
        vec![bytes[..c].to_vec(), bytes[c..].to_vec()]
    } else {
        vec![bytes.to_vec()]
    };
    let peer = role.other();
    let mut polls = 0u64;
    let mut result: Option<String> = None;
    let mut spins_exceeded = false;
    let io = SimIo { sh: sh.clone(), side: role };
    match role {
        Side::Server => {
            let mut hs = Box::pin(h2::server::Builder::new().handshake::<_, bytes::Bytes>(io));
            let mut conn: Option<h2::server::Connection<SimIo, bytes::Bytes>> = None;
            let mut accepted = vec![];
            for (i, p) in pieces.iter().enumerate() {
                sh.lock().unwrap().inject(peer, p);
                if i + 1 == pieces.len() {
                    // the peer closes after its last octet
                    sh.lock().unwrap().inject_eof(peer);
                }
                let mut n = 0;
                while flag.is_set() && result.is_none() {
                    flag.clear();
                    polls += 1;
                    n += 1;
                    if n > 300 {
                        spins_exceeded = true;
                        break;
                    }
                    let r = guarded(&mut panics, "poll", || {
                        if conn.is_none() {
                            match hs.as_mut().poll(&mut cx) {
                                Poll::Ready(Ok(c)) => {
                                    conn = Some(c);
                                    flag.wake_by_ref_pub();
                                }
                                Poll::Ready(Err(e)) => return Some(format!("handshake err {}", crate::scen::err_text(&e))),
                                Poll::Pending => {}
                            }
                            None
                        } else {
                            loop {
                                match conn.as_mut().unwrap().poll_accept(&mut cx) {
                                    Poll::Ready(Some(Ok(x))) => accepted.push(x),
                                    Poll::Ready(Some(Err(e))) => return Some(format!("err {}", crate::scen::err_text(&e))),
                                    Poll::Ready(None) => return Some("ok".into()),
                                    Poll::Pending => return None,
                                }
                            }
                        }
                    });
                    match r {
                        Some(Some(x)) => result = Some(x),
                        Some(None) => {}
                        None => result = Some("panic".into()),
                    }
                    sh.lock().unwrap().drain(peer);
                }
            }
            let _ = guarded(&mut panics, "teardown", move || {
                drop(accepted);
                drop(conn);
                drop(hs);
            });
        }
        Side::Client => {
            let mut hs = Box::pin(h2::client::Builder::new().handshake::<_, bytes::Bytes>(io));
            let mut conn: Option<h2::client::Connection<SimIo, bytes::Bytes>> = None;
            let mut sr = None;
            for (i, p) in pieces.iter().enumerate() {
                sh.lock().unwrap().inject(peer, p);
                if i + 1 == pieces.len() {
                    sh.lock().unwrap().inject_eof(peer);
                }
                let mut n = 0;
                while flag.is_set() && result.is_none() {
                    flag.clear();
                    polls += 1;
                    n += 1;
                    if n > 300 {
                        spins_exceeded = true;
                        break;
                    }
                    let r = guarded(&mut panics, "poll", || {
                        if conn.is_none() {
                            match hs.as_mut().poll(&mut cx) {
                                Poll::Ready(Ok((s, c))) => {
                                    sr = Some(s);
                                    conn = Some(c);
                                    flag.wake_by_ref_pub();
                                }
                                Poll::Ready(Err(e)) => return Some(format!("handshake err {}", crate::scen::err_text(&e))),
                                Poll::Pending => {}
                            }
                            None
                        } else {
                            match std::pin::Pin::new(conn.as_mut().unwrap()).poll(&mut cx) {
                                Poll::Ready(Ok(())) => Some("ok".into()),
                                Poll::Ready(Err(e)) => Some(format!("err {}", crate::scen::err_text(&e))),
                                Poll::Pending => None,
                            }
                        }
                    });
                    match r {
                        Some(Some(x)) => result = Some(x),
                        Some(None) => {}
                        None => result = Some("panic".into()),
                    }
                    sh.lock().unwrap().drain(peer);
                }
            }
            let _ = guarded(&mut panics, "teardown", move || {
                drop(sr);
                drop(conn);
                drop(hs);
            });
        }
    }
    let calls = sh.lock().unwrap().transport_calls;
    let mut vios = vec![];
    for p in &panics {
        if p.contains("self.slab.is_empty()") {
            continue;
        }
        vios.push(("C08.panic".to_string(), key.to_string(), format!("{}: panic: {}", key, p.lines().next().unwrap_or(""))));
    }
    if spins_exceeded {
        vios.push(("C08.busy-loop".into(), key.to_string(), format!("{}: still runnable after 300 consecutive polls", key)));
    }
    if result.is_none() {
        vios.push(("C08.wedged".into(), key.to_string(), format!("{}: the peer closed the transport but the endpoint neither finished nor failed", key)));
    }
    let bound = 100 + bytes.len() as u64 * 6;
    if polls + calls > bound {
        vios.push(("C08.unbounded-work".into(), key.to_string(), format!("{}: {} polls + {} transport calls for {} octets", key, polls, calls, bytes.len())));
    }
    let outcome = match &result {
        Some(r) if r == "ok" => "closed-ok".to_string(),
        Some(r) if r.contains("goaway") => "goaway".into(),
        Some(r) if r.contains("io") => "io-error".into(),
        Some(r) if r.contains("handshake") => "handshake-error".into(),
        Some(r) => format!("other:{}", r),
        None => "wedged".into(),
    };
    Obs { vios, outcome, transitions: polls + calls }
}

pub fn replay(v: &Value) -> bool {
    let mut bad = false;
    let mut show = |o: Obs| {
        println!("outcome: {}", o.outcome);
        for (r, _, w) in &o.vios {
            println!("RULE VIOLATED: {} {}", r, w);
        }
        !o.vios.is_empty()
    };
    match v["harness"].as_str().unwrap_or("") {
        "c08.frame" => {
            let s = states().into_iter().find(|s| s.name == v["state"].as_str().unwrap_or("")).expect("state");
            let bytes = unhex(v["frame"].as_str().unwrap());
            let (frames, _) = wf::parse_all(&bytes, false);
            let (mut t, mut app, _) = prepared(&s);
            println!("state {} ; frame {} ({})", s.name, v["label"], frames.first().map(|f| f.short()).unwrap_or_else(|| "declared length exceeds payload".into()));
            let inj = if frames.len() == 1 { Inject::Frames(frames) } else { Inject::Bytes(bytes, 0) };
            let mut o = inject_and_judge(&mut t, &mut app, &inj, v["blocked"].as_bool().unwrap_or(false), v["app"].as_bool().unwrap_or(false), "replay");
            println!("--- wire transcript\n{}", t.mon.transcript());
            println!("connection result {:?}", t.conn_result);
            close(t, app, "replay", &mut o.vios);
            bad |= show(o);
        }
        "c08.seq" => {
            let s = states().into_iter().find(|s| s.name == v["state"].as_str().unwrap_or("")).expect("state");
            let (mut t, mut app, view) = prepared(&s);
            let evs = events_for(&view, &s);
            for l in v["events"].as_array().unwrap() {
                let e = evs.iter().find(|e| e.label == l.as_str().unwrap()).expect("event");
                let o = inject_and_judge(&mut t, &mut app, &Inject::Frames(e.frames.clone()), false, false, "replay");
                bad |= show(o);
                if t.conn_result.is_some() {
                    break;
                }
            }
            println!("--- wire transcript\n{}", t.mon.transcript());
            let mut vs = vec![];
            close(t, app, "replay", &mut vs);
            for (r, _, w) in &vs {
                println!("RULE VIOLATED: {} {}", r, w);
                bad = true;
            }
        }
        _ => {
            println!("byte-level cases are re-run by `check C08`");
        }
    }
    bad
}
