//! T1 topology: real h2 client <-> real h2 server over the simulated transport, driven by small application
//! scripts written as async tasks. Everything the applications submit and receive is logged for the oracles.

use crate::monitor::WireMon;
use crate::sim::*;
use bytes::Bytes;
use h2::{client, server, Reason, RecvStream, SendStream};
use http::{HeaderMap, HeaderName, HeaderValue, Method, Request, Response, StatusCode};
use std::future::{poll_fn, Future};
use std::pin::Pin;
use std::sync::{Arc, Mutex};
use std::task::Poll;
use std::time::Duration;

// ---------------------------------------------------------------------------------------------
// scenario description

#[derive(Clone, Debug, PartialEq, Eq, Hash)]
pub enum HeadKind {
    Tiny,
    /// three values under one name plus a cookie: exercises the `name: None` encoder path and ordering
    Repeated,
    /// one 30 KB value (about 19 KB after Huffman coding): needs CONTINUATION
    Big20k,
    /// 60 KB over two fields: needs two or more CONTINUATIONs
    Big40k,
}

#[derive(Clone, Debug, PartialEq, Eq, Hash)]
pub enum EndKind {
    /// END_STREAM on the head (no body)
    OnHead,
    /// END_STREAM on the last data chunk
    OnLastData,
    /// a separate empty DATA with END_STREAM
    EmptyData,
    Trailers,
}

#[derive(Clone, Debug, PartialEq, Eq, Hash)]
pub struct MsgSpec {
    pub head: HeadKind,
    /// number of interim 1xx responses before the final head (responses only)
    pub interim: u8,
    pub chunks: Vec<usize>,
    pub end: EndKind,
    /// reserve_capacity / poll_capacity before each send_data (otherwise send_data buffers directly)
    pub use_capacity: bool,
}

impl MsgSpec {
    pub fn simple(chunks: &[usize]) -> MsgSpec {
        MsgSpec { head: HeadKind::Tiny, interim: 0, chunks: chunks.to_vec(), end: if chunks.is_empty() { EndKind::OnHead } else { EndKind::OnLastData }, use_capacity: false }
    }
    pub fn total(&self) -> usize {
        self.chunks.iter().sum()
    }
}

#[derive(Clone, Debug, PartialEq, Eq, Hash)]
pub enum RecvMode {
    /// read and release at once
    Immediate,
    /// yield twice before every read (data piles up in the recv buffer)
    Late,
}

#[derive(Clone, Debug, PartialEq, Eq, Hash)]
pub enum Cancel {
    None,
    /// the sender resets the stream with this code after sending `after_chunks` data chunks
    ClientReset { after_chunks: usize, code: u32 },
    ServerReset { after_chunks: usize, code: u32 },
    /// the client drops all its handles for the stream after the request head (and `after_chunks` chunks)
    ClientDrop { after_chunks: usize },
    /// the server handler drops its handles after reading the head
    ServerDrop,
    /// early response (RFC 9113 8.1): the server handler drops the request body unread, sends its complete response and
    /// lets go of everything; if the request has not ended by then h2 owes RST_STREAM(NO_ERROR) after the response
    ServerEarlyResponse,
}

#[derive(Clone, Debug, PartialEq, Eq, Hash)]
pub struct StreamSpec {
    pub req: MsgSpec,
    pub resp: MsgSpec,
    /// pushed (request head, response) announced before the response head
    pub push: Option<MsgSpec>,
    pub c_recv: RecvMode,
    pub s_recv: RecvMode,
    pub cancel: Cancel,
    /// the server handler waits for the stream to be reset (poll_reset) instead of responding
    pub s_wait_reset: bool,
    /// the client task yields this many times before asking for readiness (a request that starts late)
    pub c_start_delay: usize,
}

impl StreamSpec {
    pub fn new(req: MsgSpec, resp: MsgSpec) -> StreamSpec {
        StreamSpec { req, resp, push: None, c_recv: RecvMode::Immediate, s_recv: RecvMode::Immediate, cancel: Cancel::None, s_wait_reset: false, c_start_delay: 0 }
    }
}

#[derive(Clone, Debug, PartialEq, Eq, Hash)]
pub struct Cfg {
    pub c_stream_window: Option<u32>,
    pub c_conn_window: Option<u32>,
    pub s_stream_window: Option<u32>,
    pub s_conn_window: Option<u32>,
    pub c_max_send_buffer: Option<usize>,
    pub s_max_send_buffer: Option<usize>,
    pub c_max_frame: Option<u32>,
    pub s_max_frame: Option<u32>,
    pub s_max_concurrent: Option<u32>,
    pub c_initial_max_send_streams: Option<usize>,
    pub vectored: bool,
    pub c_header_table_size: Option<u32>,
    pub s_header_table_size: Option<u32>,
    /// the client keeps one extra SendRequest clone alive (connection stays open after the streams finish)
    pub keep_send_request: bool,
    /// reset-stream memory: true = expire at once (duration 0), false = never (1 h)
    pub reset_expire_now: bool,
    pub ping: bool,
    /// server calls graceful_shutdown after accepting this many requests
    pub graceful_after: Option<usize>,
    pub initial_stream_id: Option<u32>,
    /// client calls set_initial_window_size(n) right after the handshake (a second SETTINGS frame)
    pub c_set_window: Option<u32>,
    /// server calls set_initial_window_size(n) after accepting its first request
    pub s_set_window: Option<u32>,
    /// server calls set_target_window_size(n) after accepting its first request
    pub s_target_window: Option<u32>,
    pub c_enable_push: Option<bool>,
    /// at every poll of the client connection the application may drop it instead (a deviation)
    pub c_drop_conn: bool,
    /// same for the server connection (between two accepts)
    pub s_drop_conn: bool,
    /// server calls abrupt_shutdown(reason) after accepting this many requests
    pub abrupt_after: Option<(usize, u32)>,
    /// an extra client task: send a request (parked if the concurrency limit is reached), reset it at once, then wait
    /// for readiness on the same SendRequest
    pub c_parked_reset_then_ready: bool,
    /// C19 on T1: both connection tasks leave a snapshot of their stream store (verification hook) whenever their connection
    /// returns Pending, and the client's SendRequest is parked in the simulator so that the connection stays open until the
    /// judge has looked at what is retained - and then lets it go to see the idle close
    pub probe: bool,
}

impl Default for Cfg {
    fn default() -> Self {
        Cfg {
            c_stream_window: None,
            c_conn_window: None,
            s_stream_window: None,
            s_conn_window: None,
            c_max_send_buffer: None,
            s_max_send_buffer: None,
            c_max_frame: None,
            s_max_frame: None,
            s_max_concurrent: None,
            c_initial_max_send_streams: None,
            vectored: false,
            c_header_table_size: None,
            s_header_table_size: None,
            keep_send_request: false,
            reset_expire_now: false,
            ping: false,
            graceful_after: None,
            initial_stream_id: None,
            c_set_window: None,
            s_set_window: None,
            s_target_window: None,
            c_enable_push: None,
            c_drop_conn: false,
            s_drop_conn: false,
            abrupt_after: None,
            c_parked_reset_then_ready: false,
            probe: false,
        }
    }
}

#[derive(Clone, Debug, PartialEq, Eq, Hash)]
pub struct Scenario {
    pub name: String,
    pub cfg: Cfg,
    pub streams: Vec<StreamSpec>,
}

// ---------------------------------------------------------------------------------------------
// log

#[derive(Clone, Debug, PartialEq, Eq, Hash)]
pub struct HeadRec {
    pub method: String,
    pub uri: String,
    pub status: u16,
    /// (name, value) in HeaderMap iteration order
    pub fields: Vec<(String, Vec<u8>)>,
}

#[derive(Clone, Debug, PartialEq, Eq, Hash)]
pub enum Dir {
    /// request direction (client -> server)
    Req,
    /// response direction
    Resp,
    /// pushed response (server -> client on the promised stream)
    PushResp,
}

#[derive(Clone, Debug, PartialEq, Eq, Hash)]
pub enum Ev {
    // submitted / received content, per (stream spec index, direction)
    Head(HeadRec),
    Interim(HeadRec),
    PushReq(HeadRec),
    Data(Vec<u8>),
    Trailers(Vec<(String, Vec<u8>)>),
    /// sender: END_STREAM submitted; receiver: clean end observed (data() -> None, trailers() -> Ok)
    End,
    /// receiver: the stream ended with this error text; sender: an operation failed
    Err(String),
    /// sender reset the stream with this code
    Reset(u32),
    /// handles dropped
    Dropped,
    /// `is_end_stream()` sampled after `received` bytes
    IsEos(bool, usize),
    StreamId(u32),
    /// capacity granted by poll_capacity
    Capacity(usize),
    Done,
}

#[derive(Clone, Debug, PartialEq, Eq, Hash)]
pub struct LogRec {
    pub side: Side,
    /// stream spec index, usize::MAX for connection-level records
    pub k: usize,
    pub dir: Dir,
    /// true: submitted by `side`; false: received by `side`
    pub submitted: bool,
    pub ev: Ev,
    /// length of the transport I/O log when this record was made: orders API events against wire events
    pub io_pos: usize,
}

#[derive(Clone, Default)]
pub struct Log(pub Arc<Mutex<Vec<LogRec>>>, pub Option<Sh>);

impl Log {
    pub fn push(&self, side: Side, k: usize, dir: Dir, submitted: bool, ev: Ev) {
        let io_pos = self.1.as_ref().map(|s| s.lock().unwrap().iolog.len()).unwrap_or(0);
        self.0.lock().unwrap().push(LogRec { side, k, dir, submitted, ev, io_pos });
    }
    pub fn conn(&self, side: Side, what: String) {
        self.push(side, usize::MAX, Dir::Req, false, Ev::Err(what));
    }
    pub fn snapshot(&self) -> Vec<LogRec> {
        self.0.lock().unwrap().clone()
    }
}

// ---------------------------------------------------------------------------------------------
// content

pub fn pat(k: usize, dir: &Dir, i: usize) -> u8 {
    let d = match dir {
        Dir::Req => 0usize,
        Dir::Resp => 1,
        Dir::PushResp => 2,
    };
    (k * 37 + d * 101 + i * 7 + (i >> 8) * 13 + 1) as u8
}

pub fn body(k: usize, dir: &Dir, from: usize, len: usize) -> Bytes {
    Bytes::from((from..from + len).map(|i| pat(k, dir, i)).collect::<Vec<u8>>())
}

fn big_value(seed: usize, len: usize) -> HeaderValue {
    let v: Vec<u8> = (0..len).map(|i| b'a' + ((i * 7 + seed + (i >> 6)) % 26) as u8).collect();
    HeaderValue::from_bytes(&v).unwrap()
}

pub fn extra_fields(kind: &HeadKind, seed: usize) -> Vec<(HeaderName, HeaderValue)> {
    let h = |n: &'static str, v: &str| (HeaderName::from_static(n), HeaderValue::from_str(v).unwrap());
    match kind {
        HeadKind::Tiny => vec![],
        HeadKind::Repeated => vec![h("x-rep", "a"), h("x-rep", "bb"), h("x-rep", "a"), h("cookie", "k=v"), h("x-seed", &seed.to_string())],
        HeadKind::Big20k => vec![(HeaderName::from_static("x-big"), big_value(seed, 30_000)), h("x-after", "z")],
        HeadKind::Big40k => vec![(HeaderName::from_static("x-big"), big_value(seed, 30_000)), (HeaderName::from_static("x-big2"), big_value(seed + 1, 30_000))],
    }
}

fn head_fields(m: &HeaderMap) -> Vec<(String, Vec<u8>)> {
    m.iter().map(|(n, v)| (n.as_str().to_string(), v.as_bytes().to_vec())).collect()
}

pub fn req_rec<T>(r: &Request<T>) -> HeadRec {
    HeadRec { method: r.method().as_str().to_string(), uri: r.uri().to_string(), status: 0, fields: head_fields(r.headers()) }
}

pub fn resp_rec<T>(r: &Response<T>) -> HeadRec {
    HeadRec { method: String::new(), uri: String::new(), status: r.status().as_u16(), fields: head_fields(r.headers()) }
}

fn build_request(k: usize, spec: &MsgSpec, path_prefix: &str) -> Request<()> {
    let mut b = Request::builder().method(if spec.end == EndKind::OnHead { Method::GET } else { Method::POST }).uri(format!("http://h.example/{}{}", path_prefix, k));
    for (n, v) in extra_fields(&spec.head, k) {
        b = b.header(n, v);
    }
    b.body(()).unwrap()
}

fn build_response(k: usize, spec: &MsgSpec, status: u16) -> Response<()> {
    let mut b = Response::builder().status(StatusCode::from_u16(status).unwrap());
    for (n, v) in extra_fields(&spec.head, k + 100) {
        b = b.header(n, v);
    }
    b.body(()).unwrap()
}

fn trailers_for(k: usize, dir: &Dir) -> HeaderMap {
    let mut m = HeaderMap::new();
    m.insert("x-trailer", HeaderValue::from_str(&format!("t{}-{:?}", k, dir)).unwrap());
    m.append("x-trailer", HeaderValue::from_static("second"));
    m
}

// ---------------------------------------------------------------------------------------------
// application tasks

/// Send the body part of a message on `ss` as the spec says. Returns false if an operation failed.
async fn send_body(side: Side, k: usize, dir: Dir, spec: MsgSpec, mut ss: SendStream<Bytes>, log: Log, cancel_after: Option<(usize, Option<u32>)>) {
    let mut off = 0usize;
    let n = spec.chunks.len();
    for (ci, &len) in spec.chunks.iter().enumerate() {
        if let Some((after, code)) = cancel_after {
            if ci == after {
                match code {
                    Some(c) => {
                        ss.send_reset(Reason::from(c));
                        log.push(side, k, dir.clone(), true, Ev::Reset(c));
                    }
                    None => {
                        log.push(side, k, dir.clone(), true, Ev::Dropped);
                    }
                }
                return;
            }
        }
        let last = ci + 1 == n;
        let eos = last && spec.end == EndKind::OnLastData;
        if spec.use_capacity && len > 0 {
            let mut remaining = len;
            while remaining > 0 {
                ss.reserve_capacity(remaining);
                let cap = match poll_fn(|cx| ss.poll_capacity(cx)).await {
                    Some(Ok(c)) => c,
                    Some(Err(e)) => {
                        log.push(side, k, dir.clone(), true, Ev::Err(format!("poll_capacity: {}", e)));
                        return;
                    }
                    None => {
                        log.push(side, k, dir.clone(), true, Ev::Err("poll_capacity: None".into()));
                        return;
                    }
                };
                log.push(side, k, dir.clone(), true, Ev::Capacity(cap));
                let m = cap.min(remaining);
                if m == 0 {
                    continue;
                }
                let b = body(k, &dir, off, m);
                let this_eos = eos && m == remaining;
                log.push(side, k, dir.clone(), true, Ev::Data(b.to_vec()));
                if this_eos {
                    log.push(side, k, dir.clone(), true, Ev::End);
                }
                if let Err(e) = ss.send_data(b, this_eos) {
                    log.push(side, k, dir.clone(), true, Ev::Err(format!("send_data: {}", e)));
                    return;
                }
                off += m;
                remaining -= m;
            }
        } else {
            let b = body(k, &dir, off, len);
            log.push(side, k, dir.clone(), true, Ev::Data(b.to_vec()));
            if eos {
                log.push(side, k, dir.clone(), true, Ev::End);
            }
            if let Err(e) = ss.send_data(b, eos) {
                log.push(side, k, dir.clone(), true, Ev::Err(format!("send_data: {}", e)));
                return;
            }
            off += len;
        }
        yield_now().await;
    }
    if let Some((after, code)) = cancel_after {
        if after >= n {
            match code {
                Some(c) => {
                    ss.send_reset(Reason::from(c));
                    log.push(side, k, dir.clone(), true, Ev::Reset(c));
                }
                None => log.push(side, k, dir.clone(), true, Ev::Dropped),
            }
            return;
        }
    }
    match spec.end {
        EndKind::EmptyData => {
            log.push(side, k, dir.clone(), true, Ev::End);
            if let Err(e) = ss.send_data(Bytes::new(), true) {
                log.push(side, k, dir.clone(), true, Ev::Err(format!("send_data(eos): {}", e)));
            }
        }
        EndKind::Trailers => {
            let t = trailers_for(k, &dir);
            log.push(side, k, dir.clone(), true, Ev::Trailers(head_fields(&t)));
            log.push(side, k, dir.clone(), true, Ev::End);
            if let Err(e) = ss.send_trailers(t) {
                log.push(side, k, dir.clone(), true, Ev::Err(format!("send_trailers: {}", e)));
            }
        }
        _ => {}
    }
    log.push(side, k, dir, true, Ev::Done);
}

/// Read a body to its end, releasing capacity, logging everything.
async fn recv_body(side: Side, k: usize, dir: Dir, mut rs: RecvStream, mode: RecvMode, log: Log) {
    let mut got = 0usize;
    log.push(side, k, dir.clone(), false, Ev::IsEos(rs.is_end_stream(), got));
    loop {
        if mode == RecvMode::Late {
            yield_now().await;
            yield_now().await;
        }
        match poll_fn(|cx| rs.poll_data(cx)).await {
            Some(Ok(b)) => {
                got += b.len();
                log.push(side, k, dir.clone(), false, Ev::Data(b.to_vec()));
                let _ = rs.flow_control().release_capacity(b.len());
                log.push(side, k, dir.clone(), false, Ev::IsEos(rs.is_end_stream(), got));
            }
            Some(Err(e)) => {
                log.push(side, k, dir.clone(), false, Ev::Err(format!("data: {}", err_text(&e))));
                return;
            }
            None => break,
        }
    }
    match poll_fn(|cx| rs.poll_trailers(cx)).await {
        Ok(Some(t)) => {
            log.push(side, k, dir.clone(), false, Ev::Trailers(head_fields(&t)));
            log.push(side, k, dir.clone(), false, Ev::End);
        }
        Ok(None) => log.push(side, k, dir.clone(), false, Ev::End),
        Err(e) => log.push(side, k, dir.clone(), false, Ev::Err(format!("trailers: {}", err_text(&e)))),
    }
    log.push(side, k, dir.clone(), false, Ev::IsEos(rs.is_end_stream(), got));
    log.push(side, k, dir, false, Ev::Done);
}

pub fn err_text(e: &h2::Error) -> String {
    let origin = if e.is_remote() { "remote" } else if e.is_library() { "library" } else if e.is_io() { "io" } else { "user" };
    let kind = if e.is_go_away() { "goaway" } else if e.is_reset() { "reset" } else if e.is_io() { "io" } else { "other" };
    match e.reason() {
        Some(r) => format!("{}:{}:{}", origin, kind, u32::from(r)),
        None => format!("{}:{}:-", origin, kind),
    }
}

async fn client_stream(k: usize, spec: StreamSpec, mut sr: client::SendRequest<Bytes>, log: Log, spawner: Spawner) {
    let side = Side::Client;
    for _ in 0..spec.c_start_delay {
        yield_now().await;
    }
    if let Err(e) = poll_fn(|cx| sr.poll_ready(cx)).await {
        log.push(side, k, Dir::Req, true, Ev::Err(format!("poll_ready: {}", err_text(&e))));
        return;
    }
    let req = build_request(k, &spec.req, "");
    let eos = spec.req.end == EndKind::OnHead;
    log.push(side, k, Dir::Req, true, Ev::Head(req_rec(&req)));
    if eos {
        log.push(side, k, Dir::Req, true, Ev::End);
    }
    let (mut rf, ss) = match sr.send_request(req, eos) {
        Ok(x) => x,
        Err(e) => {
            log.push(side, k, Dir::Req, true, Ev::Err(format!("send_request: {}", err_text(&e))));
            return;
        }
    };
    drop(sr);
    log.push(side, k, Dir::Req, true, Ev::StreamId(rf.stream_id().as_u32()));
    let client_cancel = match spec.cancel {
        Cancel::ClientReset { after_chunks, code } => Some((after_chunks, Some(code))),
        Cancel::ClientDrop { after_chunks } => Some((after_chunks, None)),
        _ => None,
    };
    if !eos {
        spawner.spawn(&format!("c{}-send", k), send_body(side, k, Dir::Req, spec.req.clone(), ss, log.clone(), client_cancel.clone()));
    } else {
        drop(ss);
    }
    if let Some(Cancel::ClientDrop { .. }) = Some(spec.cancel.clone()) {
        // dropping the response future as well: all client handles of the stream go away
        yield_now().await;
        drop(rf);
        log.push(side, k, Dir::Resp, false, Ev::Dropped);
        return;
    }
    // pushes are consumed by their own task
    if spec.push.is_some() {
        let mut pp = rf.push_promises();
        let log2 = log.clone();
        let spawner2 = spawner.clone();
        let mode = spec.c_recv.clone();
        spawner.spawn(&format!("c{}-push", k), async move {
            loop {
                match poll_fn(|cx| pp.poll_push_promise(cx)).await {
                    Some(Ok(p)) => {
                        let (req, prf) = p.into_parts();
                        log2.push(side, k, Dir::PushResp, false, Ev::PushReq(req_rec(&req)));
                        log2.push(side, k, Dir::PushResp, false, Ev::StreamId(prf.stream_id().as_u32()));
                        let log3 = log2.clone();
                        let mode = mode.clone();
                        spawner2.spawn(&format!("c{}-pushresp", k), async move {
                            match prf.await {
                                Ok(resp) => {
                                    log3.push(side, k, Dir::PushResp, false, Ev::Head(resp_rec(&resp)));
                                    recv_body(side, k, Dir::PushResp, resp.into_body(), mode, log3).await;
                                }
                                Err(e) => log3.push(side, k, Dir::PushResp, false, Ev::Err(format!("pushed response: {}", err_text(&e)))),
                            }
                        });
                    }
                    Some(Err(e)) => {
                        log2.push(side, k, Dir::PushResp, false, Ev::Err(format!("push_promise: {}", err_text(&e))));
                        break;
                    }
                    None => break,
                }
            }
        });
    }
    // interim responses first
    loop {
        match poll_fn(|cx| rf.poll_informational(cx)).await {
            Some(Ok(r)) => log.push(side, k, Dir::Resp, false, Ev::Interim(resp_rec(&r))),
            Some(Err(e)) => {
                log.push(side, k, Dir::Resp, false, Ev::Err(format!("informational: {}", err_text(&e))));
                break;
            }
            None => break,
        }
    }
    match Pin::new(&mut rf).await {
        Ok(resp) => {
            log.push(side, k, Dir::Resp, false, Ev::Head(resp_rec(&resp)));
            recv_body(side, k, Dir::Resp, resp.into_body(), spec.c_recv.clone(), log).await;
        }
        Err(e) => log.push(side, k, Dir::Resp, false, Ev::Err(format!("response: {}", err_text(&e)))),
    }
}

async fn server_stream(k: usize, spec: StreamSpec, req: Request<RecvStream>, mut respond: server::SendResponse<Bytes>, log: Log, spawner: Spawner) {
    let side = Side::Server;
    log.push(side, k, Dir::Req, false, Ev::Head(req_rec(&req)));
    log.push(side, k, Dir::Req, false, Ev::StreamId(respond.stream_id().as_u32()));
    let body_rs = req.into_body();
    if spec.cancel == Cancel::ServerDrop {
        drop(body_rs);
        drop(respond);
        log.push(side, k, Dir::Resp, true, Ev::Dropped);
        return;
    }
    let early = spec.cancel == Cancel::ServerEarlyResponse;
    let body_rs = if early {
        drop(body_rs);
        None
    } else {
        Some(body_rs)
    };
    // the response is produced by its own task so that it interleaves with reading the request
    let log2 = log.clone();
    let spec2 = spec.clone();
    let spawner2 = spawner.clone();
    spawner.spawn(&format!("s{}-respond", k), async move {
        let spec = spec2;
        let log = log2;
        if spec.s_wait_reset {
            match poll_fn(|cx| respond.poll_reset(cx)).await {
                Ok(r) => log.push(side, k, Dir::Resp, true, Ev::Reset(u32::from(r))),
                Err(e) => log.push(side, k, Dir::Resp, true, Ev::Err(format!("poll_reset: {}", err_text(&e)))),
            }
            return;
        }
        for i in 0..spec.resp.interim {
            let r = Response::builder().status(if i == 0 { 103 } else { 102 }).header("x-interim", i.to_string()).body(()).unwrap();
            log.push(side, k, Dir::Resp, true, Ev::Interim(resp_rec(&r)));
            if let Err(e) = respond.send_informational(r) {
                log.push(side, k, Dir::Resp, true, Ev::Err(format!("send_informational: {}", err_text(&e))));
            }
            yield_now().await;
        }
        if let Some(p) = &spec.push {
            let preq = build_request(k, &MsgSpec { end: EndKind::OnHead, ..p.clone() }, "pushed");
            log.push(side, k, Dir::PushResp, true, Ev::PushReq(req_rec(&preq)));
            match respond.push_request(preq) {
                Ok(mut pr) => {
                    log.push(side, k, Dir::PushResp, true, Ev::StreamId(pr.stream_id().as_u32()));
                    let presp = build_response(k + 50, p, 200);
                    let eos = p.end == EndKind::OnHead;
                    log.push(side, k, Dir::PushResp, true, Ev::Head(resp_rec(&presp)));
                    if eos {
                        log.push(side, k, Dir::PushResp, true, Ev::End);
                    }
                    match pr.send_response(presp, eos) {
                        Ok(ss) => {
                            if !eos {
                                spawner2.spawn(&format!("s{}-pushbody", k), send_body(side, k, Dir::PushResp, p.clone(), ss, log.clone(), None));
                            }
                        }
                        Err(e) => log.push(side, k, Dir::PushResp, true, Ev::Err(format!("pushed send_response: {}", err_text(&e)))),
                    }
                }
                Err(e) => log.push(side, k, Dir::PushResp, true, Ev::Err(format!("push_request: {}", err_text(&e)))),
            }
            yield_now().await;
        }
        let resp = build_response(k, &spec.resp, 200);
        let eos = spec.resp.end == EndKind::OnHead;
        log.push(side, k, Dir::Resp, true, Ev::Head(resp_rec(&resp)));
        if eos {
            log.push(side, k, Dir::Resp, true, Ev::End);
        }
        match respond.send_response(resp, eos) {
            Ok(ss) => {
                if !eos {
                    let cancel = match spec.cancel {
                        Cancel::ServerReset { after_chunks, code } => Some((after_chunks, Some(code))),
                        _ => None,
                    };
                    send_body(side, k, Dir::Resp, spec.resp.clone(), ss, log.clone(), cancel).await;
                }
            }
            Err(e) => log.push(side, k, Dir::Resp, true, Ev::Err(format!("send_response: {}", err_text(&e)))),
        }
        if early {
            // SendResponse and SendStream are gone now, the RecvStream went first: no handle is left
            drop(respond);
            log.push(side, k, Dir::Resp, true, Ev::Dropped);
        }
    });
    if let Some(body_rs) = body_rs {
        recv_body(side, k, Dir::Req, body_rs, spec.s_recv.clone(), log).await;
    }
}

// ---------------------------------------------------------------------------------------------
// assembling one execution

pub struct T1 {
    pub sh: Sh,
    pub exec: Exec,
    pub log: Log,
    pub mon: WireMon,
    pub scenario: Scenario,
}

pub fn client_builder(cfg: &Cfg) -> client::Builder {
    let mut b = client::Builder::new();
    if let Some(w) = cfg.c_stream_window {
        b.initial_window_size(w);
    }
    if let Some(w) = cfg.c_conn_window {
        b.initial_connection_window_size(w);
    }
    if let Some(n) = cfg.c_max_send_buffer {
        b.max_send_buffer_size(n);
    }
    if let Some(n) = cfg.c_max_frame {
        b.max_frame_size(n);
    }
    if let Some(n) = cfg.c_initial_max_send_streams {
        b.initial_max_send_streams(n);
    }
    if let Some(n) = cfg.c_header_table_size {
        b.header_table_size(n);
    }
    if let Some(n) = cfg.initial_stream_id {
        b.initial_stream_id(n);
    }
    if let Some(e) = cfg.c_enable_push {
        b.enable_push(e);
    }
    b.reset_stream_duration(if cfg.reset_expire_now { Duration::from_secs(0) } else { Duration::from_secs(3600) });
    b
}

pub fn server_builder(cfg: &Cfg) -> server::Builder {
    let mut b = server::Builder::new();
    if let Some(w) = cfg.s_stream_window {
        b.initial_window_size(w);
    }
    if let Some(w) = cfg.s_conn_window {
        b.initial_connection_window_size(w);
    }
    if let Some(n) = cfg.s_max_send_buffer {
        b.max_send_buffer_size(n);
    }
    if let Some(n) = cfg.s_max_frame {
        b.max_frame_size(n);
    }
    if let Some(n) = cfg.s_max_concurrent {
        b.max_concurrent_streams(n);
    }
    if let Some(n) = cfg.s_header_table_size {
        b.header_table_size(n);
    }
    b.reset_stream_duration(if cfg.reset_expire_now { Duration::from_secs(0) } else { Duration::from_secs(3600) });
    b
}

impl T1 {
    pub fn new(sc: &Scenario, prefix: Vec<u32>, pol: [IoPolicy; 2]) -> T1 {
        let sh = new_shared(prefix);
        {
            let mut s = sh.lock().unwrap();
            s.policy = pol;
            s.policy[0].vectored = sc.cfg.vectored;
            s.policy[1].vectored = sc.cfg.vectored;
        }
        let exec = Exec::new(sh.clone());
        let log = Log(Default::default(), Some(sh.clone()));
        let spawner = exec.spawner.clone();
        // client connection task
        {
            let io = SimIo { sh: sh.clone(), side: Side::Client };
            let b = client_builder(&sc.cfg);
            let log = log.clone();
            let sp = spawner.clone();
            let streams = sc.streams.clone();
            let keep = sc.cfg.keep_send_request;
            let ping = sc.cfg.ping;
            let c_set_window = sc.cfg.c_set_window;
            let c_drop_conn = sc.cfg.c_drop_conn;
            let parked_reset = sc.cfg.c_parked_reset_then_ready;
            let probe = sc.cfg.probe;
            let sh_c = sh.clone();
            spawner.spawn("connC", async move {
                let (sr, mut conn) = match b.handshake::<_, Bytes>(io).await {
                    Ok(x) => x,
                    Err(e) => {
                        log.conn(Side::Client, format!("handshake: {}", err_text(&e)));
                        return;
                    }
                };
                if let Some(w) = c_set_window {
                    if let Err(e) = conn.set_initial_window_size(w) {
                        log.conn(Side::Client, format!("set_initial_window_size: {}", err_text(&e)));
                    }
                }
                for (k, s) in streams.into_iter().enumerate() {
                    sp.spawn(&format!("c{}", k), client_stream(k, s, sr.clone(), log.clone(), sp.clone()));
                }
                if parked_reset {
                    let mut sr2 = sr.clone();
                    let log = log.clone();
                    sp.spawn("c-parked", async move {
                        let k = usize::MAX - 1;
                        if let Err(e) = poll_fn(|cx| sr2.poll_ready(cx)).await {
                            log.push(Side::Client, k, Dir::Req, true, Ev::Err(format!("poll_ready: {}", err_text(&e))));
                            return;
                        }
                        match sr2.send_request(build_request(90, &MsgSpec::simple(&[1]), ""), false) {
                            Ok((rf, mut ss)) => {
                                ss.send_reset(Reason::CANCEL);
                                log.push(Side::Client, k, Dir::Req, true, Ev::Reset(8));
                                drop(rf);
                                let r = poll_fn(|cx| sr2.poll_ready(cx)).await;
                                log.push(Side::Client, k, Dir::Req, true, match r {
                                    Ok(()) => Ev::Done,
                                    Err(e) => Ev::Err(format!("poll_ready after reset: {}", err_text(&e))),
                                });
                                drop(ss);
                            }
                            Err(e) => log.push(Side::Client, k, Dir::Req, true, Ev::Err(format!("send_request: {}", err_text(&e)))),
                        }
                    });
                }
                if ping {
                    if let Some(mut pp) = conn.ping_pong() {
                        let log = log.clone();
                        sp.spawn("c-ping", async move {
                            match pp.send_ping(h2::Ping::opaque()) {
                                Ok(()) => match poll_fn(|cx| pp.poll_pong(cx)).await {
                                    Ok(_) => log.push(Side::Client, usize::MAX, Dir::Req, false, Ev::Done),
                                    Err(e) => log.conn(Side::Client, format!("pong: {}", err_text(&e))),
                                },
                                Err(e) => log.conn(Side::Client, format!("send_ping: {}", err_text(&e))),
                            }
                        });
                    }
                }
                let keeper = if probe {
                    sh_c.lock().unwrap().keeper = Some(Box::new(sr));
                    None
                } else if keep {
                    Some(sr)
                } else {
                    drop(sr);
                    None
                };
                let r = poll_fn(|cx| {
                    if c_drop_conn && sh_c.lock().unwrap().choose(tag::FAULT, 2) == 1 {
                        return Poll::Ready(None);
                    }
                    let p = Pin::new(&mut conn).poll(cx).map(Some);
                    if probe && p.is_pending() && sh_c.lock().unwrap().want_snaps {
                        let s = conn.verif_snapshot();
                        sh_c.lock().unwrap().snaps[0] = Some(s);
                    }
                    p
                })
                .await;
                log.conn(Side::Client, match r {
                    Some(Ok(())) => "conn: ok".to_string(),
                    Some(Err(e)) => format!("conn: {}", err_text(&e)),
                    None => "conn: dropped by the application".to_string(),
                });
                drop(conn);
                drop(keeper);
            });
        }
        // server connection task
        {
            let io = SimIo { sh: sh.clone(), side: Side::Server };
            let b = server_builder(&sc.cfg);
            let log = log.clone();
            let sp = spawner.clone();
            let streams = sc.streams.clone();
            let graceful_after = sc.cfg.graceful_after;
            let s_set_window = sc.cfg.s_set_window;
            let s_target_window = sc.cfg.s_target_window;
            let s_drop_conn = sc.cfg.s_drop_conn;
            let abrupt_after = sc.cfg.abrupt_after;
            let probe = sc.cfg.probe;
            let sh_s = sh.clone();
            spawner.spawn("connS", async move {
                let mut conn = match b.handshake::<_, Bytes>(io).await {
                    Ok(c) => c,
                    Err(e) => {
                        log.conn(Side::Server, format!("handshake: {}", err_text(&e)));
                        return;
                    }
                };
                let mut accepted = 0usize;
                loop {
                    let next = poll_fn(|cx| {
                        if s_drop_conn && sh_s.lock().unwrap().choose(tag::FAULT, 2) == 1 {
                            return Poll::Ready(None);
                        }
                        let p = conn.poll_accept(cx).map(Some);
                        if probe && p.is_pending() && sh_s.lock().unwrap().want_snaps {
                            let s = conn.verif_snapshot();
                            sh_s.lock().unwrap().snaps[1] = Some(s);
                        }
                        p
                    })
                    .await;
                    let Some(next) = next else {
                        log.conn(Side::Server, "conn: dropped by the application".to_string());
                        break;
                    };
                    match next {
                        Some(Ok((req, respond))) => {
                            accepted += 1;
                            if accepted == 1 {
                                if let Some(w) = s_set_window {
                                    if let Err(e) = conn.set_initial_window_size(w) {
                                        log.conn(Side::Server, format!("set_initial_window_size: {}", err_text(&e)));
                                    }
                                }
                                if let Some(w) = s_target_window {
                                    conn.set_target_window_size(w);
                                }
                            }
                            let path = req.uri().path().trim_start_matches('/').to_string();
                            let k: usize = path.parse().unwrap_or(usize::MAX);
                            if k < streams.len() {
                                sp.spawn(&format!("s{}", k), server_stream(k, streams[k].clone(), req, respond, log.clone(), sp.clone()));
                            } else {
                                log.conn(Side::Server, format!("accepted unknown path {}", path));
                            }
                            if graceful_after == Some(accepted) {
                                conn.graceful_shutdown();
                            }
                            if let Some((n, code)) = abrupt_after {
                                if n == accepted {
                                    conn.abrupt_shutdown(h2::Reason::from(code));
                                }
                            }
                        }
                        Some(Err(e)) => {
                            log.conn(Side::Server, format!("conn: {}", err_text(&e)));
                            break;
                        }
                        None => {
                            log.conn(Side::Server, "conn: ok".to_string());
                            break;
                        }
                    }
                }
            });
        }
        T1 { sh, exec, log, mon: WireMon::new(), scenario: sc.clone() }
    }

    pub fn run(&mut self, horizon: u64) -> RunEnd {
        let r = self.exec.run(horizon);
        let s = self.sh.lock().unwrap();
        self.mon.catch_up(&s.iolog);
        r
    }
}

/// horizon proportional to the work in the scenario
pub fn horizon_for(sc: &Scenario) -> u64 {
    let mut bytes = 0usize;
    let mut ops = 0usize;
    for s in &sc.streams {
        for m in [Some(&s.req), Some(&s.resp), s.push.as_ref()].into_iter().flatten() {
            bytes += m.total() + 60_000 * matches!(m.head, HeadKind::Big20k | HeadKind::Big40k) as usize;
            ops += m.chunks.len() + 6 + m.interim as usize;
        }
    }
    let min_window = [sc.cfg.c_stream_window, sc.cfg.s_stream_window, sc.cfg.c_conn_window, sc.cfg.s_conn_window].iter().flatten().min().copied().unwrap_or(65535) as usize;
    let per_byte_steps = if min_window < 64 { 12 * bytes / min_window.max(1) } else { bytes / 50 };
    (2000 + 200 * ops + per_byte_steps * 4) as u64
}
