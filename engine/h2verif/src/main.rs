#![allow(dead_code, unused_mut)]
mod c01;
mod c03;
mod c05;
mod c07;
mod c08;
mod c09;
mod c10;
mod c11;
mod c12;
mod c13;
mod c14;
mod c16;
mod c18;
mod c15;
mod c19;
mod c20;
mod codes;
mod common;
mod explore;
mod fill;
mod gen;
mod monitor;
mod scen;
mod sim;
mod t1props;
mod t2;
mod x2;
mod selftest;

use common::*;
use std::time::Instant;

fn usage() -> ! {
    eprintln!("usage: h2verif check <ID> <quick|thorough> | replay <file> | selftest");
    std::process::exit(2)
}

fn main() {
    let args: Vec<String> = std::env::args().collect();
    if args.len() < 2 {
        usage();
    }
    // keep panics of the subject quiet unless asked: they are caught and reported by the oracles
    if std::env::var("VERIF_PANIC_TRACE").is_err() {
        std::panic::set_hook(Box::new(|_| {}));
    }
    match args[1].as_str() {
        "gen" => {
            let t: usize = args.get(2).and_then(|x| x.parse().ok()).unwrap_or(2);
            let t0 = std::time::Instant::now();
            let g = gen::generated(t);
            println!("{}-wise covering set: {} scenarios in {:.2}s over {:?}", t, g.len(), t0.elapsed().as_secs_f64(), gen::dims_description());
            for s in g.iter().take(8) {
                println!("  {}", s.name);
            }
        }
        "selftest" => {
            std::panic::set_hook(Box::new(|i| eprintln!("{}", i)));
            std::process::exit(selftest::run());
        }
        "check" => {
            if args.len() < 4 {
                usage();
            }
            let tier = match args[3].as_str() {
                "quick" => Tier::Quick,
                "thorough" => Tier::Thorough,
                _ => usage(),
            };
            let seed = std::env::var("VERIF_SEED").ok().and_then(|s| s.parse().ok()).unwrap_or(0u64);
            let ctx = Ctx { prop: args[2].clone(), tier, seed, start: Instant::now() };
            let out = match args[2].as_str() {
                "C01" => c01::run(&ctx),
                "C02" => {
                    // X1 on T1 with half of the budget, then the explicit-state sender model on T2
                    let mut o = common::with_budget_scale(0.5, || t1props::run_c02(&ctx));
                    o.absorb(c16::run(&ctx, "C02"));
                    o
                }
                "C14" => c14::run(&ctx),
                "C18" => c18::run(&ctx),
                "C07" => c07::run(&ctx),
                "C15" => c15::run(&ctx),
                "C19" => c19::run(&ctx),
                "C20" => c20::run(&ctx),
                "C16" => {
                    let mut o = c16::run(&ctx, "C16");
                    o.set("rule", serde_json::json!("X2 on T2: breadth-first search (iterative deepening, canonical-digest de-duplication) over the real client sending on two streams against a scripted peer; events: reserve_capacity / send_data / end / reset / drop / poll_capacity per stream, peer WINDOW_UPDATE (connection, stream), SETTINGS INITIAL_WINDOW_SIZE up and down, RST_STREAM, connection polls with open / budgeted / blocked writes. In every state capacity(s) <= wire credit of s minus queued, sum of capacities <= connection credit, poll_capacity never Ok(0); from every new state the epilogue checks that the largest capacity is usable without a further grant, that free connection capacity has reached streams asking for more, and that no capacity waiter was left unwoken"));
                    o.assume("alphabet and size values listed under coverage.alphabet; histories deeper than the completed depth are not covered");
                    o
                }
                "C03" => c03::run(&ctx),
                "C04" => t1props::run_c04(&ctx),
                "C05" => c05::run(&ctx),
                "C06" => t1props::run_c06(&ctx),
                "C17" => t1props::run_c17(&ctx),
                "C08" => c08::run(&ctx),
                "C09" => c09::run(&ctx),
                "C10" => c10::run(&ctx),
                "C11" => c11::run(&ctx),
                "C12" => c12::run(&ctx),
                "C13" => c13::run(&ctx),
                _ => {
                    eprintln!("unknown property {}", args[2]);
                    std::process::exit(2);
                }
            };
            std::process::exit(finish(&ctx, out));
        }
        "replay" => {
            if args.len() < 3 {
                usage();
            }
            let txt = std::fs::read_to_string(&args[2]).expect("cannot read replay file");
            let v: serde_json::Value = serde_json::from_str(&txt).expect("replay file is not JSON");
            let h = v["harness"].as_str().unwrap_or("").to_string();
            println!("replaying {} (property {}, rule {})", h, v["property"], v["rule"]);
            let violated = if h == "c17.fill" || h == "c15.fill" || h == "c19.fill" {
                fill::replay(&v).unwrap_or(false)
            } else if h == "c15.t1" {
                c15::replay_t1(&v)
            } else if h == "c19.t1" {
                c19::replay_t1(&v)
            } else if h == "pingloom" || h.starts_with("x2.threads") {
                c20::replay(&v).unwrap_or(false)
            } else if h == "c07.t1" {
                c07::replay_c07(&v)
            } else if h.starts_with("c11.") {
                c11::replay(&v)
            } else if h.starts_with("x2.client-limit") || h.starts_with("x2.server-limit") || h.starts_with("x2.server-push-limit") || h == "c05.fill" {
                c05::replay(&v).unwrap_or(false)
            } else if h.starts_with("x2.hostile") || h == "c18.directed" {
                c18::replay(&v).unwrap_or(false)
            } else if h.starts_with("x2.server-shutdown") || h.starts_with("x2.client-goaway") {
                c15::replay(&v).unwrap_or(false)
            } else if h.starts_with("x2.life") || h.starts_with("x2.server-life") || h.starts_with("x2.push-life") {
                c19::replay(&v).unwrap_or(false)
            } else if h.starts_with("x2.acks") || h == "c14.fill" || h == "c14.table" {
                c14::replay(&v).unwrap_or(false)
            } else if h.starts_with("x2.receiver") || h == "c03.fill" {
                c03::replay(&v).unwrap_or(false)
            } else if h.starts_with("x2.sender") {
                let prop: &'static str = if v["property"].as_str() == Some("C02") { "C02" } else { "C16" };
                c16::replay(&v, prop).unwrap_or(false)
            } else if h.starts_with("c13.") {
                c13::replay(&v)
            } else if h.starts_with("c08.") {
                c08::replay(&v)
            } else if h == "c09.pair" {
                c09::replay(&v)
            } else if h.starts_with("c12.") {
                c12::replay(&v)
            } else if h.starts_with("c10.") {
                c10::replay(&v)
            } else if h == "c01.t1" {
                c01::replay_c01(&v)
            } else if h == "c17.code" {
                codes::replay(&v)
            } else if let Some(r) = t1props::replay_t1(&v) {
                r
            } else {
                eprintln!("unknown harness {}", h);
                std::process::exit(2);
            };
            println!("{}", if violated { "=> violation reproduced" } else { "=> no violation on this tree" });
            std::process::exit(if violated { 1 } else { 0 });
        }
        _ => usage(),
    }
}
