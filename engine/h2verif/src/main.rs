#![allow(dead_code, unused_mut)]
mod c01;
mod c08;
mod c09;
mod c10;
mod c11;
mod c12;
mod c13;
mod codes;
mod common;
mod explore;
mod monitor;
mod scen;
mod sim;
mod t1props;
mod t2;
mod selftest;

use common::*;
use std::time::Instant;

fn usage() -> ! {
    eprintln!("usage: h2verif check <ID> <quick|thorough> | replay <file> | selftest");
    std::process::exit(2)
}

fn main() {
    let args: Vec<String> = std::env::args().collect();
    if args.len() < 2 {
        usage();
    }
    // keep panics of the subject quiet unless asked: they are caught and reported by the oracles
    if std::env::var("VERIF_PANIC_TRACE").is_err() {
        std::panic::set_hook(Box::new(|_| {}));
    }
    match args[1].as_str() {
        "selftest" => {
            std::panic::set_hook(Box::new(|i| eprintln!("{}", i)));
            std::process::exit(selftest::run());
        }
        "check" => {
            if args.len() < 4 {
                usage();
            }
            let tier = match args[3].as_str() {
                "quick" => Tier::Quick,
                "thorough" => Tier::Thorough,
                _ => usage(),
            };
            let seed = std::env::var("VERIF_SEED").ok().and_then(|s| s.parse().ok()).unwrap_or(0u64);
            let ctx = Ctx { prop: args[2].clone(), tier, seed, start: Instant::now() };
            let out = match args[2].as_str() {
                "C01" => c01::run(&ctx),
                "C02" => t1props::run_c02(&ctx),
                "C04" => t1props::run_c04(&ctx),
                "C06" => t1props::run_c06(&ctx),
                "C17" => t1props::run_c17(&ctx),
                "C08" => c08::run(&ctx),
                "C09" => c09::run(&ctx),
                "C10" => c10::run(&ctx),
                "C11" => c11::run(&ctx),
                "C12" => c12::run(&ctx),
                "C13" => c13::run(&ctx),
                _ => {
                    eprintln!("unknown property {}", args[2]);
                    std::process::exit(2);
                }
            };
            std::process::exit(finish(&ctx, out));
        }
        "replay" => {
            if args.len() < 3 {
                usage();
            }
            let txt = std::fs::read_to_string(&args[2]).expect("cannot read replay file");
            let v: serde_json::Value = serde_json::from_str(&txt).expect("replay file is not JSON");
            let h = v["harness"].as_str().unwrap_or("").to_string();
            println!("replaying {} (property {}, rule {})", h, v["property"], v["rule"]);
            let violated = if h.starts_with("c11.") {
                c11::replay(&v)
            } else if h.starts_with("c13.") {
                c13::replay(&v)
            } else if h.starts_with("c08.") {
                c08::replay(&v)
            } else if h == "c09.pair" {
                c09::replay(&v)
            } else if h.starts_with("c12.") {
                c12::replay(&v)
            } else if h.starts_with("c10.") {
                c10::replay(&v)
            } else if h == "c01.t1" {
                c01::replay_c01(&v)
            } else if h == "c17.code" {
                codes::replay(&v)
            } else if let Some(r) = t1props::replay_t1(&v) {
                r
            } else {
                eprintln!("unknown harness {}", h);
                std::process::exit(2);
            };
            println!("{}", if violated { "=> violation reproduced" } else { "=> no violation on this tree" });
            std::process::exit(if violated { 1 } else { 0 });
        }
        _ => usage(),
    }
}
