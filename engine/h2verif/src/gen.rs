//! Systematically generated T1 scenarios: a covering array over the scenario dimensions (every pair - thorough: every
//! triple - of dimension values occurs in at least one scenario), built by a deterministic greedy construction. This is a
//! combinatorial design, not a sample: the set is a function of the dimension table alone.

use crate::scen::*;

const DIMS: &[(&str, usize)] = &[
    ("streams", 2),
    ("req-body", 5),
    ("resp-body", 5),
    ("windows", 5),
    ("end", 3),
    ("head", 3),
    ("recv", 2),
    ("cancel", 6),
    ("send-buffer", 2),
    ("max-concurrent", 2),
    ("push", 2),
    ("frame-size", 2),
    ("interim", 2),
];

/// greedy t-wise covering array (t = 2 or 3) over DIMS; rows are value indices
pub fn covering_rows(t: usize) -> Vec<Vec<usize>> {
    let n = DIMS.len();
    // all t-subsets of dimensions with all value combinations, as a set of uncovered tuples
    let mut uncovered: std::collections::BTreeSet<Vec<(usize, usize)>> = Default::default();
    let mut subsets: Vec<Vec<usize>> = vec![];
    fn comb(n: usize, t: usize, start: usize, cur: &mut Vec<usize>, out: &mut Vec<Vec<usize>>) {
        if cur.len() == t {
            out.push(cur.clone());
            return;
        }
        for i in start..n {
            cur.push(i);
            comb(n, t, i + 1, cur, out);
            cur.pop();
        }
    }
    comb(n, t, 0, &mut vec![], &mut subsets);
    fn tuples(sub: &[usize], k: usize, cur: &mut Vec<(usize, usize)>, out: &mut std::collections::BTreeSet<Vec<(usize, usize)>>) {
        if k == sub.len() {
            out.insert(cur.clone());
            return;
        }
        for v in 0..DIMS[sub[k]].1 {
            cur.push((sub[k], v));
            tuples(sub, k + 1, cur, out);
            cur.pop();
        }
    }
    for sub in &subsets {
        tuples(sub, 0, &mut vec![], &mut uncovered);
    }
    let mut rows = vec![];
    while let Some(seed) = uncovered.iter().next().cloned() {
        let mut row: Vec<Option<usize>> = vec![None; n];
        for (d, v) in &seed {
            row[*d] = Some(*v);
        }
        for d in 0..n {
            if row[d].is_some() {
                continue;
            }
            // the value that covers most still-uncovered tuples together with the dimensions fixed so far
            let mut best = (0usize, 0usize);
            for v in 0..DIMS[d].1 {
                row[d] = Some(v);
                let gain = uncovered.iter().filter(|tup| tup.iter().any(|(dd, _)| *dd == d) && tup.iter().all(|(dd, vv)| row[*dd] == Some(*vv))).count();
                if gain > best.1 {
                    best = (v, gain);
                }
            }
            row[d] = Some(best.0);
        }
        let row: Vec<usize> = row.into_iter().map(|x| x.unwrap()).collect();
        uncovered.retain(|tup| !tup.iter().all(|(d, v)| row[*d] == *v));
        rows.push(row);
    }
    rows
}

fn body(i: usize, small_windows: bool) -> Vec<usize> {
    let b: Vec<usize> = match i {
        0 => vec![],
        1 => vec![5],
        2 => vec![20, 20],
        3 => vec![16384, 1],
        _ => vec![40_000],
    };
    // a window of 1 or 7 octets with tens of kilobytes is thousands of frames: the small-window mechanisms are the same with 40
    if small_windows && b.iter().sum::<usize>() > 100 {
        vec![20, 20]
    } else {
        b
    }
}

pub fn scenario_of(row: &[usize]) -> Scenario {
    let small = row[3] != 0;
    let end = |chunks: &Vec<usize>| {
        if chunks.is_empty() {
            EndKind::OnHead
        } else {
            match row[4] {
                0 => EndKind::OnLastData,
                1 => EndKind::EmptyData,
                _ => EndKind::Trailers,
            }
        }
    };
    let head = match row[5] {
        0 => HeadKind::Tiny,
        1 => HeadKind::Repeated,
        _ => HeadKind::Big20k,
    };
    let rb = body(row[1], small);
    let sb = body(row[2], small);
    let use_capacity = row[3] == 2;
    let req = MsgSpec { head: head.clone(), interim: 0, end: end(&rb), chunks: rb, use_capacity };
    let resp = MsgSpec { head: HeadKind::Tiny, interim: row[12] as u8, end: end(&sb), chunks: sb, use_capacity };
    let recv = if row[6] == 0 { RecvMode::Immediate } else { RecvMode::Late };
    let cancel = match row[7] {
        0 => Cancel::None,
        1 => Cancel::ClientReset { after_chunks: 1, code: 8 },
        2 => Cancel::ServerReset { after_chunks: 1, code: 2 },
        3 => Cancel::ClientDrop { after_chunks: 0 },
        4 => Cancel::ServerDrop,
        _ => Cancel::ServerEarlyResponse,
    };
    let push = if row[10] == 1 { Some(MsgSpec::simple(&[3])) } else { None };
    let mut streams = vec![StreamSpec { push, c_recv: recv.clone(), s_recv: recv, cancel, ..StreamSpec::new(req, resp) }];
    if row[0] == 1 {
        streams.push(StreamSpec::new(MsgSpec::simple(&[]), MsgSpec::simple(&[3])));
    }
    let mut cfg = Cfg::default();
    match row[3] {
        1 => {
            cfg.c_stream_window = Some(7);
            cfg.s_stream_window = Some(7);
        }
        2 => {
            cfg.c_stream_window = Some(1);
            cfg.s_stream_window = Some(1);
        }
        // asymmetric: only one side advertises a small window (a mix-up of "ours" and "theirs" shows only then)
        3 => cfg.c_stream_window = Some(7),
        4 => cfg.s_stream_window = Some(7),
        _ => {}
    }
    if row[8] == 1 {
        cfg.c_max_send_buffer = Some(1);
        cfg.s_max_send_buffer = Some(1);
    }
    if row[9] == 1 {
        cfg.s_max_concurrent = Some(1);
        cfg.c_initial_max_send_streams = Some(1);
    }
    if row[11] == 1 {
        cfg.c_max_frame = Some(16385);
        cfg.s_max_frame = Some(16385);
    }
    let name = format!("gen-{}", row.iter().map(|v| v.to_string()).collect::<Vec<_>>().join(""));
    Scenario { name, cfg, streams }
}

pub fn dims_description() -> Vec<String> {
    DIMS.iter().map(|(n, k)| format!("{}:{}", n, k)).collect()
}

/// pairwise (t = 2) or three-wise (t = 3) covering set of scenarios
pub fn generated(t: usize) -> Vec<Scenario> {
    let mut seen = std::collections::HashSet::new();
    covering_rows(t).iter().map(|r| scenario_of(r)).filter(|s| seen.insert((s.cfg.clone(), s.streams.clone()))).collect()
}

/// Numeric boundary families (not a covering array: one scenario per value): body sizes around every size the send path
/// treats specially, windows around the body size, reservations around the send-buffer limit.
pub fn boundary_scenarios(quick: bool) -> Vec<Scenario> {
    let mut v = vec![];
    let m = |c: &[usize]| MsgSpec::simple(c);
    // chain thresholds (256 vectored / 1024), frame size, two frames, the initial window (65535) and just beyond
    let mut sizes: Vec<usize> = vec![];
    for centre in [256usize, 1024, 16384, 32768, 65535] {
        for d in [-2i64, -1, 0, 1, 2] {
            sizes.push((centre as i64 + d) as usize);
        }
    }
    if quick {
        sizes.retain(|n| *n < 20_000 || [65534usize, 65535, 65536].contains(n));
    }
    for &n in &sizes {
        for vectored in [false, true] {
            // one send_data call of n octets in each direction
            v.push(Scenario { name: format!("size-{}{}", n, if vectored { "-vectored" } else { "" }), cfg: Cfg { vectored, ..Cfg::default() }, streams: vec![StreamSpec::new(m(&[n]), m(&[n]))] });
        }
    }
    // windows one below / at / one above the body size (both directions), with and without the capacity API
    for (body, windows) in [(20usize, [19u32, 20, 21]), (1025, [1024, 1025, 1026])] {
        for w in windows {
            for cap in [false, true] {
                v.push(Scenario {
                    name: format!("window-{}-body-{}{}", w, body, if cap { "-capacity" } else { "" }),
                    cfg: Cfg { c_stream_window: Some(w), s_stream_window: Some(w), ..Cfg::default() },
                    streams: vec![StreamSpec::new(MsgSpec { use_capacity: cap, ..m(&[body]) }, MsgSpec { use_capacity: cap, ..m(&[body, 1]) })],
                });
            }
        }
    }
    // the body uses the window up exactly and the stream then ends with a frame that needs no window (empty DATA with
    // END_STREAM, trailers), queued together with the body
    for (w, body) in [(Some(20u32), 20usize), (Some(10), 10), (None, 65_535)] {
        for end in [EndKind::EmptyData, EndKind::Trailers] {
            for chunks in [vec![body], vec![body / 2, body - body / 2]] {
                if quick && body > 1000 && chunks.len() > 1 {
                    continue;
                }
                let msg = MsgSpec { end: end.clone(), ..m(&chunks) };
                v.push(Scenario {
                    name: format!("window-exactly-used-{}-{:?}-{}", body, end, chunks.len()),
                    cfg: Cfg { c_stream_window: w, s_stream_window: w, ..Cfg::default() },
                    streams: vec![StreamSpec::new(msg.clone(), msg)],
                });
            }
        }
    }
    // reservations of 1..=12 octets through a send buffer of 5 (multiples, non-multiples, below, above the limit)
    for n in 1usize..=12 {
        v.push(Scenario {
            name: format!("send-buffer-5-reserve-{}", n),
            cfg: Cfg { c_max_send_buffer: Some(5), s_max_send_buffer: Some(5), ..Cfg::default() },
            streams: vec![StreamSpec::new(MsgSpec { use_capacity: true, ..m(&[n]) }, MsgSpec { use_capacity: true, ..m(&[n, 3]) })],
        });
    }
    v
}
