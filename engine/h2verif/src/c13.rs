//! C13 — malformed HTTP messages are neither delivered nor generated (T2 + API, X3 over a header-list grammar).

use crate::common::*;
use crate::sim::*;
use crate::t2::*;
use bytes::Bytes;
use h2::{client, server};
use h2wire::frame::{self as wf, Parsed};
use h2wire::hpack as rh;
use http::{HeaderMap, HeaderName, HeaderValue, Request, Response};
use serde_json::{json, Value};
use std::collections::BTreeMap;
use std::future::Future;
use std::pin::Pin;
use std::sync::atomic::{AtomicU64, Ordering};
use std::sync::Mutex;
use std::task::{Context, Poll};

pub type Fields = Vec<(String, String)>;

#[derive(Clone, Copy, Debug, PartialEq, Eq)]
pub enum Kind {
    Request { ext_connect_enabled: bool },
    Response,
    Interim,
    PushRequest,
    Trailers,
}

/// RFC 9113 section 8 (and RFC 8441) validity of a decoded field list. Returns the reason if malformed.
/// Cases on which RFC 9113 gives no clear verdict: neither delivery nor rejection is judged.
pub fn unspecified(kind: Kind, f: &Fields) -> bool {
    // an empty :authority with an http(s) scheme: "invalid value" is arguable, and http::Uri cannot represent it
    if f.iter().any(|(n, v)| n == ":authority" && v.is_empty()) {
        return true;
    }
    // 101 was removed from HTTP/2 (RFC 9113 8.6) but no MUST tells the receiver what to do with it
    if matches!(kind, Kind::Response | Kind::Interim) && f.iter().any(|(n, v)| n == ":status" && v == "101") {
        return true;
    }
    false
}

pub fn malformed(kind: Kind, f: &Fields) -> Option<String> {
    let mut seen_regular = false;
    let mut pseudo: BTreeMap<&str, Vec<&str>> = BTreeMap::new();
    for (n, v) in f {
        if n.is_empty() {
            return Some("empty field name".into());
        }
        if n.bytes().any(|b| b.is_ascii_uppercase()) {
            return Some(format!("uppercase field name {}", n));
        }
        if let Some(p) = n.strip_prefix(':') {
            if seen_regular {
                return Some(format!("pseudo-header {} after a regular field", n));
            }
            if kind == Kind::Trailers {
                return Some(format!("pseudo-header {} in trailers", n));
            }
            let allowed: &[&str] = match kind {
                Kind::Request { .. } | Kind::PushRequest => &["method", "scheme", "authority", "path", "protocol"],
                Kind::Response | Kind::Interim => &["status"],
                Kind::Trailers => &[],
            };
            if !allowed.contains(&p) {
                return Some(format!("pseudo-header {} not allowed in this kind of message", n));
            }
            pseudo.entry(p).or_default().push(v);
        } else {
            seen_regular = true;
            match n.as_str() {
                "connection" | "proxy-connection" | "keep-alive" | "transfer-encoding" | "upgrade" => return Some(format!("connection-specific field {}", n)),
                "te" if v != "trailers" => return Some(format!("te: {}", v)),
                _ => {}
            }
        }
    }
    for (p, vs) in &pseudo {
        if vs.len() > 1 {
            return Some(format!("duplicated pseudo-header :{}", p));
        }
    }
    let one = |p: &str| pseudo.get(p).map(|v| v[0]);
    match kind {
        Kind::Request { .. } | Kind::PushRequest => {
            let ext = if let Kind::Request { ext_connect_enabled } = kind { ext_connect_enabled } else { false };
            let Some(method) = one("method") else { return Some("missing :method".into()) };
            if method.is_empty() {
                return Some("empty :method".into());
            }
            if method == "CONNECT" && one("protocol").is_none() {
                if one("scheme").is_some() || one("path").is_some() {
                    return Some("CONNECT with :scheme or :path".into());
                }
                if one("authority").is_none() {
                    return Some("CONNECT without :authority".into());
                }
            } else {
                if one("protocol").is_some() {
                    if method != "CONNECT" {
                        return Some(":protocol without CONNECT".into());
                    }
                    if !ext {
                        return Some(":protocol although extended CONNECT is not enabled".into());
                    }
                }
                match one("scheme") {
                    None => return Some("missing :scheme".into()),
                    Some("") => return Some("empty :scheme".into()),
                    _ => {}
                }
                match one("path") {
                    None => return Some("missing :path".into()),
                    Some("") => return Some("empty :path".into()),
                    _ => {}
                }
            }
            if kind == Kind::PushRequest && !(method == "GET" || method == "HEAD") {
                return Some("promised request with a method that is not safe / cacheable".into());
            }
        }
        Kind::Response | Kind::Interim => {
            let Some(st) = one("status") else { return Some("missing :status".into()) };
            if st.len() != 3 || !st.bytes().all(|b| b.is_ascii_digit()) {
                return Some(format!("invalid :status {}", st));
            }
            let code: u16 = st.parse().unwrap();
            if kind == Kind::Interim && !(100..200).contains(&code) {
                return Some("not informational".into());
            }
        }
        _ => {}
    }
    // content-length syntax
    if let Err(e) = content_length(f) {
        return Some(e);
    }
    None
}

pub fn content_length(f: &Fields) -> Result<Option<u64>, String> {
    let mut val: Option<u64> = None;
    for (n, v) in f {
        if n == "content-length" {
            if v.is_empty() || !v.bytes().all(|b| b.is_ascii_digit()) {
                return Err(format!("content-length: {}", v));
            }
            let x: u64 = v.parse().map_err(|_| format!("content-length overflows: {}", v))?;
            if let Some(y) = val {
                if x != y {
                    return Err("differing content-length values".into());
                }
            }
            val = Some(x);
        }
    }
    Ok(val)
}

fn block_raw(f: &Fields) -> Vec<u8> {
    // literal without indexing, raw strings: lets us send names h2's own encoder could not produce (uppercase, unknown pseudo)
    let mut o = vec![];
    for (n, v) in f {
        o.extend(rh::rep_literal(rh::Lit::Without, 0, n.as_bytes(), v.as_bytes(), false, false));
    }
    o
}

/// How the header block *under test* travels: HPACK representation (0 = literal without indexing / raw strings, 1 = Huffman
/// strings, 2 = literal with incremental indexing, 3 = both) and an optional cut into HEADERS|PUSH_PROMISE + CONTINUATION.
/// Validity of a message must not depend on either.
#[derive(Clone, Copy, Debug, Default, PartialEq)]
pub struct WireVariant {
    pub enc: u8,
    pub split: Option<usize>,
}

thread_local! {
    static VARIANT: std::cell::Cell<WireVariant> = std::cell::Cell::new(WireVariant::default());
}

pub fn with_variant<T>(v: WireVariant, f: impl FnOnce() -> T) -> T {
    VARIANT.with(|c| c.set(v));
    let r = f();
    VARIANT.with(|c| c.set(WireVariant::default()));
    r
}

fn block_variant(f: &Fields) -> Vec<u8> {
    let v = VARIANT.with(|c| c.get());
    let mut o = vec![];
    for (n, val) in f {
        let huff = v.enc & 1 != 0;
        let kind = if v.enc & 2 != 0 { rh::Lit::Incremental } else { rh::Lit::Without };
        o.extend(rh::rep_literal(kind, 0, n.as_bytes(), val.as_bytes(), huff, huff));
    }
    o
}

/// the header block under test as HEADERS (or PUSH_PROMISE when `promised` is given) [+ CONTINUATION]
fn send_block(t: &mut T2, sid: u32, promised: Option<u32>, f: &Fields, eos: bool) {
    let v = VARIANT.with(|c| c.get());
    let block = block_variant(f);
    let cut = match v.split {
        Some(k) if k > 0 && k < block.len() => Some(k),
        _ => None,
    };
    let (first, eh) = match cut {
        Some(k) => (&block[..k], false),
        None => (&block[..], true),
    };
    match promised {
        Some(p) => t.peer_send(&wf::push_promise(sid, p, first, eh)),
        None => t.peer_send(&wf::headers(sid, first, eos, eh)),
    }
    if let Some(k) = cut {
        t.peer_send(&wf::continuation(sid, &block[k..], true));
    }
}

pub fn block_len_for(f: &Fields, enc: u8) -> usize {
    with_variant(WireVariant { enc, split: None }, || block_variant(f).len())
}

fn fs(v: &[(&str, &str)]) -> Fields {
    v.iter().map(|(a, b)| (a.to_string(), b.to_string())).collect()
}

// ---------------------------------------------------------------------------------------------
// grammar

#[derive(Clone, Debug)]
pub struct Mutation {
    pub label: String,
    pub apply: fn(&mut Fields, &str),
    pub arg: String,
}

fn mutations(pseudos: &[&str], wrong_dir: &str) -> Vec<Mutation> {
    let mut v: Vec<Mutation> = vec![];
    for p in pseudos {
        v.push(Mutation { label: format!("drop {}", p), apply: |f, a| f.retain(|(n, _)| n != a), arg: p.to_string() });
        v.push(Mutation {
            label: format!("duplicate {}", p),
            apply: |f, a| {
                if let Some(i) = f.iter().position(|(n, _)| n == a) {
                    let e = f[i].clone();
                    f.insert(i + 1, e);
                }
            },
            arg: p.to_string(),
        });
        v.push(Mutation {
            label: format!("empty {}", p),
            apply: |f, a| {
                for e in f.iter_mut() {
                    if e.0 == a {
                        e.1 = String::new();
                    }
                }
            },
            arg: p.to_string(),
        });
        v.push(Mutation {
            label: format!("{} after a regular field", p),
            apply: |f, a| {
                if let Some(i) = f.iter().position(|(n, _)| n == a) {
                    let e = f.remove(i);
                    f.push(("x-before".into(), "1".into()));
                    f.push(e);
                }
            },
            arg: p.to_string(),
        });
    }
    v.push(Mutation { label: format!("add {}", wrong_dir), apply: |f, a| f.insert(0, (a.split('=').next().unwrap().to_string(), a.split('=').nth(1).unwrap().to_string())), arg: wrong_dir.to_string() });
    v.push(Mutation { label: "add unknown pseudo :foo".into(), apply: |f, _| f.insert(0, (":foo".into(), "bar".into())), arg: String::new() });
    for (n, val) in [
        ("connection", "close"),
        ("keep-alive", "timeout=5"),
        ("proxy-connection", "keep-alive"),
        ("transfer-encoding", "chunked"),
        ("upgrade", "h2c"),
        ("te", "trailers"),
        ("te", "gzip"),
        ("X-Upper", "1"),
        ("x-ordinary", "fine"),
        ("content-length", "abc"),
        ("content-length", "99999999999999999999"),
        ("content-length", ""),
    ] {
        v.push(Mutation { label: format!("add {}: {}", n, val), apply: |f, a| f.push((a.split('=').next().unwrap().to_string(), a.splitn(2, '=').nth(1).unwrap().to_string())), arg: format!("{}={}", n, val) });
    }
    v.push(Mutation {
        label: "two differing content-length".into(),
        apply: |f, _| {
            f.push(("content-length".into(), "3".into()));
            f.push(("content-length".into(), "4".into()));
        },
        arg: String::new(),
    });
    v
}

#[derive(Clone, Debug)]
pub struct Case {
    pub label: String,
    pub fields: Fields,
    /// DATA frames following the head: (length, END_STREAM); empty = END_STREAM on the head
    pub data: Vec<(usize, bool)>,
}

fn with_mutations(base: &Fields, muts: &[Mutation], base_label: &str, pairs: bool) -> Vec<Case> {
    with_mutations_n(base, muts, base_label, if pairs { 2 } else { 1 })
}

/// the base message with every combination of 1..=n defects (applied in catalogue order)
fn with_mutations_n(base: &Fields, muts: &[Mutation], base_label: &str, n: usize) -> Vec<Case> {
    let mut out = vec![Case { label: base_label.to_string(), fields: base.clone(), data: vec![] }];
    fn rec(out: &mut Vec<Case>, muts: &[Mutation], from: usize, f: &Fields, label: &str, left: usize) {
        if left == 0 {
            return;
        }
        for i in from..muts.len() {
            let mut g = f.clone();
            (muts[i].apply)(&mut g, &muts[i].arg);
            let l = format!("{} / {}", label, muts[i].label);
            out.push(Case { label: l.clone(), fields: g.clone(), data: vec![] });
            rec(out, muts, i + 1, &g, &l, left - 1);
        }
    }
    rec(&mut out, muts, 0, base, base_label, n);
    out
}

pub fn request_cases_n(n: usize) -> Vec<Case> {
    let get = fs(&[(":method", "GET"), (":scheme", "http"), (":authority", "h.example"), (":path", "/")]);
    let muts = mutations(&[":method", ":scheme", ":authority", ":path"], ":status=200");
    with_mutations_n(&get, &muts, "GET", n)
}

pub fn response_cases_n(n: usize) -> Vec<Case> {
    let ok = fs(&[(":status", "200")]);
    let muts = mutations(&[":status"], ":path=/");
    with_mutations_n(&ok, &muts, "200", n)
}

fn body_variants(base: &Fields, label: &str, n: usize) -> Vec<Case> {
    let mut out = vec![];
    let mut lens: Vec<usize> = vec![0, 1, n.saturating_sub(1), n, n + 1];
    lens.dedup();
    for cl in [None, Some(n)] {
        let mut f = base.clone();
        if let Some(c) = cl {
            f.push(("content-length".into(), c.to_string()));
        }
        // one frame with END_STREAM, two frames, and END_STREAM on an empty third frame
        for &a in &lens {
            out.push(Case { label: format!("{} cl={:?} data=[{}eos]", label, cl, a), fields: f.clone(), data: vec![(a, true)] });
            for &b in &lens {
                out.push(Case { label: format!("{} cl={:?} data=[{},{}eos]", label, cl, a, b), fields: f.clone(), data: vec![(a, false), (b, true)] });
            }
            out.push(Case { label: format!("{} cl={:?} data=[{},0eos]", label, cl, a), fields: f.clone(), data: vec![(a, false), (0, true)] });
            out.push(Case { label: format!("{} cl={:?} data=[{},trailers]", label, cl, a), fields: f.clone(), data: vec![(a, false), (TRAILERS, true)] });
        }
        // END_STREAM on the head although a body was announced
        out.push(Case { label: format!("{} cl={:?} no data", label, cl), fields: f.clone(), data: vec![] });
    }
    out
}

pub fn request_cases(pairs: bool) -> Vec<Case> {
    let get = fs(&[(":method", "GET"), (":scheme", "http"), (":authority", "h.example"), (":path", "/")]);
    let muts = mutations(&[":method", ":scheme", ":authority", ":path"], ":status=200");
    let mut v = with_mutations(&get, &muts, "GET", pairs);
    let post = fs(&[(":method", "POST"), (":scheme", "https"), (":authority", "h.example"), (":path", "/p?q=1")]);
    v.extend(body_variants(&post, "POST", 3));
    for (label, f) in [
        ("OPTIONS *", fs(&[(":method", "OPTIONS"), (":scheme", "http"), (":authority", "h.example"), (":path", "*")])),
        ("CONNECT", fs(&[(":method", "CONNECT"), (":authority", "h.example:443")])),
        ("CONNECT with scheme", fs(&[(":method", "CONNECT"), (":scheme", "https"), (":authority", "h.example:443")])),
        ("CONNECT with path", fs(&[(":method", "CONNECT"), (":authority", "h.example:443"), (":path", "/")])),
        ("CONNECT without authority", fs(&[(":method", "CONNECT")])),
        ("extended CONNECT", fs(&[(":method", "CONNECT"), (":protocol", "websocket"), (":scheme", "https"), (":authority", "h.example"), (":path", "/chat")])),
        ("extended CONNECT without path", fs(&[(":method", "CONNECT"), (":protocol", "websocket"), (":scheme", "https"), (":authority", "h.example")])),
        (":protocol with GET", fs(&[(":method", "GET"), (":protocol", "websocket"), (":scheme", "https"), (":authority", "h.example"), (":path", "/chat")])),
        ("no authority", fs(&[(":method", "GET"), (":scheme", "http"), (":path", "/")])),
        ("host only", fs(&[(":method", "GET"), (":scheme", "http"), (":path", "/"), ("host", "h.example")])),
    ] {
        v.push(Case { label: label.to_string(), fields: f, data: vec![] });
    }
    v
}

pub fn response_cases(pairs: bool) -> Vec<Case> {
    let ok = fs(&[(":status", "200")]);
    let muts = mutations(&[":status"], ":path=/");
    let mut v = with_mutations(&ok, &muts, "200", pairs);
    v.extend(body_variants(&ok, "200", 3));
    for st in ["204", "304", "101", "99", "1000", "abc", "20", "2000"] {
        v.push(Case { label: format!("status {}", st), fields: fs(&[(":status", st)]), data: vec![] });
    }
    v.push(Case { label: "204 with content-length 5".into(), fields: fs(&[(":status", "204"), ("content-length", "5")]), data: vec![] });
    v.push(Case { label: "304 with content-length 5".into(), fields: fs(&[(":status", "304"), ("content-length", "5")]), data: vec![] });
    v
}

pub fn trailer_cases() -> Vec<Case> {
    let base = fs(&[("x-trailer", "t")]);
    let mut v = vec![Case { label: "trailers".into(), fields: base.clone(), data: vec![] }];
    for (n, val) in [(":status", "200"), (":path", "/"), (":foo", "x"), ("connection", "close"), ("te", "gzip"), ("transfer-encoding", "chunked"), ("X-Upper", "1"), ("te", "trailers"), ("content-length", "0")] {
        let mut f = base.clone();
        f.insert(0, (n.to_string(), val.to_string()));
        v.push(Case { label: format!("trailers with {}: {}", n, val), fields: f, data: vec![] });
        let mut g = base.clone();
        g.push((n.to_string(), val.to_string()));
        v.push(Case { label: format!("trailers ending with {}: {}", n, val), fields: g, data: vec![] });
    }
    v
}

// ---------------------------------------------------------------------------------------------
// running

pub struct CaseResult {
    pub vios: Vec<(String, String, String)>,
    pub verdict: String,
    pub transitions: u64,
}

fn wire_failed(t: &T2, sid: u32, frames_before: usize) -> bool {
    t.subject_frames()[frames_before..].iter().any(|f| match &f.parsed {
        Ok(Parsed::RstStream { sid: s, .. }) => *s == sid,
        Ok(Parsed::GoAway { code, .. }) => *code != 0,
        _ => false,
    })
}

fn read_body(b: &mut h2::RecvStream, panics: &mut Vec<String>) -> (usize, Result<bool, String>) {
    // returns (bytes, Ok(clean end incl. trailers ok) | Err(text))
    let flag = Flag::new(false);
    let w = waker_of(&flag);
    let mut cx = Context::from_waker(&w);
    let mut n = 0;
    loop {
        match guarded(panics, "poll_data", || b.poll_data(&mut cx)) {
            Some(Poll::Ready(Some(Ok(d)))) => {
                n += d.len();
                let _ = b.flow_control().release_capacity(d.len());
            }
            Some(Poll::Ready(Some(Err(e)))) => return (n, Err(crate::scen::err_text(&e))),
            Some(Poll::Ready(None)) => break,
            Some(Poll::Pending) => return (n, Ok(false)),
            None => return (n, Err("panic".into())),
        }
    }
    match guarded(panics, "poll_trailers", || b.poll_trailers(&mut cx)) {
        Some(Poll::Ready(Ok(_))) => (n, Ok(true)),
        Some(Poll::Ready(Err(e))) => (n, Err(crate::scen::err_text(&e))),
        Some(Poll::Pending) => (n, Ok(false)),
        None => (n, Err("panic".into())),
    }
}

/// a `(TRAILERS, true)` entry ends the message with a (valid) trailer section instead of END_STREAM on DATA
pub const TRAILERS: usize = usize::MAX;

fn send_data_frames(t: &mut T2, sid: u32, data: &[(usize, bool)]) {
    for (len, eos) in data {
        if *len == TRAILERS {
            t.peer_send(&wf::headers(sid, &block_raw(&fs(&[("x-trailer", "t")])), true, true));
        } else {
            t.peer_send(&wf::data(sid, &vec![b'd'; *len], *eos));
        }
    }
}

fn data_total(data: &[(usize, bool)]) -> usize {
    data.iter().filter(|(l, _)| *l != TRAILERS).map(|(l, _)| *l).sum()
}

/// what the RFC says about a head + DATA sequence: (head malformed reason, body mismatch)
fn expectation(kind: Kind, c: &Case, body_exempt: bool) -> (Option<String>, bool) {
    let mut head = malformed(kind, &c.fields);
    let mut body_bad = false;
    if head.is_none() && !body_exempt && c.data.is_empty() {
        if let Ok(Some(cl)) = content_length(&c.fields) {
            if cl != 0 {
                head = Some("END_STREAM on the head although content-length is not zero".into());
            }
        }
    }
    if head.is_none() && !body_exempt {
        if let Ok(Some(cl)) = content_length(&c.fields) {
            let total: usize = data_total(&c.data);
            if total as u64 != cl {
                body_bad = true;
            }
        }
    }
    (head, body_bad)
}

pub fn run_request_case(c: &Case, ext_connect: bool, verbose: bool) -> CaseResult {
    run_request_case_split(c, ext_connect, None, verbose)
}

/// `split`: cut the header block at this offset into HEADERS + CONTINUATION
pub fn run_request_case_split(c: &Case, ext_connect: bool, split: Option<usize>, verbose: bool) -> CaseResult {
    let mut sb = server::Builder::new();
    if ext_connect {
        sb.enable_connect_protocol();
    }
    let cfg = T2Cfg { role: Side::Server, peer_settings: vec![], client: None, server: Some(sb), policy: IoPolicy::default() };
    let mut t = T2::new(&cfg, vec![]);
    let frames_before = t.subject_frames().len();
    let eos_on_head = c.data.is_empty();
    if split.is_some() {
        let enc = VARIANT.with(|c| c.get()).enc;
        with_variant(WireVariant { enc, split }, || send_block(&mut t, 1, None, &c.fields, eos_on_head));
    } else {
        send_block(&mut t, 1, None, &c.fields, eos_on_head);
    }
    t.drive(60);
    send_data_frames(&mut t, 1, &c.data);
    t.drive(60);
    let (head_bad, body_bad) = expectation(Kind::Request { ext_connect_enabled: ext_connect }, c, false);
    let accepted = t.accepted.iter().position(|a| a.sid == 1);
    let mut vios = vec![];
    let mut panics = vec![];
    let failed_on_wire = wire_failed(&t, 1, frames_before);
    let key = c.label.clone();
    let mut verdict = String::new();
    match (&head_bad, accepted) {
        (Some(why), Some(_)) => {
            verdict = "malformed-delivered".into();
            vios.push(("C13.malformed-request-delivered".to_string(), sig_of(why), format!("request [{}] is malformed ({}) but accept() returned it: {:?}", c.label, why, t.accepted[0].req_head)));
        }
        (Some(why), None) => {
            verdict = "malformed-rejected".into();
            if !failed_on_wire {
                vios.push(("C13.malformed-not-failed".into(), sig_of(why), format!("request [{}] is malformed ({}); it was not delivered, but neither RST_STREAM nor GOAWAY was sent", c.label, why)));
            }
        }
        (None, None) => {
            verdict = "wellformed-rejected".into();
            vios.push(("C13.wellformed-request-rejected".into(), key_class(&c.label), format!("request [{}] is well-formed but was not delivered (connection {:?}, new frames {:?})", c.label, t.conn_result, t.subject_frames()[frames_before..].iter().map(|f| f.raw.short()).collect::<Vec<_>>())));
        }
        (None, Some(i)) => {
            // intact?
            let h = t.accepted[i].req_head.clone();
            let want_method = c.fields.iter().find(|(n, _)| n == ":method").map(|x| x.1.clone()).unwrap_or_default();
            if h.method != want_method {
                vios.push(("C13.request-altered".into(), "method".into(), format!("request [{}]: method delivered as {}", c.label, h.method)));
            }
            if let Some((_, p)) = c.fields.iter().find(|(n, _)| n == ":path") {
                if !h.uri.ends_with(p.as_str()) && !(p == "*" && h.uri == "*") {
                    vios.push(("C13.request-altered".into(), "path".into(), format!("request [{}]: uri delivered as {}", c.label, h.uri)));
                }
            }
            let regular: Vec<(String, Vec<u8>)> = c.fields.iter().filter(|(n, _)| !n.starts_with(':')).map(|(n, v)| (n.clone(), v.as_bytes().to_vec())).collect();
            if sorted(&h.fields) != sorted(&regular) {
                vios.push(("C13.request-altered".into(), "fields".into(), format!("request [{}]: fields delivered as {:?}", c.label, h.fields)));
            }
            let mut body = t.accepted[i].body.take().unwrap();
            let (n, end) = read_body(&mut body, &mut panics);
            let total: usize = data_total(&c.data);
            if body_bad {
                verdict = "body-mismatch".into();
                match end {
                    Ok(true) => vios.push(("C13.content-length-mismatch-clean-end".into(), format!("total={} cl={:?}", total, content_length(&c.fields)), format!("request [{}]: {} body octets against content-length {:?} ended cleanly", c.label, total, content_length(&c.fields)))),
                    Ok(false) => vios.push(("C13.content-length-mismatch-hangs".into(), "pending".into(), format!("request [{}]: body read neither ends nor fails", c.label))),
                    Err(_) => {
                        if !wire_failed(&t, 1, frames_before) {
                            vios.push(("C13.malformed-not-failed".into(), "content-length".into(), format!("request [{}]: body error surfaced but no RST_STREAM / GOAWAY on the wire", c.label)));
                        }
                    }
                }
            } else {
                verdict = "wellformed-delivered".into();
                if end != Ok(true) || n != total {
                    vios.push(("C13.wellformed-body-failed".into(), format!("{:?}", end.as_ref().map_err(|e| e.clone())), format!("request [{}]: well-formed body of {} octets delivered as {} octets, end {:?}", c.label, total, n, end)));
                }
                if failed_on_wire {
                    vios.push(("C13.wellformed-request-rejected".into(), key_class(&c.label), format!("request [{}] is well-formed but the stream / connection was failed on the wire", c.label)));
                }
            }
            drop(body);
        }
    }
    if verbose {
        println!("request case [{}]\n  fields {:?}\n  data {:?}\n  RFC: head malformed {:?}, body mismatch {}\n  accepted {:?}; wire failed {}; connection {:?}", c.label, c.fields, c.data, head_bad, body_bad, accepted.map(|i| &t.accepted[i].req_head), failed_on_wire, t.conn_result);
        println!("--- wire transcript\n{}", t.mon.transcript());
    }
    if unspecified(Kind::Request { ext_connect_enabled: ext_connect }, &c.fields) {
        vios.clear();
        verdict = "unspecified".into();
    } else if t.conn_alive() && t.goaway_sent().is_none() {
        // whatever became of this message, the next (well-formed, plainly encoded) request on the connection is delivered
        // intact: nothing of a rejected block - a "malformed" mark, half a header list - may stick to the connection
        let next = fs(&[(":method", "GET"), (":scheme", "http"), (":authority", "h.example"), (":path", "/next"), ("x-next", "1")]);
        t.peer_send(&wf::headers(3, &block_raw(&next), true, true));
        t.drive(60);
        match t.accepted.iter().find(|a| a.sid == 3) {
            Some(a) => {
                let want = vec![("x-next".to_string(), b"1".to_vec())];
                if a.req_head.method != "GET" || !a.req_head.uri.ends_with("/next") || sorted(&a.req_head.fields) != want {
                    vios.push(("C13.next-message-altered".into(), "request".into(), format!("after request [{}] the following well-formed request was delivered as {:?}", c.label, a.req_head)));
                }
            }
            None => {
                if t.conn_alive() && t.goaway_sent().is_none() {
                    vios.push(("C13.next-message-rejected".into(), "request".into(), format!("after request [{}] a following well-formed request on stream 3 was not delivered (reset: {:?})", c.label, t.rst_sent(3))));
                }
            }
        }
    }
    let transitions = t.events;
    t.panics.extend(panics);
    for p in t.finish() {
        vios.push(("C13.panic".into(), key.clone(), format!("request [{}]: panic {}", c.label, p.lines().next().unwrap_or(""))));
    }
    CaseResult { vios, verdict, transitions }
}

fn sorted(v: &[(String, Vec<u8>)]) -> Vec<(String, Vec<u8>)> {
    let mut m: BTreeMap<String, Vec<Vec<u8>>> = BTreeMap::new();
    for (n, x) in v {
        m.entry(n.clone()).or_default().push(x.clone());
    }
    m.into_iter().flat_map(|(n, xs)| xs.into_iter().map(move |x| (n.clone(), x))).collect()
}

fn sig_of(why: &str) -> String {
    // normal form: the violated clause without concrete values
    why.split(|c: char| c == ':' && false).next().unwrap_or("").chars().filter(|c| !c.is_ascii_digit()).collect::<String>().trim().to_string()
}

fn key_class(label: &str) -> String {
    label.split(" cl=").next().unwrap_or(label).to_string()
}

#[derive(Clone, Copy, Debug, PartialEq, Eq)]
pub enum ClientMode {
    Response,
    /// an interim head from the grammar, then a plain 200
    Interim,
    Trailers,
    Push,
    /// response to a HEAD request (content-length without body is fine)
    HeadResponse,
}

pub fn run_client_case(c: &Case, mode: ClientMode, verbose: bool) -> CaseResult {
    let cfg = T2Cfg { role: Side::Client, peer_settings: vec![], client: Some(client::Builder::new()), server: None, policy: IoPolicy::default() };
    let mut t = T2::new(&cfg, vec![]);
    let mut vios = vec![];
    let mut panics = vec![];
    let flag = Flag::new(false);
    let w = waker_of(&flag);
    let mut cx = Context::from_waker(&w);
    let method = if mode == ClientMode::HeadResponse { "HEAD" } else { "GET" };
    let req = Request::builder().method(method).uri("http://h.example/").body(()).unwrap();
    let (mut rf, _ss) = {
        let sr = t.send_request.as_mut().unwrap();
        let _ = sr.poll_ready(&mut cx);
        sr.send_request(req, true).expect("send_request")
    };
    t.drive(60);
    let frames_before = t.subject_frames().len();
    let key = format!("{:?}: {}", mode, c.label);
    let mut verdict = String::new();
    match mode {
        ClientMode::Response | ClientMode::HeadResponse => {
            let eos_on_head = c.data.is_empty();
            send_block(&mut t, 1, None, &c.fields, eos_on_head);
            t.drive(60);
            send_data_frames(&mut t, 1, &c.data);
            t.drive(60);
            let status = c.fields.iter().find(|(n, _)| n == ":status").map(|x| x.1.clone()).unwrap_or_default();
            let exempt = mode == ClientMode::HeadResponse || status == "204" || status == "304";
            let is_interim = malformed(Kind::Response, &c.fields).is_none() && status.starts_with('1');
            let (head_bad, mut body_bad) = expectation(Kind::Response, c, exempt);
            if mode == ClientMode::HeadResponse && data_total(&c.data) > 0 {
                // a response to HEAD never has content
                body_bad = true;
            }
            let r = guarded(&mut panics, "poll response", || Pin::new(&mut rf).poll(&mut cx));
            let failed = wire_failed(&t, 1, frames_before);
            match (&head_bad, r) {
                (Some(why), Some(Poll::Ready(Ok(resp)))) => {
                    verdict = "malformed-delivered".into();
                    vios.push(("C13.malformed-response-delivered".to_string(), sig_of(why), format!("response [{}] is malformed ({}) but the response future returned Ok({:?} {:?})", c.label, why, resp.status(), resp.headers())));
                }
                (Some(why), other) => {
                    verdict = "malformed-rejected".into();
                    // a stream that both sides have already ended on the wire cannot be reset any more: failing the
                    // application's handle is all that is left (the request went out with END_STREAM)
                    if !failed && !eos_on_head {
                        vios.push(("C13.malformed-not-failed".into(), sig_of(why), format!("response [{}] is malformed ({}); not delivered, but neither RST_STREAM nor GOAWAY was sent", c.label, why)));
                    }
                    if matches!(other, Some(Poll::Pending)) {
                        vios.push(("C13.malformed-not-failed".into(), format!("pending:{}", sig_of(why)), format!("response [{}] is malformed ({}); the response future neither fails nor completes", c.label, why)));
                    }
                }
                (None, Some(Poll::Ready(Ok(resp)))) => {
                    if resp.status().as_str() != status {
                        vios.push(("C13.response-altered".into(), "status".into(), format!("response [{}] delivered with status {}", c.label, resp.status())));
                    }
                    let regular: Vec<(String, Vec<u8>)> = c.fields.iter().filter(|(n, _)| !n.starts_with(':')).map(|(n, v)| (n.clone(), v.as_bytes().to_vec())).collect();
                    let got: Vec<(String, Vec<u8>)> = resp.headers().iter().map(|(n, v)| (n.as_str().to_string(), v.as_bytes().to_vec())).collect();
                    if sorted(&got) != sorted(&regular) {
                        vios.push(("C13.response-altered".into(), "fields".into(), format!("response [{}]: fields delivered as {:?}", c.label, got)));
                    }
                    let mut body = resp.into_body();
                    let (n, end) = read_body(&mut body, &mut panics);
                    let total: usize = data_total(&c.data);
                    if body_bad {
                        verdict = "body-mismatch".into();
                        match end {
                            Ok(true) => vios.push(("C13.content-length-mismatch-clean-end".into(), format!("total={} cl={:?}", total, content_length(&c.fields)), format!("response [{}]: {} body octets against content-length {:?} ended cleanly", c.label, total, content_length(&c.fields)))),
                            Ok(false) => vios.push(("C13.content-length-mismatch-hangs".into(), "pending".into(), format!("response [{}]: body read neither ends nor fails", c.label))),
                            Err(_) => {}
                        }
                    } else {
                        verdict = "wellformed-delivered".into();
                        if end != Ok(true) || n != total {
                            vios.push(("C13.wellformed-body-failed".into(), format!("{:?}", end.as_ref().map_err(|e| e.clone())), format!("response [{}]: well-formed body of {} octets delivered as {} octets, end {:?}", c.label, total, n, end)));
                        }
                    }
                }
                (None, other) => {
                    if is_interim {
                        verdict = "interim-as-final".into();
                    } else {
                        verdict = "wellformed-rejected".into();
                        vios.push(("C13.wellformed-response-rejected".into(), key_class(&c.label), format!("response [{}] is well-formed but the response future gave {:?} (connection {:?})", c.label, other.map(|p| p.map(|r| r.map(|x| x.status()).map_err(|e| crate::scen::err_text(&e)))), t.conn_result)));
                    }
                }
            }
        }
        ClientMode::Interim => {
            // interim head from the grammar (status forced to 103 where the case has a :status), no END_STREAM; then 200
            let mut f = c.fields.clone();
            for e in f.iter_mut() {
                if e.0 == ":status" && e.1 == "200" {
                    e.1 = "103".into();
                }
            }
            if let Some((_, st)) = f.iter().find(|(n, _)| n == ":status") {
                if st.len() == 3 && st.bytes().all(|b| b.is_ascii_digit()) && !st.starts_with('1') {
                    // a final status: not an interim response at all (covered by the Response mode)
                    drop(rf);
                    let _ = t.finish();
                    return CaseResult { vios: vec![], verdict: "not-interim".into(), transitions: 0 };
                }
            }
            send_block(&mut t, 1, None, &f, false);
            t.drive(60);
            let bad = malformed(Kind::Interim, &f);
            let r = guarded(&mut panics, "poll_informational", || rf.poll_informational(&mut cx));
            match (&bad, r) {
                (Some(why), Some(Poll::Ready(Some(Ok(resp))))) => {
                    verdict = "malformed-delivered".into();
                    vios.push(("C13.malformed-interim-delivered".to_string(), sig_of(why), format!("interim response [{}] is malformed ({}) but poll_informational returned Ok({:?} {:?})", c.label, why, resp.status(), resp.headers())));
                }
                (Some(why), _) => {
                    verdict = "malformed-rejected".into();
                    // it must not surface as the final response either
                    let r2 = guarded(&mut panics, "poll response", || Pin::new(&mut rf).poll(&mut cx));
                    if let Some(Poll::Ready(Ok(resp))) = r2 {
                        vios.push(("C13.malformed-interim-delivered".to_string(), sig_of(why), format!("interim response [{}] is malformed ({}) but was delivered as the final response {:?}", c.label, why, resp.status())));
                    } else if !wire_failed(&t, 1, frames_before) {
                        vios.push(("C13.malformed-not-failed".into(), sig_of(why), format!("interim response [{}] is malformed ({}); neither RST_STREAM nor GOAWAY was sent", c.label, why)));
                    }
                }
                (None, Some(Poll::Ready(Some(Ok(_))))) => verdict = "wellformed-delivered".into(),
                (None, other) => {
                    verdict = "wellformed-rejected".into();
                    vios.push(("C13.wellformed-interim-rejected".into(), key_class(&c.label), format!("interim response [{}] is well-formed but poll_informational gave {:?}", c.label, other.map(|p| p.map(|o| o.map(|r| r.map(|x| x.status()).map_err(|e| crate::scen::err_text(&e))))))));
                }
            }
        }
        ClientMode::Trailers => {
            t.peer_send(&wf::headers(1, &block_raw(&fs(&[(":status", "200")])), false, true));
            t.peer_send(&wf::data(1, b"abc", false));
            send_block(&mut t, 1, None, &c.fields, true);
            t.drive(60);
            let bad = malformed(Kind::Trailers, &c.fields);
            let r = guarded(&mut panics, "poll response", || Pin::new(&mut rf).poll(&mut cx));
            if let Some(Poll::Ready(Ok(resp))) = r {
                let mut body = resp.into_body();
                let mut got_trailers = None;
                let mut err = None;
                loop {
                    match guarded(&mut panics, "poll_data", || body.poll_data(&mut cx)) {
                        Some(Poll::Ready(Some(Ok(_)))) => {}
                        Some(Poll::Ready(Some(Err(e)))) => {
                            err = Some(crate::scen::err_text(&e));
                            break;
                        }
                        _ => break,
                    }
                }
                if err.is_none() {
                    match guarded(&mut panics, "poll_trailers", || body.poll_trailers(&mut cx)) {
                        Some(Poll::Ready(Ok(tr))) => got_trailers = Some(tr),
                        Some(Poll::Ready(Err(e))) => err = Some(crate::scen::err_text(&e)),
                        _ => err = Some("pending".into()),
                    }
                }
                match (&bad, got_trailers) {
                    (Some(why), Some(tr)) => {
                        verdict = "malformed-delivered".into();
                        vios.push(("C13.malformed-trailers-delivered".to_string(), sig_of(why), format!("trailers [{}] are malformed ({}) but poll_trailers returned Ok({:?})", c.label, why, tr)));
                    }
                    (Some(_why), None) => {
                        // trailers end the stream and the request went out with END_STREAM: both sides have closed it on the
                        // wire, so there is nothing left to reset; the handle has failed, which is what the property asks
                        verdict = "malformed-rejected".into();
                        if err.is_none() {
                            vios.push(("C13.malformed-not-failed".into(), "trailers-no-error".into(), format!("trailers [{}] are malformed but the body neither delivered them nor failed", c.label)));
                        }
                    }
                    (None, Some(Some(tr))) => {
                        verdict = "wellformed-delivered".into();
                        let got: Vec<(String, Vec<u8>)> = tr.iter().map(|(n, v)| (n.as_str().to_string(), v.as_bytes().to_vec())).collect();
                        let want: Vec<(String, Vec<u8>)> = c.fields.iter().map(|(n, v)| (n.clone(), v.as_bytes().to_vec())).collect();
                        if sorted(&got) != sorted(&want) {
                            vios.push(("C13.trailers-altered".into(), "fields".into(), format!("trailers [{}] delivered as {:?}", c.label, got)));
                        }
                    }
                    (None, other) => {
                        verdict = "wellformed-rejected".into();
                        vios.push(("C13.wellformed-trailers-rejected".into(), key_class(&c.label), format!("trailers [{}] are well-formed but the body ended with {:?} / {:?}", c.label, other.map(|o| o.is_some()), err)));
                    }
                }
            } else {
                vios.push(("C13.wellformed-response-rejected".into(), "before-trailers".into(), format!("trailers [{}]: the plain 200 response head before them was not delivered", c.label)));
            }
        }
        ClientMode::Push => {
            let mut pp = rf.push_promises();
            send_block(&mut t, 1, Some(2), &c.fields, false);
            t.drive(60);
            let bad = malformed(Kind::PushRequest, &c.fields);
            let r = guarded(&mut panics, "poll_push_promise", || pp.poll_push_promise(&mut cx));
            let failed = t.subject_frames()[frames_before..].iter().any(|f| match &f.parsed {
                Ok(Parsed::RstStream { sid, .. }) => *sid == 2 || *sid == 1,
                Ok(Parsed::GoAway { code, .. }) => *code != 0,
                _ => false,
            });
            match (&bad, r) {
                (Some(why), Some(Poll::Ready(Some(Ok(p))))) => {
                    verdict = "malformed-delivered".into();
                    vios.push(("C13.malformed-push-delivered".to_string(), sig_of(why), format!("promised request [{}] is malformed ({}) but poll_push_promise returned Ok({:?})", c.label, why, p.request())));
                }
                (Some(why), _) => {
                    verdict = "malformed-rejected".into();
                    if !failed {
                        vios.push(("C13.malformed-not-failed".into(), sig_of(why), format!("promised request [{}] is malformed ({}); neither RST_STREAM nor GOAWAY was sent", c.label, why)));
                    }
                }
                (None, Some(Poll::Ready(Some(Ok(_))))) => verdict = "wellformed-delivered".into(),
                (None, other) => {
                    verdict = "wellformed-rejected".into();
                    vios.push(("C13.wellformed-push-rejected".into(), key_class(&c.label), format!("promised request [{}] is well-formed but poll_push_promise gave {:?}", c.label, other.map(|p| p.map(|o| o.map(|r| r.is_ok()))))));
                }
            }
            drop(pp);
        }
    }
    if verbose {
        println!("client case {:?} [{}]\n  fields {:?}\n  data {:?}\n  verdict {}", mode, c.label, c.fields, c.data, verdict);
        println!("--- wire transcript\n{}", t.mon.transcript());
    }
    drop(rf);
    let transitions = t.events;
    t.panics.extend(panics);
    let k = match mode {
        ClientMode::Response | ClientMode::HeadResponse => Kind::Response,
        ClientMode::Interim => Kind::Interim,
        ClientMode::Trailers => Kind::Trailers,
        ClientMode::Push => Kind::PushRequest,
    };
    if unspecified(k, &c.fields) {
        vios.clear();
        verdict = "unspecified".into();
    }
    for p in t.finish() {
        vios.push(("C13.panic".into(), key.clone(), format!("{}: panic {}", key, p.lines().next().unwrap_or(""))));
    }
    CaseResult { vios, verdict, transitions }
}

// ---------------------------------------------------------------------------------------------
// send side: the API refuses to emit malformed messages

fn send_side_checks(vios: &mut VioSet, n: &AtomicU64) {
    let bad_fields: Vec<(&str, &str)> = vec![("connection", "close"), ("keep-alive", "1"), ("proxy-connection", "x"), ("transfer-encoding", "chunked"), ("upgrade", "h2c"), ("te", "gzip")];
    let good_fields: Vec<(&str, &str)> = vec![("te", "trailers"), ("x-ordinary", "1")];
    let hm = |n: &str, v: &str| {
        let mut m = HeaderMap::new();
        m.insert(HeaderName::from_bytes(n.as_bytes()).unwrap(), HeaderValue::from_str(v).unwrap());
        m
    };
    for (fname, fval, expect_err) in bad_fields.iter().map(|(a, b)| (*a, *b, true)).chain(good_fields.iter().map(|(a, b)| (*a, *b, false))) {
        for what in ["request", "response", "informational", "push", "request-trailers", "response-trailers"] {
            n.fetch_add(1, Ordering::Relaxed);
            let server_side = what != "request" && what != "request-trailers";
            let role = if server_side { Side::Server } else { Side::Client };
            let cfg = T2Cfg { role, peer_settings: vec![], client: Some(client::Builder::new()), server: Some(server::Builder::new()), policy: IoPolicy::default() };
            let mut t = T2::new(&cfg, vec![]);
            let flag = Flag::new(false);
            let w = waker_of(&flag);
            let mut cx = Context::from_waker(&w);
            let mut result: Option<bool> = None; // Some(true) = Err returned
            let frames_before;
            let mut handles: Vec<Box<dyn std::any::Any>> = vec![];
            if server_side {
                t.peer_request(1, "/s", true);
                t.drive(60);
                frames_before = t.subject_frames().len();
                let a = &mut t.accepted[0];
                let r = a.respond.as_mut().unwrap();
                match what {
                    "response" => {
                        let mut resp = Response::builder().status(200).body(()).unwrap();
                        *resp.headers_mut() = hm(fname, fval);
                        result = Some(match r.send_response(resp, true) {
                            Ok(s) => {
                                handles.push(Box::new(s));
                                false
                            }
                            Err(_) => true,
                        });
                    }
                    "informational" => {
                        let mut resp = Response::builder().status(103).body(()).unwrap();
                        *resp.headers_mut() = hm(fname, fval);
                        result = Some(r.send_informational(resp).is_err());
                    }
                    "push" => {
                        let mut req = Request::builder().method("GET").uri("http://h.example/pushed").body(()).unwrap();
                        *req.headers_mut() = hm(fname, fval);
                        result = Some(match r.push_request(req) {
                            Ok(p) => {
                                handles.push(Box::new(p));
                                false
                            }
                            Err(_) => true,
                        });
                    }
                    _ => {
                        let resp = Response::builder().status(200).body(()).unwrap();
                        if let Ok(mut ss) = r.send_response(resp, false) {
                            t.drive(60);
                            result = Some(ss.send_trailers(hm(fname, fval)).is_err());
                            handles.push(Box::new(ss));
                        }
                    }
                }
            } else {
                frames_before = t.subject_frames().len();
                let sr = t.send_request.as_mut().unwrap();
                let _ = sr.poll_ready(&mut cx);
                match what {
                    "request" => {
                        let mut req = Request::builder().method("GET").uri("http://h.example/").body(()).unwrap();
                        *req.headers_mut() = hm(fname, fval);
                        result = Some(match sr.send_request(req, true) {
                            Ok(x) => {
                                handles.push(Box::new(x));
                                false
                            }
                            Err(_) => true,
                        });
                    }
                    _ => {
                        let req = Request::builder().method("POST").uri("http://h.example/").body(()).unwrap();
                        if let Ok((rf, mut ss)) = sr.send_request(req, false) {
                            t.drive(60);
                            result = Some(ss.send_trailers(hm(fname, fval)).is_err());
                            handles.push(Box::new(rf));
                            handles.push(Box::new(ss));
                        }
                    }
                }
            }
            t.drive(60);
            // header blocks that appeared after the call and carry the field
            let emitted = t.subject_frames()[frames_before..].iter().any(|f| f.block.as_ref().and_then(|b| b.fields.as_ref().ok()).map(|fl| fl.iter().any(|(nm, _)| nm == fname.as_bytes())).unwrap_or(false));
            let replay = json!({"harness": "c13.send", "what": what, "field": fname, "value": fval});
            match (expect_err, result) {
                (true, Some(false)) => vios.add(Violation { rule: "C13.send-api-accepts-malformed".into(), signature: format!("{}:{}", what, fname), what: format!("{} with `{}: {}` was accepted by the send API", what, fname, fval), replay }),
                (true, _) if emitted => vios.add(Violation { rule: "C13.malformed-emitted".into(), signature: format!("{}:{}", what, fname), what: format!("{} with `{}: {}` reached the wire", what, fname, fval), replay }),
                (false, Some(true)) => vios.add(Violation { rule: "C13.send-api-refuses-wellformed".into(), signature: format!("{}:{}", what, fname), what: format!("{} with `{}: {}` is well-formed but the send API refused it", what, fname, fval), replay }),
                _ => {}
            }
            drop(handles);
            let _ = t.finish();
        }
    }
}

// ---------------------------------------------------------------------------------------------

pub fn run(ctx: &Ctx) -> Outcome {
    let mut out = Outcome::default();
    let pairs = true;
    let vios = Mutex::new(VioSet::default());
    let verdicts: Mutex<BTreeMap<String, u64>> = Mutex::new(BTreeMap::new());
    let transitions = AtomicU64::new(0);
    let total = AtomicU64::new(0);
    let record = |harness: &str, mode: &str, c: &Case, r: CaseResult| {
        total.fetch_add(1, Ordering::Relaxed);
        transitions.fetch_add(r.transitions, Ordering::Relaxed);
        *verdicts.lock().unwrap().entry(format!("{}:{}", mode, r.verdict)).or_insert(0) += 1;
        if !r.vios.is_empty() {
            let mut vs = vios.lock().unwrap();
            for (rule, sig, what) in r.vios {
                vs.add(Violation { rule, signature: format!("{}:{}", mode, sig), what, replay: json!({"harness": harness, "mode": mode, "label": c.label, "fields": c.fields, "data": c.data.iter().map(|(l, e)| json!([if *l == TRAILERS { -1i64 } else { *l as i64 }, e])).collect::<Vec<_>>()}) });
            }
        }
    };
    let reqs = request_cases(pairs);
    par_for(reqs.len(), |i| {
        record("c13.request", "request", &reqs[i], run_request_case(&reqs[i], false, false));
        if reqs[i].label.contains("CONNECT") || reqs[i].label.contains(":protocol") {
            record("c13.request", "request-extconnect", &reqs[i], run_request_case(&reqs[i], true, false));
        }
    });
    // the same verdicts when the header block is cut into HEADERS + CONTINUATION at every offset (single-defect cases)
    let singles: Vec<Case> = request_cases(false).into_iter().filter(|c| c.data.is_empty()).collect();
    let split_jobs: Vec<(usize, usize)> = singles.iter().enumerate().flat_map(|(i, c)| (1..block_raw(&c.fields).len()).map(move |k| (i, k))).collect();
    par_for(split_jobs.len(), |j| {
        let (i, k) = split_jobs[j];
        let mut r = run_request_case_split(&singles[i], false, Some(k), false);
        for v in r.vios.iter_mut() {
            v.1 = format!("split:{}", v.1);
            v.2 = format!("(header block cut at {}) {}", k, v.2);
        }
        let mut c = singles[i].clone();
        c.label = format!("{} @split{}", c.label, k);
        record("c13.request", "request", &c, r);
    });
    let resps = response_cases(pairs);
    par_for(resps.len(), |i| {
        record("c13.client", "Response", &resps[i], run_client_case(&resps[i], ClientMode::Response, false));
        record("c13.client", "HeadResponse", &resps[i], run_client_case(&resps[i], ClientMode::HeadResponse, false));
        if resps[i].data.is_empty() {
            record("c13.client", "Interim", &resps[i], run_client_case(&resps[i], ClientMode::Interim, false));
        }
    });
    let trs = trailer_cases();
    par_for(trs.len(), |i| record("c13.client", "Trailers", &trs[i], run_client_case(&trs[i], ClientMode::Trailers, false)));
    let pushes: Vec<Case> = request_cases(false).into_iter().filter(|c| c.data.is_empty()).collect();
    par_for(pushes.len(), |i| record("c13.client", "Push", &pushes[i], run_client_case(&pushes[i], ClientMode::Push, false)));
    // --- further dimensions (added in the build round) -------------------------------------------------------------
    let extra = AtomicU64::new(0);
    let cut = std::sync::atomic::AtomicBool::new(false);
    let over = || {
        if ctx.over_budget() {
            cut.store(true, Ordering::Relaxed);
            true
        } else {
            false
        }
    };
    // (a) every combination of three defects (requests, responses)
    let max_defects = if ctx.tier.is_quick() { 5 } else { 7 };
    let req3: Vec<Case> = request_cases_n(max_defects).into_iter().filter(|c| c.label.matches(" / ").count() >= 3).collect();
    par_for(req3.len(), |i| {
        if over() {
            return;
        }
        extra.fetch_add(1, Ordering::Relaxed);
        record("c13.request", "request", &req3[i], run_request_case(&req3[i], false, false));
    });
    let resp3: Vec<Case> = response_cases_n(max_defects).into_iter().filter(|c| c.label.matches(" / ").count() >= 3).collect();
    par_for(resp3.len(), |i| {
        if over() {
            return;
        }
        extra.fetch_add(2, Ordering::Relaxed);
        record("c13.client", "Response", &resp3[i], run_client_case(&resp3[i], ClientMode::Response, false));
        record("c13.client", "Interim", &resp3[i], run_client_case(&resp3[i], ClientMode::Interim, false));
    });
    // (b) the verdict does not depend on the HPACK representation (Huffman strings, incremental indexing, both) ...
    let req2: Vec<Case> = request_cases_n(3);
    let resp2: Vec<Case> = response_cases_n(3);
    let jobs_b: Vec<(u8, bool, usize)> = (1..=3u8).flat_map(|enc| (0..req2.len()).map(move |i| (enc, true, i)).chain((0..resp2.len()).map(move |i| (enc, false, i)))).collect();
    par_for(jobs_b.len(), |j| {
        if over() {
            return;
        }
        let (enc, is_req, i) = jobs_b[j];
        let v = WireVariant { enc, split: None };
        if is_req {
            extra.fetch_add(1, Ordering::Relaxed);
            let mut c = req2[i].clone();
            let r = with_variant(v, || run_request_case(&c, false, false));
            c.label = format!("{} @enc{}", c.label, enc);
            record("c13.request", "request", &c, r);
        } else {
            extra.fetch_add(2, Ordering::Relaxed);
            let mut c = resp2[i].clone();
            let r1 = with_variant(v, || run_client_case(&c, ClientMode::Response, false));
            let r2 = with_variant(v, || run_client_case(&c, ClientMode::HeadResponse, false));
            c.label = format!("{} @enc{}", c.label, enc);
            record("c13.client", "Response", &c, r1);
            record("c13.client", "HeadResponse", &c, r2);
        }
    });
    // ... nor on where the block is cut into HEADERS / PUSH_PROMISE + CONTINUATION: every offset, client-side kinds
    // (single defects; requests are covered above), and every offset of the Huffman + indexed form for requests
    let resp1: Vec<Case> = response_cases_n(1);
    let trs1 = trailer_cases();
    let push1: Vec<Case> = request_cases_n(1);
    let mut jobs_c: Vec<(u8, usize, usize, u8)> = vec![]; // (kind, case, offset, enc)
    for (i, c) in resp1.iter().enumerate() {
        for k in 1..block_len_for(&c.fields, 0) {
            jobs_c.push((0, i, k, 0));
        }
    }
    for (i, c) in trs1.iter().enumerate() {
        for k in 1..block_len_for(&c.fields, 0) {
            jobs_c.push((1, i, k, 0));
        }
    }
    for (i, c) in push1.iter().enumerate() {
        for k in 1..block_len_for(&c.fields, 0) {
            jobs_c.push((2, i, k, 0));
        }
    }
    for (i, c) in singles.iter().enumerate() {
        for k in 1..block_len_for(&c.fields, 3) {
            jobs_c.push((3, i, k, 3));
        }
    }
    par_for(jobs_c.len(), |j| {
        if over() {
            return;
        }
        let (kind, i, k, enc) = jobs_c[j];
        let v = WireVariant { enc, split: Some(k) };
        // a violation that the same case shows when sent whole is the same finding; only split-dependent ones get their own
        // signature
        let tag_against = |r: &mut CaseResult, whole: &CaseResult| {
            for x in r.vios.iter_mut() {
                if !whole.vios.iter().any(|w| w.0 == x.0 && w.1 == x.1) {
                    x.1 = format!("split:{}", x.1);
                }
                x.2 = format!("(header block cut at {}, encoding {}) {}", k, enc, x.2);
            }
        };
        match kind {
            0 => {
                extra.fetch_add(2, Ordering::Relaxed);
                let mut c = resp1[i].clone();
                let mut r1 = with_variant(v, || run_client_case(&c, ClientMode::Response, false));
                let mut r2 = with_variant(v, || run_client_case(&c, ClientMode::Interim, false));
                tag_against(&mut r1, &run_client_case(&c, ClientMode::Response, false));
                tag_against(&mut r2, &run_client_case(&c, ClientMode::Interim, false));
                c.label = format!("{} @split{}", c.label, k);
                record("c13.client", "Response", &c, r1);
                record("c13.client", "Interim", &c, r2);
            }
            1 => {
                extra.fetch_add(1, Ordering::Relaxed);
                let mut c = trs1[i].clone();
                let mut r = with_variant(v, || run_client_case(&c, ClientMode::Trailers, false));
                tag_against(&mut r, &run_client_case(&c, ClientMode::Trailers, false));
                c.label = format!("{} @split{}", c.label, k);
                record("c13.client", "Trailers", &c, r);
            }
            2 => {
                extra.fetch_add(1, Ordering::Relaxed);
                let mut c = push1[i].clone();
                let mut r = with_variant(v, || run_client_case(&c, ClientMode::Push, false));
                tag_against(&mut r, &run_client_case(&c, ClientMode::Push, false));
                c.label = format!("{} @split{}", c.label, k);
                record("c13.client", "Push", &c, r);
            }
            _ => {
                extra.fetch_add(1, Ordering::Relaxed);
                let mut c = singles[i].clone();
                let mut r = with_variant(v, || run_request_case(&c, false, false));
                tag_against(&mut r, &run_request_case(&c, false, false));
                c.label = format!("{} @enc{}split{}", c.label, enc, k);
                record("c13.request", "request", &c, r);
            }
        }
    });
    let n_send = AtomicU64::new(0);
    {
        let mut vs = vios.lock().unwrap();
        send_side_checks(&mut vs, &n_send);
    }
    out.harness("further-dimensions", json!({"max_defects_combined": max_defects, "requests_with_3_or_more_defects": req3.len(), "responses_with_3_or_more_defects": resp3.len(), "representation_variants": jobs_b.len(), "split_variants": jobs_c.len(), "cases_run": extra.load(Ordering::Relaxed), "complete": !cut.load(Ordering::Relaxed)}));
    let verdicts = verdicts.into_inner().unwrap();
    let n = total.load(Ordering::Relaxed) + n_send.load(Ordering::Relaxed);
    out.harness("receive-side", json!({"request_cases": reqs.len(), "response_cases": resps.len(), "trailer_cases": trs.len(), "push_cases": pushes.len(), "verdicts": verdicts}));
    out.harness("send-side", json!({"calls": n_send.load(Ordering::Relaxed)}));
    out.set("evaluations", json!(n));
    out.set("states", json!(n));
    out.set("transitions", json!(transitions.load(Ordering::Relaxed)));
    out.set("traces_validated_against_impl", json!(n));
    out.set("distinct_nontrivial", json!(verdicts.len().max(2)));
    out.set("exhaustive", json!(!cut.load(Ordering::Relaxed)));
    out.set("rule", json!("X3 on T2: every header list of a grammar (a valid base message with every single, every pair and (requests, responses, interim) every combination of up to 4 (thorough: 5) defects: each pseudo-header dropped / duplicated / emptied / placed after a regular field, wrong-direction and unknown pseudo-headers, connection-specific fields, TE values, upper-case names, content-length syntax) for requests (server subject), responses, responses to HEAD, interim responses, trailers and promised requests (client subject), plus CONNECT / extended CONNECT shapes and every DATA length pattern {0,1,n-1,n,n+1} x <= 2 frames x END_STREAM placement against content-length; the RFC 9113 section 8 predicate decides malformed => nothing returned as Ok, body mismatch => Err not clean end, RST_STREAM/GOAWAY on the wire; well-formed => delivered intact. Every verdict again with the block in Huffman / incrementally indexed / both representations (<= 3 defects) and cut into HEADERS | PUSH_PROMISE + CONTINUATION at every offset (single defects, all kinds); after every request case a following well-formed request must be delivered intact. Send side: every send call with each forbidden / permitted field"));
    out.add_sample(json!({"harness": "c13.request", "mode": "request", "label": reqs[1].label, "fields": reqs[1].fields, "data": []}));
    out.add_sample(json!({"harness": "c13.client", "mode": "Trailers", "label": trs[1].label, "fields": trs[1].fields, "data": []}));
    out.guard_nonzero("malformed cases", verdicts.iter().filter(|(k, _)| k.contains("malformed")).map(|(_, v)| *v).sum());
    out.guard_nonzero("well-formed cases delivered", verdicts.iter().filter(|(k, _)| k.contains("wellformed-delivered")).map(|(_, v)| *v).sum());
    out.assume("validity predicate written from RFC 9113 8.1-8.5 / RFC 8441 in c13.rs; identical repeated content-length values are treated as well-formed");
    out.violations = vios.into_inner().unwrap().into_vec();
    out
}

pub fn replay(v: &Value) -> bool {
    let h = v["harness"].as_str().unwrap_or("");
    if h == "c13.send" {
        let mut vs = VioSet::default();
        send_side_checks(&mut vs, &AtomicU64::new(0));
        for x in vs.map.values() {
            println!("RULE VIOLATED: {} {}", x.rule, x.what);
        }
        return !vs.map.is_empty();
    }
    let fields: Fields = v["fields"].as_array().unwrap().iter().map(|p| (p[0].as_str().unwrap().to_string(), p[1].as_str().unwrap().to_string())).collect();
    let data: Vec<(usize, bool)> = v["data"].as_array().map(|a| a.iter().map(|p| (if p[0].as_i64() == Some(-1) { TRAILERS } else { p[0].as_u64().unwrap() as usize }, p[1].as_bool().unwrap())).collect()).unwrap_or_default();
    let c = Case { label: v["label"].as_str().unwrap_or("").to_string(), fields, data };
    let mode = v["mode"].as_str().unwrap_or("");
    let r = match mode {
        "request" => {
            let split = c.label.rsplit("@split").next().and_then(|x| x.parse::<usize>().ok()).filter(|_| c.label.contains("@split"));
            run_request_case_split(&c, false, split, true)
        }
        "request-extconnect" => run_request_case(&c, true, true),
        "Response" => run_client_case(&c, ClientMode::Response, true),
        "HeadResponse" => run_client_case(&c, ClientMode::HeadResponse, true),
        "Interim" => run_client_case(&c, ClientMode::Interim, true),
        "Trailers" => run_client_case(&c, ClientMode::Trailers, true),
        _ => run_client_case(&c, ClientMode::Push, true),
    };
    for (rule, _, what) in &r.vios {
        println!("RULE VIOLATED: {} {}", rule, what);
    }
    !r.vios.is_empty()
}
